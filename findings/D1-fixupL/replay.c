#include <stdio.h>
#include <stdlib.h>
#include <math.h>
#include "slu_mt_ddefs.h"
int main(int argc,char**argv){
  int n=argc>1?atoi(argv[1]):44, reps=argc>2?atoi(argv[2]):300, P=argc>3?atoi(argv[3]):8;
  int bad=0, wrongperm=0;
  for(int rep=0;rep<reps;rep++){
    srand(1000+rep%7);
    int cap=n*n, nnz=0; double *a=malloc(cap*sizeof(double)); int_t *asub=malloc(cap*sizeof(int_t)), *xa=malloc((n+1)*sizeof(int_t));
    for(int j=0;j<n;j++){ xa[j]=nnz; for(int i=0;i<n;i++){ if(i==j|| (rand()%100)<8){ a[nnz]= (i==j)? 4.0+ (rand()%10): ((rand()%200)-100)/50.0; asub[nnz++]=i; } } } xa[n]=nnz;
    double *a0=malloc(nnz*sizeof(double)); for(int k=0;k<nnz;k++)a0[k]=a[k];
    SuperMatrix A,L,U,B; dCreate_CompCol_Matrix(&A,n,n,nnz,a,asub,xa,SLU_NC,SLU_D,SLU_GE);
    double *rhs=malloc(n*sizeof(double)), *b0=malloc(n*sizeof(double)); for(int i=0;i<n;i++){rhs[i]=1.0+i%3; b0[i]=rhs[i];}
    dCreate_Dense_Matrix(&B,n,1,rhs,n,SLU_DN,SLU_D,SLU_GE);
    int_t *perm_r=malloc(n*sizeof(int_t)), *perm_c=malloc(n*sizeof(int_t)); int_t info;
    get_perm_c(1,&A,perm_c);
    pdgssv(P,&A,perm_c,perm_r,&L,&U,&B,&info);
    double rmax=0,xmax=0; 
    if(info==0){
      double *r=calloc(n,sizeof(double)); for(int i=0;i<n;i++) r[i]=b0[i];
      for(int j=0;j<n;j++) for(int k=xa[j];k<xa[j+1];k++) r[asub[k]]-=a0[k]*rhs[j];
      for(int i=0;i<n;i++){ if(fabs(r[i])>rmax||r[i]!=r[i]) rmax=fabs(r[i]); if(fabs(rhs[i])>xmax)xmax=fabs(rhs[i]);} free(r);
      if(!(rmax<=1e-8*(1+xmax))) { bad++; if(bad<4) printf("rep %d: residual %g info=%d\n",rep,rmax,(int)info); }
    } else { printf("rep %d info=%d\n",rep,(int)info); }
    Destroy_SuperNode_SCP(&L); Destroy_CompCol_NCP(&U); Destroy_SuperMatrix_Store(&A); Destroy_SuperMatrix_Store(&B);
    free(a);free(asub);free(xa);free(a0);free(rhs);free(b0);free(perm_r);free(perm_c);
  }
  printf("n=%d reps=%d P=%d wrong=%d\n",n,reps,P,bad); return bad?1:0;
}
