#include <stdio.h>
#include <stdlib.h>
#include "slu_mt_ddefs.h"
int main(){ int n=8; double a[8]; int_t asub[8],xa[9]; for(int j=0;j<n;j++){a[j]=1+j;asub[j]=j;xa[j]=j;} xa[n]=n;   /* diagonal matrix: A'A and A'+A have empty adjacency */
 SuperMatrix A; dCreate_CompCol_Matrix(&A,n,n,n,a,asub,xa,SLU_NC,SLU_D,SLU_GE); int_t pc[8];
 get_perm_c(1,&A,pc); get_perm_c(2,&A,pc); Destroy_SuperMatrix_Store(&A); for(int i=0;i<n;i++) if(pc[i]!=i) return 2; return 0;}
