/* Replay / test for the repaired defect "?langs aborts for NORM = 'F'": the documented Frobenius norm of a small sparse matrix in all four precisions,
 * including entries whose squares overflow / underflow.  exit 0 = all values within 4 ulp-ish of the reference; before the fix the process aborts
 * ("Not implemented."). build: gcc -I /repo/SRC langs-frobenius.c /repo/_build/SRC/libsuperlu_mt_PTHREAD.a -lopenblas -lpthread -lm */
#include <stdio.h>
#include <math.h>
#include "slu_mt_sdefs.h"
extern double dlangs(char *, SuperMatrix *);
extern double zlangs(char *, SuperMatrix *);
extern float clangs(char *, SuperMatrix *);
extern float slangs(char *, SuperMatrix *);
typedef struct { double r, i; } zz;
typedef struct { float r, i; } cc;
extern void dCreate_CompCol_Matrix(), zCreate_CompCol_Matrix(), cCreate_CompCol_Matrix();
int main(void)
{
    int_t colptr[] = {0,2,3,5}, rowind[] = {0,2, 1, 0,2}; int bad = 0, k, t;
    for (t = 0; t < 3; ++t) {
	double sc = t == 0 ? 1.0 : (t == 1 ? 1e200 : 1e-200);
	float scf = t == 0 ? 1.0f : (t == 1 ? 1e25f : 1e-25f);
	double dv[5] = {3*sc, -4*sc, 12*sc, 0.0, 84*sc};             /* sqrt(9+16+144+7056) = 85 */
	float  sv[5] = {3*scf, -4*scf, 12*scf, 0.0f, 84*scf};
	zz     zv[5] = {{3*sc,0},{0,-4*sc},{12*sc,0},{0,0},{0,84*sc}};
	cc cv[5] = {{3*scf,0},{0,-4*scf},{12*scf,0},{0,0},{0,84*scf}};
	SuperMatrix A; double r; 
	dCreate_CompCol_Matrix(&A, 3, 3, 5, dv, rowind, colptr, SLU_NC, SLU_D, SLU_GE); r = dlangs("F", &A); if (fabs(r/(85*sc)-1) > 1e-14) { printf("d t=%d %g\n", t, r); bad = 1; }
	r = dlangs("E", &A); if (fabs(r/(85*sc)-1) > 1e-14) bad = 1;
	sCreate_CompCol_Matrix(&A, 3, 3, 5, sv, rowind, colptr, SLU_NC, SLU_S, SLU_GE); r = slangs("F", &A); if (fabs(r/(85.0*scf)-1) > 1e-5) { printf("s t=%d %g\n", t, r); bad = 1; }
	zCreate_CompCol_Matrix(&A, 3, 3, 5, (void*)zv, rowind, colptr, SLU_NC, SLU_Z, SLU_GE); r = zlangs("f", &A); if (fabs(r/(85*sc)-1) > 1e-14) { printf("z t=%d %g\n", t, r); bad = 1; }
	cCreate_CompCol_Matrix(&A, 3, 3, 5, (void*)cv, rowind, colptr, SLU_NC, SLU_C, SLU_GE); r = clangs("F", &A); if (fabs(r/(85.0*scf)-1) > 1e-5) { printf("c t=%d %g\n", t, r); bad = 1; }
    }
    printf(bad ? "WRONG\n" : "ok\n");
    return bad;
}
