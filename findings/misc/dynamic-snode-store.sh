#!/bin/sh
# Replay for the known finding C05 SLOT-BOUND pxgstrf_super_bnd_dfs#DynamicSetMap-num.
# Dynamic supernode storage with 4 threads: the slots sized by pxgstrf_super_bnd_dfs are too small for the supernodes the
# pipelined factorization stores, L supernodes overlap in lusup[] and the solution is wrong with info = 0.
# Prints the FERR/BERR line of the EXAMPLE driver for 6 runs; static mode and -p 1 give FERR ~ 8.5e-14 every time.
# Observed on the unchanged tree: nan / 2.9e-01 / 2.4e+00 in 4 of 6 runs.
cd /repo || exit 2
bad=0
for i in 1 2 3 4 5 6; do
  l=$(SuperLU_DYNAMIC_SNODE_STORE=1 _build/EXAMPLE/pdlinsolx -p 4 < EXAMPLE/big.rua 2>&1 | grep -A1 FERR | tail -1)
  echo "run $i: $l"
  case "$l" in *nan*|*e+0*|*e-0[0-6]*) bad=1;; esac
done
exit $bad
