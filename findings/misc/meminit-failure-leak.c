#include <stdio.h>
#include <stdlib.h>
#include "slu_mt_ddefs.h"
void *__real_malloc(size_t); void __real_free(void*); void *__real_calloc(size_t,size_t);
static long live=0; static size_t limit=(size_t)-1;
void *__wrap_malloc(size_t n){ if(n>limit) return NULL; void*p=__real_malloc(n); if(p)live++; return p;}
void *__wrap_calloc(size_t a,size_t b){ void*p=__real_calloc(a,b); if(p)live++; return p;}
void __wrap_free(void*p){ if(p)live--; __real_free(p);}
int main(){ int n=400,nnz=0; double*a=malloc(n*40*8); int_t*asub=malloc(n*40*sizeof(int_t)),*xa=malloc((n+1)*sizeof(int_t));
 for(int j=0;j<n;j++){xa[j]=nnz; for(int i=0;i<n;i++) if(i==j||(i*7+j*3)%37==0){a[nnz]=(i==j)?50:1.0;asub[nnz++]=i;}} xa[n]=nnz;
 SuperMatrix A,L,U,B; dCreate_CompCol_Matrix(&A,n,n,nnz,a,asub,xa,SLU_NC,SLU_D,SLU_GE);
 double*b=calloc(n,8); dCreate_Dense_Matrix(&B,n,1,b,n,SLU_DN,SLU_D,SLU_GE);
 int_t*perm_r=intMalloc(n),*perm_c=intMalloc(n),info; for(int i=0;i<n;i++)perm_c[i]=i;
 long before=live; limit=60000;           /* every request above 60 kB fails: the L/U value arrays cannot be obtained */
 pdgssv(2,&A,perm_c,perm_r,&L,&U,&B,&info);
 limit=(size_t)-1; long after=live;
 printf("allocation failure: info=%d (n=%d) ; heap blocks still live after the call: %ld\n",(int)info,n,after-before);
 return (info>n && after==before)?0:1;}
