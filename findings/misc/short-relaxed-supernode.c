/*
 * Two inputs on which the PRISTINE tree (worktree /tmp/mut4/C06, commit 9833286)
 * does not keep property C06.  Found while looking for demo inputs; they are
 * not related to the seeded changes A and B.
 *
 * Build + run (pristine build in /tmp/mut4/C06/_build):
 *   cd /tmp/mut4/C06 && gcc -O1 -g -w -I SRC _out/pristine_crash.c _build/SRC/libsuperlu_mt_PTHREAD.a -lopenblas -lpthread -lm -o /tmp/pristine_crash && OPENBLAS_NUM_THREADS=1 /tmp/pristine_crash
 *   (optional arguments:  <case 1|2> <nprocs> <0=pdgssv|1=pdgssvx>  run just one
 *    configuration in the calling process, e.g. under gdb/valgrind)
 *
 * Options used: perm_c = identity on entry (natural order); the drivers
 * postorder the etree and return the composed perm_c (case 1:
 * 2 3 4 5 0 6 7 8 9 1 10 11, case 2: unchanged), perm_r output only.
 * The expected info is computed from the returned perm_c by bipartite matching.
 * pdgssv: everything else is the driver's default (panel_size = sp_ienv(1),
 * relax = sp_ienv(2) of SRC/sp_ienv.c, diag_pivot_thresh = 1.0, usepr = NO).
 * pdgssvx: fact = DOFACT, trans = NOTRANS, refact = NO, usepr = NO,
 * panel_size = 8, relax = 6, diag_pivot_thresh = 1.0, lwork = 0.
 *
 * Case 1 (12x12, nnz 29): columns 0,1,2 each hold the single entry (11,j).
 *   After postordering they are columns 2,3,4 of A*Pc and form one relaxed
 *   supernode with 3 columns but only 1 row.  Property: return normally with
 *   info = 4 (the first 4 columns of A*Pc have structural rank 3), B / X
 *   untouched, everything safe to destroy.  Observed: info = 4 is returned,
 *   but the heap has been corrupted during the factorization and the process
 *   aborts in free() when the results are destroyed ("free(): invalid size" /
 *   "munmap_chunk(): invalid pointer", all thread counts, both drivers).
 *   valgrind (case 1, nprocs 1, pdgssv): uninitialised indices used in
 *   pdgstrf_bmod1D (pdgstrf_bmod1D.c:160,183) and pdgstrf_copy_to_ucol
 *   (:87,88) - the row list of the short supernode is read past its end -
 *   then "Invalid write of size 8 ... 0 bytes after a block of size 216" in
 *   pdgstrf_column_bmod (pdgstrf_column_bmod.c:278), the block being lusup
 *   from pdgstrf_MemInit/pdgstrf_expand.
 *        ...x....x...
 *        ....x.......
 *        .....xx.....
 *        ...x.......x
 *        ....x....x..
 *        .....x......
 *        ......x.x...
 *        .....xxx....
 *        ........x.x.
 *        ....x....x.x
 *        ...x...x..x.
 *        xxx....x..xx
 *
 * Case 2 (12x12, nnz 32): columns 3,4,5 each hold exactly the entries
 *   (10,j),(11,j): three columns spanned by two rows, so the first 6 columns
 *   of A*Pc have structural rank 5 and the property promises info = 6 "for
 *   generic values".  Columns 0..2 also have entries in rows 7/9/10, partial
 *   pivoting takes row 10 for column 0, the fill makes the candidates of
 *   column 5 cancel only up to rounding, and the zero pivot is detected later.
 *        x.......x...
 *        .x..........
 *        ..x...x.....
 *        ...........x
 *        .........x..
 *        ..x.........
 *        ......x.x...
 *        xxx...xx....
 *        ........x.x.
 *        .x.......x.x
 *        x..xxx.x..x.
 *        ...xxx.x..xx
 */
#include <stdio.h>
#include <stdlib.h>
#include <string.h>
#include <unistd.h>
#include <sys/wait.h>
#include "slu_mt_ddefs.h"

#define N 12
#define NRHS 2

static const int xa1[N + 1] = {0,1,2,3,6,9,12,15,18,21,23,26,29};
static const int as1[29] = {11,11,11,0,3,10,1,4,9,2,5,7,2,6,7,7,10,11,0,6,8,4,9,8,10,11,3,9,11};
static const double a1[29] = {
 1.2843530591775325,1.0315947843530591,1.3645937813440321,0.62337011033099299,
 0.56720160481444337,0.63540621865596791,1.4317953861584756,1.3044132397191575,
 0.5220661985957874,0.55817452357071218,0.56920762286860582,0.66750250752256768,
 0.89418254764292882,0.95737211634904718,0.51103309929789364,0.54212637913741224,
 0.72968906720160476,0.87412236710130387,0.92226680040120357,1.421765295887663,
 1.2863590772316951,1.0386158475426279,0.69859578736208627,0.82497492477432299,
 0.8159478435305918,0.87111334002006013,0.91424272818455365,1.0275827482447342,
 0.59127382146439322};

static const int xa2[N + 1] = {0,3,6,9,11,13,15,18,21,24,26,29,32};
static const int as2[32] = {0,7,10,1,7,9,2,5,7,10,11,10,11,10,11,2,6,7,7,10,11,0,6,8,4,9,8,10,11,3,9,11};
static const double a2[32] = {
 1.2843530591775325,1.0315947843530591,1.3645937813440321,0.62337011033099299,
 0.56720160481444337,0.63540621865596791,1.4317953861584756,1.3044132397191575,
 0.5220661985957874,0.55817452357071218,0.56920762286860582,0.66750250752256768,
 0.89418254764292882,0.95737211634904718,0.51103309929789364,0.54212637913741224,
 0.72968906720160476,0.87412236710130387,0.92226680040120357,1.421765295887663,
 1.2863590772316951,1.0386158475426279,0.69859578736208627,0.82497492477432299,
 0.8159478435305918,0.87111334002006013,0.91424272818455365,1.0275827482447342,
 0.59127382146439322,1.4829488465396188,1.4588766298896689,1.3756268806419256};

/* smallest k such that the first k columns of A*Pc have structural rank < k
   (bipartite matching, one column at a time); Pc as returned by the driver */
static const int *mxa, *mas; static int matchr[N], seen[N], inv[N];
static int augment(int k)
{
    int j = inv[k];
    for (int p = mxa[j]; p < mxa[j + 1]; ++p) {
        int r = mas[p];
        if (seen[r]) continue;
        seen[r] = 1;
        if (matchr[r] < 0 || augment(matchr[r])) { matchr[r] = k; return 1; }
    }
    return 0;
}
static int first_deficient(const int *xa, const int *as, const int_t *perm_c)
{
    mxa = xa; mas = as;
    for (int j = 0; j < N; ++j) { inv[perm_c[j]] = j; matchr[j] = -1; }
    for (int k = 0; k < N; ++k) {
        memset(seen, 0, sizeof seen);
        if (!augment(k)) return k + 1;
    }
    return 0;
}

/* returns 0 when the property holds for this run */
static int run(int which, int nprocs, int expert)
{
    const int *xa0 = which == 1 ? xa1 : xa2, *as0 = which == 1 ? as1 : as2;
    const double *a0 = which == 1 ? a1 : a2;
    int nnz = xa0[N], expect, bad = 0;
    SuperMatrix A, L, U, B, X;
    int_t info = -12345;
    double *a = doubleMalloc(nnz);
    int_t *asub = intMalloc(nnz), *xa = intMalloc(N + 1);
    for (int i = 0; i < nnz; ++i) { a[i] = a0[i]; asub[i] = as0[i]; }
    for (int i = 0; i <= N; ++i) xa[i] = xa0[i];
    dCreate_CompCol_Matrix(&A, N, N, nnz, a, asub, xa, SLU_NC, SLU_D, SLU_GE);
    double *b = doubleMalloc(N * NRHS), *b0 = doubleMalloc(N * NRHS), *x = doubleMalloc(N * NRHS);
    for (int i = 0; i < N * NRHS; ++i) { b[i] = b0[i] = 1.0 + i; x[i] = -777.0; }
    dCreate_Dense_Matrix(&B, N, NRHS, b, N, SLU_DN, SLU_D, SLU_GE);
    dCreate_Dense_Matrix(&X, N, NRHS, x, N, SLU_DN, SLU_D, SLU_GE);
    int_t *perm_r = intMalloc(N), *perm_c = intMalloc(N);
    for (int i = 0; i < N; ++i) { perm_c[i] = i; perm_r[i] = -5; }

    if (!expert) {
        pdgssv(nprocs, &A, perm_c, perm_r, &L, &U, &B, &info);
    } else {
        superlumt_options_t o;
        equed_t equed = NOEQUIL;
        double *R = doubleMalloc(N), *C = doubleMalloc(N), ferr[NRHS], berr[NRHS], rpg, rcond;
        superlu_memusage_t mu;
        memset(&o, 0, sizeof o);
        o.nprocs = nprocs; o.fact = DOFACT; o.trans = NOTRANS; o.refact = NO;
        o.panel_size = 8; o.relax = 6; o.usepr = NO; o.drop_tol = 0.0;
        o.diag_pivot_thresh = 1.0; o.SymmetricMode = NO; o.PrintStat = NO;
        o.perm_c = perm_c; o.perm_r = perm_r; o.work = NULL; o.lwork = 0;
        o.etree = intMalloc(N); o.colcnt_h = intMalloc(N); o.part_super_h = intMalloc(N);
        pdgssvx(nprocs, &o, &A, perm_c, perm_r, &equed, R, C, &L, &U, &B, &X,
                &rpg, &rcond, ferr, berr, &mu, &info);
        for (int i = 0; i < N * NRHS; ++i) if (x[i] != -777.0) bad |= 4;
        SUPERLU_FREE(R); SUPERLU_FREE(C);
        SUPERLU_FREE(o.etree); SUPERLU_FREE(o.colcnt_h); SUPERLU_FREE(o.part_super_h);
    }
    expect = first_deficient(xa0, as0, perm_c);
    if (info != expect) bad |= 1;
    for (int i = 0; i < N * NRHS; ++i) if (b[i] != b0[i]) bad |= 2;
    fprintf(stderr, "  case %d %s nprocs=%d: info=%d (property: %d)%s%s  perm_c =", which,
            expert ? "pdgssvx" : "pdgssv ", nprocs, (int) info, expect,
            (bad & 2) ? " B MODIFIED" : "", (bad & 4) ? " X MODIFIED" : "");
    for (int i = 0; i < N; ++i) fprintf(stderr, " %d", (int) perm_c[i]);
    fprintf(stderr, "\n");
    if (info >= 0 && info <= N) { Destroy_SuperNode_SCP(&L); Destroy_CompCol_NCP(&U); }
    Destroy_CompCol_Matrix(&A);
    Destroy_SuperMatrix_Store(&B); Destroy_SuperMatrix_Store(&X);
    SUPERLU_FREE(b); SUPERLU_FREE(b0); SUPERLU_FREE(x);
    SUPERLU_FREE(perm_r); SUPERLU_FREE(perm_c);
    return bad;
}

int main(int argc, char **argv)
{
    if (argc == 4)      /* a single configuration, in this process */
        return run(atoi(argv[1]), atoi(argv[2]), atoi(argv[3])) != 0;

    int viol = 0;
    for (int which = 1; which <= 2; ++which)
        for (int expert = 0; expert < 2; ++expert)
            for (int nprocs = 1; nprocs <= 4; nprocs *= 2) {
                fflush(stdout); fflush(stderr);
                pid_t pid = fork();
                if (pid == 0) {
                    if (!freopen("/dev/null", "w", stdout)) _exit(3); /* driver statistics */
                    _exit(run(which, nprocs, expert) ? 1 : 0);
                }
                int st = 0;
                waitpid(pid, &st, 0);
                if (WIFSIGNALED(st)) {
                    ++viol;
                    fprintf(stderr, "  case %d %s nprocs=%d: KILLED BY SIGNAL %d\n", which,
                            expert ? "pdgssvx" : "pdgssv ", nprocs, WTERMSIG(st));
                } else if (WEXITSTATUS(st)) ++viol;
            }
    printf("%d of 12 runs violate the property\n", viol);
    return viol != 0;
}
