/* Replay for the defect repaired by "fix: cholnzcnt starts a new supernode at a vertex without children".
 *
 * 5x5 diagonally dominant matrix whose graph A'+A has two isolated vertices.  In symmetric mode sp_colorder()
 * calls cholnzcnt(), which recorded part_super_h = 2 0 1 1 1: columns 0 and 1 of A*Pc in one supernode although
 * etree[0] = 5 (a root), i.e. column 1 is not the parent of column 0.  ?PresetMap() then steps over the relaxed
 * supernode that starts at column 1, reserves 7 values for lusup[] where the factorization stores 11, and
 * pdgstrf() writes past the end of lusup[] (valgrind: invalid write in pdgstrf_snode_bmod; glibc: "free(): invalid pointer").
 *
 * build: gcc -I /repo/SRC cholnzcnt-isolated-vertex.c /repo/_build/SRC/libsuperlu_mt_PTHREAD.a -lopenblas -lpthread -lm
 * exit 1 = part_super_h is not a partition of the columns into chains of the elimination tree (the defect), 0 = it is.
 */
#include "slu_mt_ddefs.h"
int main(void)
{
    int_t n = 5, colptr[] = {0,1,2,4,5,7}, rowind[] = {0,1,0,2,3,2,4};
    double val[] = {45.73,52,-11.73,46.252,44,-15.252,47};
    SuperMatrix A, AC; superlumt_options_t opt; int_t perm_c[5], j, k, tot = 0, bad = 0;
    dCreate_CompCol_Matrix(&A, n, n, 7, val, rowind, colptr, SLU_NC, SLU_D, SLU_GE);
    get_perm_c(2, &A, perm_c);
    memset(&opt, 0, sizeof opt);
    opt.nprocs = 1; opt.fact = DOFACT; opt.refact = NO; opt.panel_size = 4; opt.relax = 3; opt.SymmetricMode = YES; opt.perm_c = perm_c;
    opt.etree = intMalloc(n); opt.colcnt_h = intMalloc(n); opt.part_super_h = intMalloc(n);
    sp_colorder(&A, perm_c, &opt, &AC);
    printf("etree       :"); for (j = 0; j < n; ++j) printf(" %d", (int) opt.etree[j]); printf("\n");
    printf("part_super_h:"); for (j = 0; j < n; ++j) printf(" %d", (int) opt.part_super_h[j]); printf("\n");
    for (j = 0; j < n; ) {
	int_t w = opt.part_super_h[j];
	if ( w <= 0 ) { bad = 1; break; }
	for (k = j; k < j + w - 1; ++k) if ( opt.etree[k] != k + 1 ) bad = 1;   /* a supernode is a chain of the etree */
	tot += w; j += w;
    }
    if ( tot != n ) bad = 1;
    printf(bad ? "DEFECT: a supernode of the partition is not a chain of the elimination tree\n" : "ok\n");
    return bad;
}
