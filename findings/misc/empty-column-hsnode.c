/* Replay for the defect repaired by "fix: qrnzcnt starts a new supernode of H at a column without children (an empty column)".
 * 5x5 pattern with an empty row and (after the postorder) an empty column that follows a root of the column etree:
 *      . . . . .
 *      . . . x .
 *      x . . . x
 *      . x . . .
 *      . . . . x
 * qrnzcnt recorded part_super_h = 2 0 1 1 1 (columns 0,1 of A*Pc in one H-supernode although neither is the other's child); ?PresetMap then stepped over
 * the relaxed supernode starting at column 1, sized the later relaxed supernode [3,4] by column counts (2 values instead of 4) and p?gstrf wrote past lusup[]:
 * "free(): invalid pointer" / SIGSEGV instead of the documented 0 < info <= n.  A fuzz of 1000 rank-deficient patterns (n <= 30): 12 crashes + 1 wrong
 * report before, 0 of 3000 after.
 * build: gcc -I /repo/SRC empty-column-hsnode.c /repo/_build/SRC/libsuperlu_mt_PTHREAD.a -lopenblas -lpthread -lm
 * exit 0 = returns with 0 < info <= n and B untouched; run under valgrind to see the overflow on the unrepaired tree. */
#include <stdio.h>
#include <stdlib.h>
#include "slu_mt_ddefs.h"
int main(void)
{
    const char *rows[5] = {".....", "...x.", "x...x", ".x...", "....x"};
    int n = 5, i, j, nnz = 0; double a[25]; int_t asub[25], xa[6];
    for (j = 0; j < n; j++) { xa[j] = nnz; for (i = 0; i < n; i++) if (rows[i][j] == 'x') { a[nnz] = 1.0 + ((i*7+j*13)%11)/7.0; asub[nnz++] = i; } } xa[n] = nnz;
    SuperMatrix A, L, U, B; int_t perm_r[5], perm_c[5] = {0,1,2,3,4}, info = -99; double b[5] = {1,1,1,1,1};
    dCreate_CompCol_Matrix(&A, n, n, nnz, a, asub, xa, SLU_NC, SLU_D, SLU_GE);
    dCreate_Dense_Matrix(&B, n, 1, b, n, SLU_DN, SLU_D, SLU_GE);
    pdgssv(1, &A, perm_c, perm_r, &L, &U, &B, &info);
    printf("info = %d\n", (int) info);
    for (i = 0; i < n; ++i) if (b[i] != 1.0) { printf("B was modified\n"); return 1; }
    return !(info > 0 && info <= n);
}
