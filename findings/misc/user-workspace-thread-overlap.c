#include <stdio.h>
#include <stdlib.h>
#include <math.h>
#include "slu_mt_ddefs.h"
/* user work space + several threads: per-thread work arrays must not overlap */
int main(int argc,char**argv){ int P=argc>1?atoi(argv[1]):8, reps=argc>2?atoi(argv[2]):60; int bad=0;
 fclose(stdout); freopen("/dev/null","w",stdout);
 for(int rep=0;rep<reps;rep++){
 int n=600,nnz=0; double*a=malloc(n*12*8); int_t*asub=malloc(n*12*sizeof(int_t)),*xa=malloc((n+1)*sizeof(int_t));
 for(int j=0;j<n;j++){xa[j]=nnz; for(int d=-2;d<=2;d++){int i=j+d*((j%7)+1); if(i>=0&&i<n){a[nnz]=(i==j)?40:1.0+0.01*d;asub[nnz++]=i;}}} xa[n]=nnz;
 double*a0=malloc(nnz*8); for(int k=0;k<nnz;k++)a0[k]=a[k];
 SuperMatrix A,L,U,B,X; dCreate_CompCol_Matrix(&A,n,n,nnz,a,asub,xa,SLU_NC,SLU_D,SLU_GE);
 double*b=malloc(n*8),*x=calloc(n,8),*b0=malloc(n*8); for(int i=0;i<n;i++){b[i]=1+i%3;b0[i]=b[i];} dCreate_Dense_Matrix(&B,n,1,b,n,SLU_DN,SLU_D,SLU_GE); dCreate_Dense_Matrix(&X,n,1,x,n,SLU_DN,SLU_D,SLU_GE);
 int_t*perm_r=intMalloc(n),*perm_c=intMalloc(n),info; get_perm_c(1,&A,perm_c);
 superlumt_options_t o; superlu_memusage_t mu; double*R=calloc(n,8),*C=calloc(n,8),ferr[1],berr[1],rpg,rcond; equed_t equed=NOEQUIL;
 size_t lw=40u*1000*1000; void*work=malloc(lw);
 o.nprocs=P;o.fact=DOFACT;o.trans=NOTRANS;o.refact=NO;o.panel_size=sp_ienv(1);o.relax=sp_ienv(2);o.diag_pivot_thresh=1.0;o.usepr=NO;o.drop_tol=0;o.SymmetricMode=NO;o.PrintStat=NO;o.perm_c=perm_c;o.perm_r=perm_r;o.work=work;o.lwork=lw;
 o.etree=intMalloc(n);o.colcnt_h=intMalloc(n);o.part_super_h=intMalloc(n);
 pdgssvx(P,&o,&A,perm_c,perm_r,&equed,R,C,&L,&U,&B,&X,&rpg,&rcond,ferr,berr,&mu,&info);
 double rmax=0; for(int i=0;i<n;i++){} double*r=malloc(n*8); for(int i=0;i<n;i++)r[i]=b0[i]; for(int j=0;j<n;j++)for(int k=xa[j];k<xa[j+1];k++)r[asub[k]]-=a0[k]*x[j]; for(int i=0;i<n;i++) if(!(fabs(r[i])<=rmax)) rmax=fabs(r[i]);
 if(info!=0 || !(rmax<1e-8)){ bad++; if(bad<5) fprintf(stderr,"rep %d: info=%d residual=%g\n",rep,(int)info,rmax);} 
 free(work); }
 fprintf(stderr,"P=%d: %d of %d factorizations in a user work space wrong (info != 0 or residual)\n",P,bad,reps); return bad!=0; }
