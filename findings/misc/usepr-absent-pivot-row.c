/* Replay for the defect repaired by "fix: p?gstrf_pivotL falls back to threshold pivoting when the caller's pivot row (usepr) is not a candidate of the column".
 * build: gcc -I /repo/SRC usepr-absent-pivot-row.c /repo/_build/SRC/libsuperlu_mt_PTHREAD.a -lopenblas -lpthread -lm ; exit 1 = info 0 with a wrong solution. */
#include "slu_mt_ddefs.h"
/* usepr = YES with a caller-supplied perm_r whose pivot row for column 0 is not in the structure of that column */
int main(void)
{
    int_t n = 2, colptr[] = {0,1,3}, rowind[] = {0, 0,1};
    double val[] = {4.0, 1.0,3.0}, rhs[] = {5.0, 3.0};          /* A = [4 1; 0 3], x = (1,1) */
    SuperMatrix A, AC, L, U, B; superlumt_options_t opt; Gstat_t Gstat;
    int_t perm_c[] = {0,1}, perm_r[] = {1,0}, info = 0, i;
    dCreate_CompCol_Matrix(&A, n, n, 3, val, rowind, colptr, SLU_NC, SLU_D, SLU_GE);
    dCreate_Dense_Matrix(&B, n, 1, rhs, n, SLU_DN, SLU_D, SLU_GE);
    memset(&opt, 0, sizeof opt);
    opt.nprocs = 1; opt.fact = DOFACT; opt.trans = NOTRANS; opt.refact = NO; opt.panel_size = 1; opt.relax = 1;
    opt.diag_pivot_thresh = 1.0; opt.usepr = YES; opt.SymmetricMode = NO; opt.perm_c = perm_c; opt.perm_r = perm_r; opt.lwork = 0;
    opt.etree = intMalloc(n); opt.colcnt_h = intMalloc(n); opt.part_super_h = intMalloc(n);
    StatAlloc(n, 1, 1, 1, &Gstat); StatInit(n, 1, &Gstat);
    sp_colorder(&A, perm_c, &opt, &AC);
    pdgstrf(&opt, &AC, perm_r, &L, &U, &Gstat, &info);
    printf("info=%d perm_r: %d %d\n", (int) info, (int) perm_r[0], (int) perm_r[1]);
    if (info == 0) { dgstrs(NOTRANS, &L, &U, perm_r, perm_c, &B, &Gstat, &info);
       printf("x = %g %g (expected 1 1)\n", rhs[0], rhs[1]); }
    int bij = (perm_r[0] != perm_r[1]) && perm_r[0] >= 0 && perm_r[0] < n && perm_r[1] >= 0 && perm_r[1] < n;
    int okx = fabs(rhs[0]-1) < 1e-12 && fabs(rhs[1]-1) < 1e-12;
    printf("%s\n", (info==0 && bij && okx) ? "ok" : (info ? "reported failure" : "DEFECT: info = 0 with a wrong solution / perm_r"));
    return !(info != 0 || (bij && okx));
}
