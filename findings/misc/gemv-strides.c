/* Replay / test for the repaired defect "sp_?gemv aborts (\"Not implemented.\") for trans = N with incy != 1 and trans = T with incx != 1":
 * y := alpha*op(A)*x + beta*y for every combination of incx, incy in {1, 2, -1, -3}, op in {N, T}, four precisions, against a dense reference.
 * exit 0 = all agree; before the fix the process exits through SUPERLU_ABORT.
 * build: gcc -I /repo/SRC gemv-strides.c /repo/_build/SRC/libsuperlu_mt_PTHREAD.a -lopenblas -lpthread -lm */
#include <stdio.h>
#include <stdlib.h>
#include <math.h>
#include "slu_mt_ddefs.h"
typedef struct { double r, i; } zz; typedef struct { float r, i; } cc;
extern int_t sp_sgemv(char *, float, SuperMatrix *, float *, int_t, float, float *, int_t);
extern int_t sp_cgemv(char *, cc, SuperMatrix *, cc *, int_t, cc, cc *, int_t);
extern int_t sp_zgemv(char *, zz, SuperMatrix *, zz *, int_t, zz, zz *, int_t);
extern void sCreate_CompCol_Matrix(), cCreate_CompCol_Matrix(), zCreate_CompCol_Matrix();
#define M 4
#define N 3
int main(void)
{
    int_t colptr[] = {0,2,4,7}, rowind[] = {0,3, 1,2, 0,1,3};
    double av[7] = {2,-1, 3,4, -5,6,7};
    double dense[M][N] = {{0}}; int incs[] = {1, 2, -1, -3}, a, b, t, i, j, k, bad = 0;
    for (j = 0; j < N; ++j) for (k = colptr[j]; k < colptr[j+1]; ++k) dense[rowind[k]][j] = av[k];
    for (t = 0; t < 2; ++t) for (a = 0; a < 4; ++a) for (b = 0; b < 4; ++b) {
	int incx = incs[a], incy = incs[b], lenx = t ? M : N, leny = t ? N : M;
	double xr[M], yr[M], ref[M]; 
	for (i = 0; i < lenx; ++i) xr[i] = 1.0 + i; for (i = 0; i < leny; ++i) yr[i] = 0.5 * (i + 1);
	for (i = 0; i < leny; ++i) { double s = 0; for (j = 0; j < lenx; ++j) s += (t ? dense[j][i] : dense[i][j]) * xr[j]; ref[i] = 2.0 * s + 3.0 * yr[i]; }
#define XI(i) ((incx > 0 ? 0 : -(lenx-1)*incx) + (i)*incx)
#define YI(i) ((incy > 0 ? 0 : -(leny-1)*incy) + (i)*incy)
	{ double x[16] = {0}, y[16] = {0}; SuperMatrix A; dCreate_CompCol_Matrix(&A, M, N, 7, av, rowind, colptr, SLU_NC, SLU_D, SLU_GE);
	  for (i = 0; i < lenx; ++i) x[XI(i)] = xr[i]; for (i = 0; i < leny; ++i) y[YI(i)] = yr[i];
	  sp_dgemv(t ? "T" : "N", 2.0, &A, x, incx, 3.0, y, incy);
	  for (i = 0; i < leny; ++i) if (fabs(y[YI(i)] - ref[i]) > 1e-12) { printf("d %s incx %d incy %d: y[%d] = %g, expected %g\n", t?"T":"N", incx, incy, i, y[YI(i)], ref[i]); bad = 1; } }
	{ float x[16] = {0}, y[16] = {0}, fv[7]; SuperMatrix A; for (k = 0; k < 7; ++k) fv[k] = av[k]; sCreate_CompCol_Matrix(&A, M, N, 7, fv, rowind, colptr, SLU_NC, SLU_S, SLU_GE);
	  for (i = 0; i < lenx; ++i) x[XI(i)] = xr[i]; for (i = 0; i < leny; ++i) y[YI(i)] = yr[i];
	  sp_sgemv(t ? "T" : "N", 2.0f, &A, x, incx, 3.0f, y, incy);
	  for (i = 0; i < leny; ++i) if (fabs(y[YI(i)] - ref[i]) > 1e-4) { printf("s %s incx %d incy %d: y[%d] = %g, expected %g\n", t?"T":"N", incx, incy, i, y[YI(i)], ref[i]); bad = 1; } }
	{ zz x[16] = {{0}}, y[16] = {{0}}, zv[7], al = {2,0}, be = {3,0}; SuperMatrix A; for (k = 0; k < 7; ++k) { zv[k].r = av[k]; zv[k].i = 0; } zCreate_CompCol_Matrix(&A, M, N, 7, zv, rowind, colptr, SLU_NC, SLU_Z, SLU_GE);
	  for (i = 0; i < lenx; ++i) { x[XI(i)].r = xr[i]; x[XI(i)].i = -xr[i]; } for (i = 0; i < leny; ++i) { y[YI(i)].r = yr[i]; y[YI(i)].i = 2*yr[i]; }
	  sp_zgemv(t ? "T" : "N", al, &A, x, incx, be, y, incy);
	  for (i = 0; i < leny; ++i) { double er = ref[i], ei = -(ref[i] - 3.0*yr[i]) + 3.0*2*yr[i]; if (fabs(y[YI(i)].r - er) > 1e-12 || fabs(y[YI(i)].i - ei) > 1e-12) { printf("z %s incx %d incy %d: y[%d] = (%g,%g), expected (%g,%g)\n", t?"T":"N", incx, incy, i, y[YI(i)].r, y[YI(i)].i, er, ei); bad = 1; } } }
	{ cc x[16] = {{0}}, y[16] = {{0}}, cv[7], al = {2,0}, be = {3,0}; SuperMatrix A; for (k = 0; k < 7; ++k) { cv[k].r = av[k]; cv[k].i = 0; } cCreate_CompCol_Matrix(&A, M, N, 7, cv, rowind, colptr, SLU_NC, SLU_C, SLU_GE);
	  for (i = 0; i < lenx; ++i) { x[XI(i)].r = xr[i]; x[XI(i)].i = -xr[i]; } for (i = 0; i < leny; ++i) { y[YI(i)].r = yr[i]; y[YI(i)].i = 2*yr[i]; }
	  sp_cgemv(t ? "T" : "N", al, &A, x, incx, be, y, incy);
	  for (i = 0; i < leny; ++i) { double er = ref[i], ei = -(ref[i] - 3.0*yr[i]) + 3.0*2*yr[i]; if (fabs(y[YI(i)].r - er) > 1e-4 || fabs(y[YI(i)].i - ei) > 1e-4) { printf("c %s incx %d incy %d: y[%d] = (%g,%g), expected (%g,%g)\n", t?"T":"N", incx, incy, i, y[YI(i)].r, y[YI(i)].i, er, ei); bad = 1; } } }
    }
    printf(bad ? "WRONG\n" : "ok: 2 x 16 stride combinations x 4 precisions\n");
    return bad;
}
