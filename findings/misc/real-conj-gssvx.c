#include <stdio.h>
#include <stdlib.h>
#include <math.h>
#include "slu_mt_ddefs.h"
int main(){ int n=5,nnz=0; double a[25]; int_t asub[25],xa[6];
 for(int j=0;j<n;j++){xa[j]=nnz; for(int i=0;i<n;i++) if(i==j||i==(j+1)%n||(i+2)%n==j){a[nnz]=(i==j)?5+j:1.0+0.3*i-0.2*j;asub[nnz++]=i;}} xa[n]=nnz;
 double a0[25]; for(int k=0;k<nnz;k++)a0[k]=a[k];
 SuperMatrix A,L,U,B,X; dCreate_CompCol_Matrix(&A,n,n,nnz,a,asub,xa,SLU_NC,SLU_D,SLU_GE);
 double b[5]={1,2,3,4,5},b0[5],x[5]; for(int i=0;i<n;i++)b0[i]=b[i];
 dCreate_Dense_Matrix(&B,n,1,b,n,SLU_DN,SLU_D,SLU_GE); dCreate_Dense_Matrix(&X,n,1,x,n,SLU_DN,SLU_D,SLU_GE);
 int_t perm_r[5],perm_c[5]={0,1,2,3,4},info; superlumt_options_t o; superlu_memusage_t mu; double R[5],C[5],ferr[1],berr[1],rpg,rcond; equed_t equed=NOEQUIL;
 o.nprocs=2;o.fact=DOFACT;o.trans=CONJ;o.refact=NO;o.panel_size=sp_ienv(1);o.relax=sp_ienv(2);o.diag_pivot_thresh=1.0;o.usepr=NO;o.drop_tol=0;o.SymmetricMode=NO;o.PrintStat=NO;o.perm_c=perm_c;o.perm_r=perm_r;o.work=0;o.lwork=0;
 o.etree=intMalloc(n);o.colcnt_h=intMalloc(n);o.part_super_h=intMalloc(n);
 pdgssvx(2,&o,&A,perm_c,perm_r,&equed,R,C,&L,&U,&B,&X,&rpg,&rcond,ferr,berr,&mu,&info);
 /* residual of A^T x = b */
 double rmax=0; for(int j=0;j<n;j++){double s=b0[j]; for(int k=xa[j];k<xa[j+1];k++) s-=a0[k]*x[asub[k]]; if(fabs(s)>rmax)rmax=fabs(s);} 
 printf("trans=CONJ (real): info=%d  max|b - A'x| = %g\n",(int)info,rmax); return !(info==0&&rmax<1e-10);}
