#include <stdio.h>
#include <stdlib.h>
#include "slu_mt_ddefs.h"
/* structurally empty row => some column has no candidate pivot row left */
int main(int argc,char**argv){
  int n=argc>1?atoi(argv[1]):6, P=argc>2?atoi(argv[2]):1;
  /* dense upper part but rows n-2.. empty: A(i,j)=1 for i<=j and i<n-2 ; last two rows empty */
  int cap=n*n,nnz=0; double*a=malloc(cap*sizeof(double)); int_t*asub=malloc(cap*sizeof(int_t)),*xa=malloc((n+1)*sizeof(int_t));
  for(int j=0;j<n;j++){xa[j]=nnz; for(int i=0;i<n-2;i++) if(i<=j){a[nnz]=1.0+i+j;asub[nnz++]=i;}} xa[n]=nnz;
  SuperMatrix A,L,U,B; dCreate_CompCol_Matrix(&A,n,n,nnz,a,asub,xa,SLU_NC,SLU_D,SLU_GE);
  double*rhs=malloc(n*sizeof(double)); for(int i=0;i<n;i++)rhs[i]=1; dCreate_Dense_Matrix(&B,n,1,rhs,n,SLU_DN,SLU_D,SLU_GE);
  int_t*perm_r=malloc(n*sizeof(int_t)),*perm_c=malloc(n*sizeof(int_t)),info; for(int i=0;i<n;i++){perm_c[i]=i;perm_r[i]=-7;}
  pdgssv(P,&A,perm_c,perm_r,&L,&U,&B,&info);
  printf("info=%d perm_r:",(int)info); for(int i=0;i<n;i++)printf(" %d",(int)perm_r[i]); printf("\n");
  int bad=0; for(int i=0;i<n;i++) if(perm_r[i]<-7||perm_r[i]>=n) bad=1;
  return bad;
}
