#include <stdio.h>
#include <stdlib.h>
#include "slu_mt_ddefs.h"
int main(){ int n=30,nnz=0; double*a=malloc(n*n*8); int_t*asub=malloc(n*n*sizeof(int_t)),*xa=malloc((n+1)*sizeof(int_t));
 for(int j=0;j<n;j++){xa[j]=nnz; for(int i=0;i<n;i++) if(i==j||(i+j)%5==0){a[nnz]=(i==j)?50:1.0;asub[nnz++]=i;}} xa[n]=nnz;
 SuperMatrix A,L,U,B,X; dCreate_CompCol_Matrix(&A,n,n,nnz,a,asub,xa,SLU_NC,SLU_D,SLU_GE);
 double*b=calloc(n,8),*x=calloc(n,8); for(int i=0;i<n;i++)b[i]=1; dCreate_Dense_Matrix(&B,n,1,b,n,SLU_DN,SLU_D,SLU_GE); dCreate_Dense_Matrix(&X,n,1,x,n,SLU_DN,SLU_D,SLU_GE);
 int_t*perm_r=intMalloc(n),*perm_c=intMalloc(n),info; for(int i=0;i<n;i++)perm_c[i]=i;
 superlumt_options_t o; superlu_memusage_t mu; double*R=calloc(n,8),*C=calloc(n,8),ferr[1],berr[1],rpg,rcond; equed_t equed=NOEQUIL;
 o.nprocs=1;o.fact=DOFACT;o.trans=NOTRANS;o.refact=NO;o.panel_size=sp_ienv(1);o.relax=sp_ienv(2);o.diag_pivot_thresh=1.0;o.usepr=NO;o.drop_tol=0;o.SymmetricMode=NO;o.PrintStat=NO;o.perm_c=perm_c;o.perm_r=perm_r;o.work=0;o.lwork=0;
 o.etree=intMalloc(n);o.colcnt_h=intMalloc(n);o.part_super_h=intMalloc(n);
 pdgssvx(1,&o,&A,perm_c,perm_r,&equed,R,C,&L,&U,&B,&X,&rpg,&rcond,ferr,berr,&mu,&info); int e0=mu.expansions;
 o.fact=FACTORED; int e[3]; for(int k=0;k<3;k++){ pdgssvx(1,&o,&A,perm_c,perm_r,&equed,R,C,&L,&U,&B,&X,&rpg,&rcond,ferr,berr,&mu,&info); e[k]=mu.expansions; }
 fprintf(stderr,"expansions reported: factor %d ; three solve-only calls %d %d %d\n",e0,e[0],e[1],e[2]); return !(e[0]==e0&&e[1]==e0&&e[2]==e0);}
