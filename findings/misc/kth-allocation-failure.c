#include <stdio.h>
#include <stdlib.h>
#include <string.h>
#include <unistd.h>
#include <sys/wait.h>
#include "slu_mt_ddefs.h"
void *__real_malloc(size_t); 
static long count=0, failfrom=-1;
void *__wrap_malloc(size_t n){ count++; if(failfrom>=0 && count>=failfrom) return NULL; return __real_malloc(n);}
static int run(int nr,long k,long *total){
 int n=30,nnz=0; double*a=__real_malloc(n*n*8); int_t*asub=__real_malloc(n*n*sizeof(int_t)),*xa=__real_malloc((n+1)*sizeof(int_t));
 for(int j=0;j<n;j++){xa[j]=nnz; for(int i=0;i<n;i++) if(i==j||(i+j)%5==0){a[nnz]=(i==j)?50:1.0;asub[nnz++]=i;}} xa[n]=nnz;
 SuperMatrix A,L,U,B,X; 
 NCformat as; as.nnz=nnz; as.nzval=a; as.rowind=asub; as.colptr=xa; A.Stype=nr?SLU_NR:SLU_NC;A.Dtype=SLU_D;A.Mtype=SLU_GE;A.nrow=A.ncol=n;A.Store=&as;
 double*b=__real_malloc(n*8),*x=__real_malloc(n*8); for(int i=0;i<n;i++)b[i]=1; DNformat bs={n,b},xs={n,x};
 B.Stype=SLU_DN;B.Dtype=SLU_D;B.Mtype=SLU_GE;B.nrow=n;B.ncol=1;B.Store=&bs; X=B; X.Store=&xs;
 static int_t perm_r[30],perm_c[30],et[30],cc[30],ps[30]; int_t info=0; for(int i=0;i<n;i++)perm_c[i]=i;
 superlumt_options_t o; superlu_memusage_t mu; static double R[30],C[30]; double ferr[1],berr[1],rpg,rcond; equed_t equed=NOEQUIL;
 o.nprocs=2;o.fact=DOFACT;o.trans=NOTRANS;o.refact=NO;o.panel_size=sp_ienv(1);o.relax=sp_ienv(2);o.diag_pivot_thresh=1.0;o.usepr=NO;o.drop_tol=0;o.SymmetricMode=NO;o.PrintStat=NO;o.perm_c=perm_c;o.perm_r=perm_r;o.work=0;o.lwork=0;
 o.etree=et;o.colcnt_h=cc;o.part_super_h=ps;
 count=0; failfrom=k;
 pdgssvx(2,&o,&A,perm_c,perm_r,&equed,R,C,&L,&U,&B,&X,&rpg,&rcond,ferr,berr,&mu,&info);
 failfrom=-1; if(total)*total=count;
 return (int)info; }
int main(int argc,char**argv){ int nr=argc>1&&atoi(argv[1]); long K=0; 
 fclose(stdout); freopen("/dev/null","w",stdout);
 pid_t p=fork(); int pfd[2]; 
 if(p==0){ long t; run(nr,-1,&t); FILE*f=fopen("/tmp/replay/fk.count","w"); fprintf(f,"%ld",t); fclose(f); _exit(0);} waitpid(p,0,0);
 FILE*f=fopen("/tmp/replay/fk.count","r"); fscanf(f,"%ld",&K); fclose(f);
 int seg=0,ok=0,silent=0; char bad[4000]=""; 
 for(long k=1;k<=K;k++){ p=fork(); if(p==0){ freopen("/dev/null","w",stderr); int info=run(nr,k,0); _exit(info>30?10:(info==0?20:11)); }
   int st; waitpid(p,&st,0);
   if(WIFSIGNALED(st)){seg++; char t[32]; sprintf(t," %ld(sig%d)",k,WTERMSIG(st)); if(strlen(bad)<3900)strcat(bad,t);}
   else if(WEXITSTATUS(st)==20){silent++; char t[32]; sprintf(t," %ld(info=0)",k); if(strlen(bad)<3900)strcat(bad,t);} else ok++; }
 fprintf(stderr,"K=%ld requests; failing request k and all later ones: handled (info>n or abort diagnostic) %d, crashed %d, returned info=0 %d\n bad k:%s\n",K,ok,seg,silent,bad);
 return seg||silent; }
