/* Replay: user work space large enough for some, not all, of the first-guess L/U arrays: the halving retry of p?gstrf_MemInit must keep the
 * user stack consistent.  For each lwork of a sweep the factorization runs in a child process; the property (C14) is: the call returns
 * (info = 0, or info > n reporting the memory shortfall) - it never crashes and never reports 0 < info <= n for this nonsingular matrix.
 * (or it stops with the library's own 'Storage ... exceeded' diagnostic).  exit 1 = some lwork crashed or produced a wrong report.
 * build: gcc -I /repo/SRC meminit-retry-user-stack.c /repo/_build/SRC/libsuperlu_mt_PTHREAD.a -lopenblas -lpthread -lm
 * before the fix: 141 of 199 work-space sizes end in SIGSEGV. */
#include <stdio.h>
#include <stdlib.h>
#include <string.h>
#include <unistd.h>
#include <sys/wait.h>
#include "slu_mt_ddefs.h"
static int one(int n, long lwork)
{
    int nnz = 0, i, j; double *a = malloc(7 * n * 8); int_t *asub = malloc(7 * n * sizeof(int_t)), *xa = malloc((n + 1) * sizeof(int_t));
    for (j = 0; j < n; j++) { xa[j] = nnz; for (i = 0; i < n; i++) if (i == j || abs(i - j) == 1 || abs(i - j) == 20) { a[nnz] = (i == j) ? 50 : 1.0; asub[nnz++] = i; } } xa[n] = nnz;
    SuperMatrix A, L, U, B, X;
    dCreate_CompCol_Matrix(&A, n, n, nnz, a, asub, xa, SLU_NC, SLU_D, SLU_GE);
    double *b = calloc(n, 8), *x = calloc(n, 8); for (i = 0; i < n; i++) b[i] = 1;
    dCreate_Dense_Matrix(&B, n, 1, b, n, SLU_DN, SLU_D, SLU_GE); dCreate_Dense_Matrix(&X, n, 1, x, n, SLU_DN, SLU_D, SLU_GE);
    int_t *perm_r = intMalloc(n), *perm_c = intMalloc(n), info; for (i = 0; i < n; i++) perm_c[i] = i;
    superlumt_options_t o; superlu_memusage_t mu; double *R = calloc(n, 8), *C = calloc(n, 8), ferr[1], berr[1], rpg, rcond; equed_t equed = NOEQUIL;
    char *work = malloc(lwork + 64);
    memset(&o, 0, sizeof o);
    o.nprocs = 1; o.fact = DOFACT; o.trans = NOTRANS; o.refact = NO; o.panel_size = sp_ienv(1); o.relax = sp_ienv(2); o.diag_pivot_thresh = 1.0; o.usepr = NO;
    o.SymmetricMode = NO; o.PrintStat = NO; o.perm_c = perm_c; o.perm_r = perm_r; o.work = work; o.lwork = lwork;
    o.etree = intMalloc(n); o.colcnt_h = intMalloc(n); o.part_super_h = intMalloc(n);
    pdgssvx(1, &o, &A, perm_c, perm_r, &equed, R, C, &L, &U, &B, &X, &rpg, &rcond, ferr, berr, &mu, &info);
    if (info == 0) { double e = 0; /* residual */ double *r = calloc(n, 8); for (j = 0; j < n; j++) for (i = xa[j]; i < xa[j + 1]; i++) r[asub[i]] += a[i] * x[j]; for (i = 0; i < n; i++) if (fabs(r[i] - 1) > e) e = fabs(r[i] - 1); if (e > 1e-8) return 3; return 0; }
    return info > n ? 0 : 2;
}
int main(int argc, char **argv)
{
    int n = 400, crash = 0, wrong = 0, diag = 0; long lw;
    for (lw = 20000; lw <= 2000000; lw += 10000) {
	fflush(stdout); pid_t p = fork();
	if (p == 0) { freopen("/dev/null", "w", stdout); _exit(one(n, lw)); }
	int st; waitpid(p, &st, 0);
	if (!WIFEXITED(st)) { ++crash; if (crash <= 5) printf("lwork=%ld: killed by signal %d\n", lw, WTERMSIG(st)); }
	else if (WEXITSTATUS(st) == 255) ++diag;     /* the library's own diagnostic ("Storage for ... exceeded") and exit: the documented stop */
	else if (WEXITSTATUS(st)) { ++wrong; if (wrong <= 5) printf("lwork=%ld: wrong report/solution (code %d)\n", lw, WEXITSTATUS(st)); }
    }
    printf("sweep done: %d crashed, %d wrong, %d stopped with the library's diagnostic\n", crash, wrong, diag);
    return (crash || wrong) ? 1 : 0;
}
