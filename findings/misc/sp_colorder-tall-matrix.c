/* Replay for the known finding C10 DIM-ROW sp_colorder#qrnzcnt-row-dimension: a 7 x 3 pattern through get_perm_c + sp_colorder.
 * build: gcc -g -I /repo/SRC sp_colorder-tall-matrix.c /repo/_build/SRC/libsuperlu_mt_PTHREAD.a -lopenblas -lpthread -lm ; run under valgrind with argument 0, 1 or 3
 * (ordering option): "Invalid read of size 4 at qrnzcnt (qrnzcnt.c:204-206) ... 0 bytes after a block of size 12 alloc'd". */
#include "slu_mt_ddefs.h"
int main(int argc, char **argv)
{
    /* 7 x 3 : col0 {0,3,6} col1 {1,4,6} col2 {2,5} */
    int_t m = 7, n = 3, colptr[] = {0,3,6,8}, rowind[] = {0,3,6,1,4,6,2,5};
    double val[] = {1,2,3,4,5,6,7,8};
    SuperMatrix A, AC; superlumt_options_t opt; int_t perm_c[3], j;
    int spec = atoi(argv[1]);
    dCreate_CompCol_Matrix(&A, m, n, 8, val, rowind, colptr, SLU_NC, SLU_D, SLU_GE);
    get_perm_c(spec, &A, perm_c);
    printf("perm_c:"); for (j = 0; j < n; ++j) printf(" %d", (int) perm_c[j]); printf("\n");
    memset(&opt, 0, sizeof opt);
    opt.nprocs = 1; opt.fact = DOFACT; opt.refact = NO; opt.panel_size = 4; opt.relax = 3; opt.SymmetricMode = NO; opt.perm_c = perm_c;
    opt.etree = intMalloc(n); opt.colcnt_h = intMalloc(n); opt.part_super_h = intMalloc(n);
    sp_colorder(&A, perm_c, &opt, &AC);
    printf("etree:"); for (j = 0; j < n; ++j) printf(" %d", (int) opt.etree[j]); printf("\n");
    printf("colcnt_h:"); for (j = 0; j < n; ++j) printf(" %d", (int) opt.colcnt_h[j]); printf("\n");
    return 0;
}
