/* Replay for the repaired defect "p?gstrf_WorkInit leaks the integer work array when the floating-point work array cannot be allocated".
 * malloc/calloc/free are wrapped (-Wl,--wrap); the one request with the size of the worker's dwork[] array fails.  pdgstrf then reports
 * info > n; after the documented clean-up of what it handed back no library block may stay allocated.
 * build: gcc -I /repo/SRC workinit-dwork-failure-leak.c -Wl,--wrap=malloc,--wrap=calloc,--wrap=free /repo/_build/SRC/libsuperlu_mt_PTHREAD.a -lopenblas -lpthread -lm
 * exit 1 = blocks allocated inside the call are still live (before the fix: 1 block of (2w+5+3)*n ints per failing worker). */
#include <stdio.h>
#include <stdlib.h>
#include <string.h>
#include "slu_mt_ddefs.h"
void *__real_malloc(size_t); void *__real_calloc(size_t, size_t); void __real_free(void *);
#define MAXB 100000
static void *blk[MAXB]; static size_t bsz[MAXB]; static int nb = 0, tracking = 0; static size_t fail_size = 0; static int failed = 0;
static void add(void *p, size_t n) { if (tracking && p && nb < MAXB) { blk[nb] = p; bsz[nb++] = n; } }
void *__wrap_malloc(size_t n) { if (tracking && fail_size && n == fail_size) { ++failed; return NULL; } void *p = __real_malloc(n); add(p, n); return p; }
void *__wrap_calloc(size_t a, size_t b) { void *p = __real_calloc(a, b); add(p, a * b); return p; }
void __wrap_free(void *p) { int i; for (i = 0; i < nb; ++i) if (blk[i] == p) { blk[i] = blk[--nb]; bsz[i] = bsz[nb]; break; } __real_free(p); }
int main(void)
{
    int n = 60, nnz = 0, i, j; double *a = __real_malloc(n * n * 8); int_t *asub = __real_malloc(n * n * sizeof(int_t)), *xa = __real_malloc((n + 1) * sizeof(int_t));
    for (j = 0; j < n; j++) { xa[j] = nnz; for (i = 0; i < n; i++) if (i == j || (i + j) % 7 == 0) { a[nnz] = (i == j) ? 50 : 1.0; asub[nnz++] = i; } } xa[n] = nnz;
    SuperMatrix A, AC, L, U; memset(&L, 0, sizeof L); memset(&U, 0, sizeof U); superlumt_options_t o; Gstat_t Gstat; int_t info = 0;
    int_t *perm_c = __real_malloc(n * sizeof(int_t)), *perm_r = __real_malloc(n * sizeof(int_t));
    int_t w = sp_ienv(1), relax = sp_ienv(2), maxsuper = sp_ienv(3), rowblk = sp_ienv(4);
    for (i = 0; i < n; i++) perm_c[i] = i;
    dCreate_CompCol_Matrix(&A, n, n, nnz, a, asub, xa, SLU_NC, SLU_D, SLU_GE);
    StatAlloc(n, 1, w, relax, &Gstat); StatInit(n, 1, &Gstat);
    pdgstrf_init(1, DOFACT, NOTRANS, NO, w, relax, 1.0, NO, 0.0, perm_c, perm_r, NULL, 0, &A, &AC, &o, &Gstat);
    { size_t t = (size_t)(2 * n) > (size_t)((maxsuper + rowblk) * w) ? 2 * n : (maxsuper + rowblk) * w; fail_size = ((size_t) n * w + t) * sizeof(double); }
    tracking = 1;
    pdgstrf(&o, &AC, perm_r, &L, &U, &Gstat, &info);
    tracking = 0;
    /* documented clean-up of everything the call handed back */
    pxgstrf_finalize(&o, &AC);
    if ( L.Store ) Destroy_SuperNode_SCP(&L);
    if ( U.Store ) Destroy_CompCol_NCP(&U);
    fprintf(stderr, "dwork request failed %d time(s); info = %d (n = %d); blocks still allocated from inside pdgstrf: %d", failed, (int) info, n, nb);
    for (i = 0; i < nb && i < 4; ++i) fprintf(stderr, " [%zu bytes]", bsz[i]);
    fprintf(stderr, "\n");
    if (!failed) { fprintf(stderr, "the dwork request was not hit - replay needs adjusting\n"); return 2; }
    return nb != 0;
}
