#include <stdio.h>
#include <stdlib.h>
#include <math.h>
#include "slu_mt_zdefs.h"
/* op(A) = A^H : check residual b - A^H x for NC and NR storage */
static double run(int nr){ int n=6,nnz=0; doublecomplex a[36]; int_t asub[36],xa[7];
 for(int j=0;j<n;j++){xa[j]=nnz; for(int i=0;i<n;i++) if(i==j||i==(j+1)%n||(i+2)%n==j){a[nnz].r=(i==j)?6+j:1.0+0.3*i; a[nnz].i=(i==j)?0.5:0.7-0.2*j; asub[nnz++]=i;}} xa[n]=nnz;
 doublecomplex a0[36]; for(int k=0;k<nnz;k++)a0[k]=a[k];
 SuperMatrix A,L,U,B,X; if(!nr) zCreate_CompCol_Matrix(&A,n,n,nnz,a,asub,xa,SLU_NC,SLU_Z,SLU_GE); else zCreate_CompRow_Matrix(&A,n,n,nnz,a,asub,xa,SLU_NR,SLU_Z,SLU_GE);
 doublecomplex b[6],b0[6],x[6]; for(int i=0;i<n;i++){b[i].r=1+i;b[i].i=2-i;b0[i]=b[i];}
 zCreate_Dense_Matrix(&B,n,1,b,n,SLU_DN,SLU_Z,SLU_GE); zCreate_Dense_Matrix(&X,n,1,x,n,SLU_DN,SLU_Z,SLU_GE);
 int_t perm_r[6],perm_c[6]={0,1,2,3,4,5},info; superlumt_options_t o; superlu_memusage_t mu; double R[6],C[6],ferr[1],berr[1],rpg,rcond; equed_t equed=NOEQUIL;
 o.nprocs=1;o.fact=DOFACT;o.trans=CONJ;o.refact=NO;o.panel_size=sp_ienv(1);o.relax=sp_ienv(2);o.diag_pivot_thresh=1.0;o.usepr=NO;o.drop_tol=0;o.SymmetricMode=NO;o.PrintStat=NO;o.perm_c=perm_c;o.perm_r=perm_r;o.work=0;o.lwork=0;
 o.etree=intMalloc(n);o.colcnt_h=intMalloc(n);o.part_super_h=intMalloc(n);
 pzgssvx(1,&o,&A,perm_c,perm_r,&equed,R,C,&L,&U,&B,&X,&rpg,&rcond,ferr,berr,&mu,&info);
 /* the matrix M the user means: NC: M(i,j)=a[k] for column j; NR: arrays describe rows: M(j,i)=a[k] for row j */
 double rmax=0;
 for(int r=0;r<n;r++){ double sr=b0[r].r, si=b0[r].i;   /* (M^H x)_r = sum_c conj(M(c,r)) x_c */
   for(int j=0;j<n;j++) for(int k=xa[j];k<xa[j+1];k++){ int row,col; if(!nr){row=asub[k];col=j;}else{row=j;col=asub[k];}
      if(col==r){ double cr=a0[k].r, ci=-a0[k].i; sr-= cr*x[row].r-ci*x[row].i; si-= cr*x[row].i+ci*x[row].r; } }
   double m=hypot(sr,si); if(m>rmax)rmax=m; }
 printf("%s trans=CONJ: info=%d max|b - A^H x| = %g\n", nr?"NR":"NC",(int)info,rmax); return rmax; }
int main(){ double r1=run(0), r2=run(1); return (r1<1e-10&&r2<1e-10)?0:1; }
