#include <stdio.h>
#include "slu_mt_ddefs.h"
static int got=0; int xerbla_(char*s,int*i){got=*i;return 0;}
int main(){ SuperMatrix L,U,B; DNformat bs; Gstat_t g; int_t info=0; int_t pr[1]={0},pc[1]={0};
 L.nrow=2;L.ncol=3;U.nrow=U.ncol=2;B.ncol=1;bs.lda=2;B.Store=&bs;
 dgstrs(NOTRANS,&L,&U,pr,pc,&B,&g,&info); printf("illegal L (argument 2): info=%d xerbla=%d\n",(int)info,got);
 L.ncol=2;U.ncol=5; dgstrs(NOTRANS,&L,&U,pr,pc,&B,&g,&info); printf("illegal U (argument 3): info=%d xerbla=%d\n",(int)info,got); return !(info==-3);}
