"""Obligation bookkeeping, known findings, evidence and replay files, exit codes."""
import json, os, sys, time

VERIF = os.path.dirname(os.path.dirname(os.path.abspath(__file__)))
OUT = os.environ.get("SLU_OUT", VERIF)   # evidence/replay root (scratch dir during mutation self-tests)

ASSUMPTIONS = [
    "trusted: clang-14 front end, LLVM-14 IR libraries, /verif/sa/irdump, the rule engines and rule/instance tables under /verif/slu",
    "abort idiom: superlu_abort_and_exit (USER_ABORT default) calls exit and does not return; established structurally from its body on every run",
    "effect summaries for libc/pthread/BLAS callees are the obvious ones (table in slu/summaries.py)",
    "the only indirect call targets are thread start routines passed as constants; any other indirect call makes the run exit 2",
    "no hardware memory-ordering argument is made: synchronisation rules speak about program order, lock regions and volatile accesses only",
    "static analysis decides the structural clause named in DESIGN.md for this property, not the numerical/liveness behaviour listed under 'not decided'",
]


class AnalysisBroken(Exception):
    pass


class Ob(object):
    __slots__ = ("rule", "key", "ok", "detail", "site", "fn", "extra")

    def __init__(self, rule, key, ok, detail, site=None, fn=None, extra=None):
        self.rule = rule; self.key = key; self.ok = ok; self.detail = detail
        self.site = site; self.fn = fn; self.extra = extra

    def asdict(self):
        d = {"rule": self.rule, "instance": self.key, "ok": self.ok, "detail": self.detail}
        if self.site: d["site"] = self.site
        if self.fn: d["function"] = self.fn
        if self.extra: d["extra"] = self.extra
        return d


class Report(object):
    def __init__(self, pid, tier, config="pthread"):
        self.pid = pid; self.tier = tier
        self.obs = []
        self.floors = {}      # rule -> (min, why)
        self.notes = []
        self.broken = []
        self.config = config
        self.scope_functions = set()
        self.rules_text = []
        self.controls = []   # (rule, fired_ok)
        self.stats = {}
        self.exhaustive = False

    def rule(self, name, text, floor=0):
        self.rules_text.append("%s: %s" % (name, text))
        if floor:
            self.floors[name] = max(floor, self.floors.get(name, 0))

    def ok(self, rule, key, detail, site=None, fn=None, extra=None):
        self.obs.append(Ob(rule, key, True, detail, site, fn, extra))

    def fail(self, rule, key, detail, site=None, fn=None, extra=None):
        self.obs.append(Ob(rule, key, False, detail, site, fn, extra))

    def check(self, cond, rule, key, detail_ok, detail_fail=None, site=None, fn=None, extra=None):
        if cond:
            self.ok(rule, key, detail_ok, site, fn, extra)
        else:
            self.fail(rule, key, detail_fail or ("NOT: " + detail_ok), site, fn, extra)
        return cond

    def note(self, s):
        self.notes.append(s)

    def brk(self, s):
        self.broken.append(s)

    def scope(self, fns):
        for f in fns:
            self.scope_functions.add(f)

    def count(self, rule):
        return sum(1 for o in self.obs if o.rule == rule)


def load_known():
    p = os.path.join(VERIF, "known_findings.json")
    if not os.path.exists(p):
        return {"findings": [], "fixed": []}
    return json.load(open(p))


def finish(rep, modinfo, t0, seed=0):
    """floors -> broken; known-finding filter; evidence; replay; exit code"""
    pid = rep.pid
    for rule, floor in sorted(rep.floors.items()):
        n = rep.count(rule)
        if n < floor:
            rep.brk("ANALYSIS-BROKEN rule=%s expected>=%d found=%d" % (rule, floor, n))
    known = load_known()
    kf = [k for k in known.get("findings", []) if k["property"] == pid]
    fails = [o for o in rep.obs if not o.ok]
    violations = []
    matched = []
    for o in fails:
        hit = None
        for k in kf:
            if k["rule"] == o.rule and k["instance"] == o.key:
                hit = k
                break
        if hit:
            matched.append((o, hit))
        else:
            violations.append(o)
    for c_rule, c_ok, c_detail in rep.controls:
        if not c_ok:
            rep.brk("ANALYSIS-BROKEN control for rule %s did not behave: %s" % (c_rule, c_detail))
    out = []
    for o, k in matched:
        out.append("KNOWN-FINDING: property=%s %s [%s %s]" % (pid, k.get("what", o.detail), o.rule, o.key))
    replay_dir = os.path.join(OUT, "replay", pid)
    if violations:
        os.makedirs(replay_dir, exist_ok=True)
    vi = 0
    for o in violations:
        vi += 1
        rp = os.path.join(replay_dir, "%d.json" % vi)
        json.dump({"property": pid, "config": rep.config, **o.asdict()}, open(rp, "w"), indent=1)
        out.append("  %s %s %s: %s%s" % (o.rule, o.key, ("@" + o.site) if o.site else "", o.detail, ""))
        out.append("VIOLATION property=%s replay=%s" % (pid, rp))
    for b in rep.broken:
        out.append(b)
    nob = len(rep.obs)
    nok = sum(1 for o in rep.obs if o.ok)
    per_rule = {}
    for o in rep.obs:
        d = per_rule.setdefault(o.rule, {"instances": 0, "discharged": 0})
        d["instances"] += 1
        d["discharged"] += 1 if o.ok else 0
    samples = []
    seen_rule = {}
    for o in rep.obs:
        if seen_rule.get(o.rule, 0) < 3:
            seen_rule[o.rule] = seen_rule.get(o.rule, 0) + 1
            samples.append(o.asdict())
    for o in fails[:40]:
        d = o.asdict()
        if d not in samples:
            samples.append(d)
    ev = {
        "property_id": pid,
        "tier": rep.tier,
        "seed": seed,
        "level": "other",
        "coverage": {
            "explanation": "Static analysis of /repo's SRC/*.c compiled to LLVM IR (no execution, no solver). Rules applied: " + " | ".join(rep.rules_text),
            "obligations": nob,
            "discharged": nok,
            "evaluations": max(nob, 1),
            "distinct_nontrivial": max(len(set((o.rule, o.key) for o in rep.obs)), 0),
            "rule": "one obligation per rule instance found in the IR of the current tree; distinct = distinct (rule, instance-key) pairs",
            "samples": samples[:60],
            "exhaustive": bool(rep.exhaustive),
            "units": modinfo.get("units"),
            "configs": modinfo.get("configs", [rep.config]),
            "functions_loaded": modinfo.get("functions"),
            "instructions_loaded": modinfo.get("instructions"),
            "functions_in_scope": len(rep.scope_functions),
            "scope_sample": sorted(rep.scope_functions)[:40],
            "rule_instances": per_rule,
            "instance_floors": rep.floors,
            "known_findings_matched": [{"rule": o.rule, "instance": o.key, "what": k.get("what")} for o, k in matched],
            "controls": [{"rule": r, "ok": ok, "detail": d} for r, ok, d in rep.controls],
            "notes": rep.notes[:80],
            "analysis_broken": rep.broken,
            "stats": rep.stats,
        },
        "assumptions": ASSUMPTIONS,
        "wall_s": round(time.time() - t0, 3),
        "violations": len(violations),
    }
    os.makedirs(os.path.join(OUT, "evidence"), exist_ok=True)
    json.dump(ev, open(os.path.join(OUT, "evidence", "%s.json" % pid), "w"), indent=1, sort_keys=True)
    print("%s tier=%s config=%s: %d obligations, %d discharged, %d known findings, %d violations, %d broken; scope %d functions; %.1fs"
          % (pid, rep.tier, ",".join(modinfo.get("configs", [rep.config])), nob, nok, len(matched), len(violations), len(rep.broken),
             len(rep.scope_functions), time.time() - t0))
    for r, d in sorted(per_rule.items()):
        print("  rule %-28s instances=%-4d discharged=%-4d floor=%s" % (r, d["instances"], d["discharged"], rep.floors.get(r, "-")))
    for n in rep.notes[:30]:
        print("  note: " + n)
    for l in out:
        print(l)
    if violations:
        return 1            # a reported violation stands on its own rule instance, also when another rule lost its anchor
    if rep.broken:
        return 2
    return 0
