"""Store summaries of small internal helpers (extracted loops): for each direct store of the helper whose address is rooted at a parameter,
(param index, path suffix, roots of the stored value as (param index, suffix) of the loads in its expression tree).  Used by the MODE engine
so that a block moved into a static helper yields the same store atoms as the in-line code."""
from .ir import strip_casts

_PURE = ("llvm.", "fabs", "fabsf", "sqrt", "c_abs", "z_abs", "c_abs1", "z_abs1")
_cache = {}


def store_summary(mod, h):
    key = (id(mod), h.name)
    if key in _cache:
        return _cache[key]
    out = []
    ok = True
    for c in h.insts():
        if c.op == "call" and not (c.callee or "").startswith(_PURE):
            ok = False            # a helper that calls on is not a leaf loop: leave it to the effect summary
    if ok:
        for s in h.insts():
            if s.op != "store":
                continue
            for p in h.addr_paths(s):
                if p[0][0] != "A" or len(p) < 2:
                    continue          # stores to its own locals / by-value parameter copies
                roots = set()
                unknown = False
                seen = set(); work = [s.ops[0]]
                while work:
                    x = strip_casts(h, work.pop())
                    if x[0] == "a":
                        roots.add((x[1], ()))
                        continue
                    if x[0] != "v" or x[1] in seen:
                        continue
                    seen.add(x[1])
                    ins = h.inst[x[1]]
                    if ins.op == "load":
                        for q in h.addr_paths(ins):
                            if q[0][0] == "A":
                                roots.add((q[0][1], tuple(q[1:])))
                            elif q[0][0] not in ("L",):
                                unknown = True
                        continue
                    if ins.op in ("phi", "alloca"):
                        continue
                    if ins.op == "call":
                        if not (ins.callee or "").startswith(_PURE):
                            unknown = True
                    for y in ins.ops:
                        if isinstance(y, (list, tuple)):
                            work.append(y)
                out.append((p[0][1], tuple(p[1:]), frozenset(roots), unknown))
    res = out if ok else None
    _cache[key] = res
    return res


class SummStore(object):
    """pseudo store instruction standing for a store performed inside a helper, seen from the call site"""
    op = "summ-store"

    def __init__(self, call, roots):
        self.call = call; self.i = call.i; self.loc = call.loc; self.ln = call.ln; self.bb = call.bb; self.fn = call.fn
        self.roots = roots; self.ops = call.ops; self.callee = call.callee


def join_path(base, suffix):
    out = list(base)
    for st in suffix:
        if st == ("i",) and out and out[-1] == ("i",):
            continue
        out.append(st)
    return tuple(out)
