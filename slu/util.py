"""Small helpers shared by the rule modules."""
from .ir import strip_casts, fmt_path, last_field, path_has_field, all_operands

PRECS = "sdcz"


def fam(mod, pattern):
    """[(precision, Func)] for a name pattern containing '?'"""
    out = []
    for p in PRECS:
        n = pattern.replace("?", p)
        if n in mod.funcs:
            out.append((p, mod.funcs[n]))
    return out


def is_const(o, c=None):
    return o[0] == "c" and (c is None or o[1] == c)


def addr_field_paths(f, ins):
    return f.addr_paths(ins)


def addr_has_field(f, ins, field, struct=None):
    """load/store whose address is (an element of) the array/cell named by struct field `field`"""
    for p in f.addr_paths(ins):
        lf = last_field(p)
        if lf and lf[2] == field and (struct is None or lf[1] == struct):
            return True
    return False


def addr_is_field_cell(f, ins, field, struct=None):
    """address is exactly X.field (the cell itself, not what it points to)"""
    for p in f.addr_paths(ins):
        if len(p) >= 2 and p[-1][0] == "f" and p[-1][2] == field and (struct is None or p[-1][1] == struct):
            return True
    return False


def addr_is_elem_of(f, ins, field, struct=None):
    """address is X.field^[...]: an element of the array the field points to"""
    for p in f.addr_paths(ins):
        if len(p) >= 3 and p[-1][0] == "i" and p[-2][0] == "*" and p[-3][0] == "f" and p[-3][2] == field \
                and (struct is None or p[-3][1] == struct):
            return True
        # element 0 (no index step): X.field^
        if len(p) >= 2 and p[-1][0] == "*" and p[-2][0] == "f" and p[-2][2] == field and (struct is None or p[-2][1] == struct):
            return True
    return False


def gep_index(f, addr_operand):
    """the (cast-stripped) last index operand of the GEP producing this address, or None"""
    o = addr_operand
    while o[0] == "v":
        ins = f.inst[o[1]]
        if ins.op == "bitcast":
            o = ins.ops[0]
            continue
        if ins.op == "getelementptr":
            for st in reversed(ins.gep):
                if st["k"] == "idx":
                    return strip_casts(f, st["v"])
            return None
        return None
    return None


def same_val(a, b):
    return a is not None and b is not None and a[0] == b[0] and a[1] == b[1]


def fmt_paths(f, ps):
    return "{" + ", ".join(sorted(fmt_path(p, f) for p in ps)) + "}"


def branch_edges_on(f, cmp_ins):
    """for an icmp feeding conditional branches: list of (block, true_target, false_target)"""
    out = []
    for u in f.uses.get(cmp_ins.i, []):
        if u.op == "br" and u.ops and u.ops[0][0] == "v" and u.ops[0][1] == cmp_ins.i:
            out.append((u.bb, u.tgt[0], u.tgt[1]))
    return out


def eq_edge(f, cmp_ins):
    """[(block id, succ id taken when operands are EQUAL, succ id when NOT equal)] for icmp eq/ne"""
    out = []
    if cmp_ins.op != "icmp" or cmp_ins.pred not in ("eq", "ne"):
        return out
    for b, t, fl in branch_edges_on(f, cmp_ins):
        if cmp_ins.pred == "eq":
            out.append((b.id, t, fl))
        else:
            out.append((b.id, fl, t))
    return out


def param_index(f, *names):
    for n in names:
        k = f.pindex(n)
        if k is not None:
            return k
    return None


def same_value(f, o1, o2):
    """o1 and o2 denote the same runtime value: same SSA value, or loads of the same
    address-taken local with no write to it (store, or call receiving its address) between the two loads"""
    a, b = strip_casts(f, o1), strip_casts(f, o2)
    if same_val(a, b):
        return True
    if a[0] != "v" or b[0] != "v":
        return False
    A, B = f.inst[a[1]], f.inst[b[1]]
    if A.op != "load" or B.op != "load":
        return False
    pa, pb = f.addr_paths(A), f.addr_paths(B)
    if pa != pb or len(pa) != 1:
        return False
    p = list(pa)[0]
    if len(p) != 1 or p[0][0] != "L":
        return False
    writes = []
    for i in f.insts():
        if i.op == "store" and p in f.addr_paths(i):
            writes.append(i)
        elif i.op == "call":
            for o in i.ops:
                if o[0] == "v" and p in f.paths(o):
                    writes.append(i)
    first, second = (A, B) if f.dominates(A, B) else (B, A)
    r = f.reach([first], stop=lambda x: x.i == second.i or x.i == first.i)
    for w in writes:
        if w.i in r and w.i != second.i:
            # the write lies between the loads only if the second load is reachable from it without re-executing the first
            r2 = f.reach([w], stop=lambda x: x.i == first.i or x.i == second.i)
            if second.i in r2:
                return False
    return True
