"""C15 - illegal arguments (DESIGN.md §4 C15)."""
from ..rules import args


def run(ctx, rep):
    args.rule_prologues(ctx.mod, rep)
    from ..rules import more
    more.rule_arg_exclusive(ctx.mod, rep)
    from ..rules import more4
    more4.rule_xerbla_readonly(ctx.mod, rep)
    from ..rules import driver
    driver.rule_expert_argcodes(ctx.mod, rep)
    from ..rules import more5
    more5.rule_info_init(ctx.mod, rep)
    driver.rule_expert_illegal(ctx.mod, rep)
    from ..rules import more6
    more6.rule_arg_ld(ctx.mod, rep)
