"""C05 - memory safety of L/U storage and work arrays (structural clauses, DESIGN.md §4 C05)."""
from ..rules import alloc, layout


def run(ctx, rep):
    mod = ctx.mod
    alloc.rule_O7_bound_before_bump(mod, rep)
    alloc.rule_who_writes_counters(mod, rep)
    layout.rule_work_layout(mod, rep)
    from ..rules import more
    more.rule_super_bnd_arg(mod, rep)
    more.rule_lsub_request(mod, rep)
    more.rule_preset_joined(mod, rep)
    more.rule_super_bnd_test(mod, rep)
    more.rule_snode_continue(mod, rep)
    from ..rules import more2
    more2.rule_slot_bound(mod, rep)
    import re
    from ..rules import more2
    more2.rule_arg_names(mod, rep, lambda f: re.match(r"p[sdcz]gstrf|pxgstrf|[sdcz]PresetMap|Glu_alloc|DynamicSetMap", f.name) is not None, floor=1)
    from ..rules import order
    order.rule_colorder_table(mod, rep)
    from ..rules import more2
    more2.rule_stack_pop(mod, rep)
    from ..rules import more3
    more3.rule_snode_shape(mod, rep)
    from ..rules import more4
    more4.rule_slot_rectangle(mod, rep)
    more4.rule_relax_bound(mod, rep)
    from ..rules import more4
    more4.rule_marker_kind(mod, rep)
    from ..rules import more4
    more4.rule_panel_column(mod, rep)
    more4.rule_segment_scan(mod, rep)
    from ..rules import lock
    lock.rule_L2_guarded_by(mod, rep, ctx.config)   # the bump allocators of lusup/lsub/ucol/usub: bound test and bump are one critical section
    from ..rules import more5
    more5.rule_snode_tests(mod, rep)
    from ..rules import more5
    more5.rule_align_dir(mod, rep)
    from ..rules import more6
    more6.rule_alloc_range(mod, rep, floor=70)
    more6.rule_lusup_static(mod, rep)
    more4.rule_workfreeall_order(mod, rep)      # the free-space test of the user work space (StackFull) is only as good as stack.used
    from ..rules import more6 as _m6b
    _m6b.rule_snode_boundary(mod, rep)
