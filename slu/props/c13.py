"""C13 - refinement (DESIGN.md §4 C13)."""
from ..rules import driver, cond


def run(ctx, rep):
    mod = ctx.mod
    driver.rule_expert_table(mod, rep, "C13")
    driver.rule_expert_order_refine(mod, rep)
    cond.rule_gsrfs_table(mod, rep)
    cond.rule_refine_fresh(mod, rep)
    from ..rules import misc
    misc.rule_dense_stride(mod, rep)
    import re
    from ..rules import more2
    more2.rule_arg_names(mod, rep, lambda f: re.match(r"p[sdcz]gssvx$|[sdcz]gsrfs$|[sdcz]gstrs$|sp_[sdcz]", f.name) is not None, floor=1)
    from ..rules import more3
    more3.rule_cursor_step(mod, rep)
    from ..rules import more4
    more4.rule_lstres_reset(mod, rep)
    from ..rules import more4
    more4.rule_extent_pairs(mod, rep)
    from ..rules import more5
    more5.rule_zero_skip(mod, rep)
    from ..rules import more6
    import re as _re
    more6.rule_precision_family(mod, rep, floor=20, sel=lambda f: _re.search(r"gsrfs|gssvx|lacon|sp_.trsv|sp_.gemv", f.name) is not None)
    more6.rule_stale(mod, rep)
    more6.rule_max1_scan(mod, rep, config=ctx.config)
