"""C13 - refinement (DESIGN.md §4 C13)."""
from ..rules import driver, cond


def run(ctx, rep):
    mod = ctx.mod
    driver.rule_expert_table(mod, rep, "C13")
    driver.rule_expert_order_refine(mod, rep)
    cond.rule_gsrfs_table(mod, rep)
    cond.rule_refine_fresh(mod, rep)
    from ..rules import misc
    misc.rule_dense_stride(mod, rep)
