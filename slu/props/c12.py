"""C12 - condition estimate and pivot growth (DESIGN.md §4 C12)."""
from ..rules import driver, cond


def run(ctx, rep):
    mod = ctx.mod
    driver.rule_expert_table(mod, rep, "C12")
    driver.rule_expert_order_cond(mod, rep)
    cond.rule_gscon_table(mod, rep)
    from ..rules import misc
    misc.rule_min_identity(mod, rep, which=('growth',))
    from ..rules import more
    more.rule_trsv_loops(mod, rep)
