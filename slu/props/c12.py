"""C12 - condition estimate and pivot growth (DESIGN.md §4 C12)."""
from ..rules import driver, cond


def run(ctx, rep):
    mod = ctx.mod
    driver.rule_expert_table(mod, rep, "C12")
    driver.rule_expert_order_cond(mod, rep)
    cond.rule_gscon_table(mod, rep)
    from ..rules import misc
    misc.rule_min_identity(mod, rep, which=('growth',))
    from ..rules import more
    more.rule_trsv_loops(mod, rep)
    import re
    from ..rules import more2
    more2.rule_arg_names(mod, rep, lambda f: re.match(r"p[sdcz]gssvx$|[sdcz]gscon$|[sdcz]langs$|[sdcz]lacon_$|[sdcz]PivotGrowth$", f.name) is not None, floor=1)
    from ..rules import more4
    more4.rule_extent_pairs(mod, rep)
    from ..rules import more5
    more5.rule_abs_modulus(mod, rep)
    from ..rules import more6
    import re as _re
    more6.rule_precision_family(mod, rep, floor=20, sel=lambda f: _re.search(r"gscon|lacon|langs|PivotGrowth|gssvx|sum1|max1", f.name) is not None)
    more6.rule_pivot_growth_column(mod, rep)
    from ..rules import more5 as _m5
    _m5.rule_inverse_fill(mod, rep)
    more6.rule_max1_scan(mod, rep, config=ctx.config)
    more6.rule_lacon_altvector(mod, rep, config=ctx.config)
