"""C19 - sparse kernels and format utilities (thin structural clauses, DESIGN.md §4 C19)."""
from ..rules import ext, misc


def run(ctx, rep):
    mod = ctx.mod
    ext.rule_extents(mod, rep)
    ext.rule_gemv_offsets(mod, rep)
    ext.rule_uninit_reads(mod, rep, ["?CompRow_to_CompCol", "?Copy_CompCol_Matrix", "?Copy_Dense_Matrix", "sp_?trsv", "sp_?gemv", "sp_?gemm", "?gstrs", "?langs", "?allocateA"])
    misc.rule_dense_stride(mod, rep, patterns=("?gstrs", "?gsrfs"))
    from ..rules import more
    more.rule_ld_pairing(mod, rep)
    more.rule_gemv_beta0(mod, rep)
    more.rule_trsv_loops(mod, rep)
    from ..rules import more2
    more2.rule_langs_norms(mod, rep)
    more2.rule_gemv_total(mod, rep)
    more2.rule_cplx_alias(mod, rep)
    import re
    from ..rules import more2
    more2.rule_arg_names(mod, rep, lambda f: re.match(r"sp_[sdcz]|[sdcz]langs$|[sdcz]Copy|[sdcz]CompRow", f.name) is not None, floor=1)
    from ..rules import more3
    more3.rule_cursor_step(mod, rep)
    more3.rule_langs_rows(mod, rep)
    from ..rules import state
    state.rule_state(mod, rep)          # the kernels are re-entrant: no static-duration work buffers
    from ..rules import more4
    more4.rule_copy_source(mod, rep)
    from ..rules import more4
    more4.rule_extent_pairs(mod, rep)
    from ..rules import more5
    more5.rule_zero_skip(mod, rep)
    more5.rule_trsv_dense(mod, rep)
    more5.rule_row_cursor(mod, rep)
    from ..rules import more6
    more6.rule_alloc_range(mod, rep, floor=20, sel=lambda f: re.match(r"sp_[sdcz]|[sdcz]langs$|[sdcz]Copy|[sdcz]CompRow|[sdcz]gstrs$|[sdcz]gsrfs$|[sdcz]gscon$|[sdcz]PivotGrowth$", f.name) is not None)
    more6.rule_precision_family(mod, rep, floor=20, sel=lambda f: re.match(r"sp_[sdcz]|[sdcz]langs$|[sdcz]Copy|[sdcz]CompRow|[sdcz]Create|[sdcz]gstrs$", f.name) is not None)
    more6.rule_quick_return(mod, rep)
    more6.rule_snode_ld(mod, rep, pats=("sp_?trsv",))
