"""C19 - sparse kernels and format utilities (thin structural clauses, DESIGN.md §4 C19)."""
from ..rules import ext, misc


def run(ctx, rep):
    mod = ctx.mod
    ext.rule_extents(mod, rep)
    ext.rule_gemv_offsets(mod, rep)
    ext.rule_uninit_reads(mod, rep, ["?CompRow_to_CompCol", "?Copy_CompCol_Matrix", "?Copy_Dense_Matrix", "sp_?trsv", "sp_?gemv", "sp_?gemm", "?gstrs", "?langs", "?allocateA"])
    misc.rule_dense_stride(mod, rep, patterns=("?gstrs", "?gsrfs"))
    from ..rules import more
    more.rule_ld_pairing(mod, rep)
    more.rule_gemv_beta0(mod, rep)
    more.rule_trsv_loops(mod, rep)
    from ..rules import more2
    more2.rule_langs_norms(mod, rep)
    more2.rule_gemv_total(mod, rep)
