"""C02 - factors, multipliers bounded by the threshold (structural clauses, DESIGN.md §4 C02)."""
from ..rules import pivot, sync


def run(ctx, rep):
    mod = ctx.mod
    pivot.rule_pivot_policy(mod, rep)
    pivot.rule_pivot_return_shape(mod, rep)
    pivot.rule_inverse_perms(mod, rep)
    sync.rule_O1_release_after_pivot(mod, rep)
    sync.rule_O3_busy_skip(mod, rep)
    sync.rule_O4_spin_before_busy_update(mod, rep)
    sync.rule_O4c_fresh_rep(mod, rep)
    sync.rule_O9_supernode_extension(mod, rep)
    sync.rule_O9b_relaxed_marking(mod, rep)
    from ..rules import more
    more.rule_sing_init(mod, rep)
    more.rule_kernel_columns(mod, rep)
    more.rule_release_after(mod, rep)
    more.rule_pivot_found(mod, rep)
    import re
    from ..rules import more2
    more2.rule_arg_names(mod, rep, lambda f: re.match(r"p[sdcz]gstrf|pxgstrf", f.name) is not None, floor=1)
    from ..rules import more3
    more3.rule_kernel_base(mod, rep)
    more3.rule_prune_guard(mod, rep)
    more3.rule_threshold_forward(mod, rep)
    from ..rules import more4
    more4.rule_complex_nonzero(mod, rep)
    more4.rule_busy_fnz(mod, rep)
    more4.rule_row_block(mod, rep)
    from ..rules import more5
    more5.rule_snode_tests(mod, rep)
    from ..rules import more6
    import re as _re
    more6.rule_precision_family(mod, rep, floor=100, sel=lambda f: _re.match(r"p[sdcz]gstrf", f.name) is not None)
    from ..rules import more6 as _m6
    _m6.rule_pivot_column(mod, rep)
    from ..rules import more6 as _m6c
    _m6c.rule_prune_split(mod, rep)
    _m6c.rule_dfs_busy(mod, rep)
