"""C04 - termination / exactly once / no threads left (structural clauses, DESIGN.md §4 C04)."""
from ..rules import threads, sync, lock


def run(ctx, rep):
    mod = ctx.mod
    threads.rule_T1_create_join(mod, rep, ctx.config)
    threads.rule_T2_tasks_remain(mod, rep)
    threads.rule_T3_owner_exit(mod, rep)
    threads.rule_T4_queue_writers(mod, rep)
    sync.rule_O5_volatile(mod, rep)
    sync.rule_O2_done_after_release(mod, rep)
    lock.rule_L1_pairing(mod, rep, ctx.config)
    lock.rule_L2_guarded_by(mod, rep, ctx.config)
    from ..rules import more3
    more3.rule_sched_take(mod, rep)
    more3.rule_worker_loop(mod, rep)
    more3.rule_queue_order(mod, rep)
    from ..rules import more4
    more4.rule_release_range(mod, rep)
    more4.rule_relaxed_whole(mod, rep)
    from ..rules import more5
    more5.rule_sched_busy(mod, rep)
    more5.rule_await_pure(mod, rep)
    from ..rules import more6
    more6.rule_barrier_all(mod, rep)
