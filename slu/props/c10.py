"""C10 - orderings and preprocessing (structural clauses, DESIGN.md §4 C10)."""
from ..rules import order


def run(ctx, rep):
    mod = ctx.mod
    order.rule_colorder_table(mod, rep)
    order.rule_get_perm_c_mustwrite(mod, rep)
    order.rule_A_immutable(mod, rep, ["sp_colorder", "get_perm_c", "sp_coletree", "sp_symetree", "qrnzcnt", "cholnzcnt", "p?gstrf"])
    from ..rules import misc
    misc.rule_min_identity(mod, rep, which=('firstcol',))
    from ..rules import more
    more.rule_colamd_args(mod, rep)
    more.rule_link_order(mod, rep)
    from ..rules import more2
    more2.rule_dim_row(mod, rep)
    import re
    from ..rules import more2
    more2.rule_arg_names(mod, rep, lambda f: f.name in ("sp_colorder", "get_perm_c", "sp_coletree", "sp_symetree", "getata", "at_plus_a", "get_colamd") or (f.file or "").endswith(("colamd.c", "mmd.c")), floor=1)
    from ..rules import more3
    more3.rule_etree_mustwrite(mod, rep)
    from ..rules import more4
    more4.rule_ptr_shift(mod, rep)
    more4.rule_mem_bytes(mod, rep)
    from ..rules import more5
    more5.rule_transpose(mod, rep)
    from ..rules import unionast
    unionast.rule_union_role(ctx, rep)
    more5.rule_principal_walk(mod, rep)
    from ..rules import more6
    more6.rule_alloc_range(mod, rep, floor=40, sel=lambda f: f.name in ("sp_colorder", "get_perm_c", "sp_coletree", "sp_symetree", "getata", "at_plus_a", "get_colamd", "get_metis", "qrnzcnt", "cholnzcnt", "TreePostorder", "heap_relax_snode", "pxgstrf_relax_snode") or (f.file or "").endswith(("colamd.c", "mmd.c", "sp_coletree.c", "sp_colorder.c", "get_perm_c.c")))
    more6.rule_etree_scan(mod, rep)
    more6.rule_order_step(mod, rep)
