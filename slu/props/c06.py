"""C06 - singular matrices reported through info (structural clauses, DESIGN.md §4 C06)."""
from ..rules import pivot, driver


def run(ctx, rep):
    mod = ctx.mod
    pivot.rule_O8_candidate_guard(mod, rep)
    pivot.rule_pivot_return_shape(mod, rep)
    pivot.rule_min_tracking(mod, rep)
    sing = lambda kw: kw["finfo"] == "SING"
    driver.rule_expert_table(mod, rep, "C06", partition_filter=sing, rule="X-SING")
    driver.rule_simple_table(mod, rep, {"gstrs", "B-store"}, rule="S-SING")
    from ..rules import more
    more.rule_sing_init(mod, rep)
    more.rule_lsub_request(mod, rep)
    more.rule_pivot_found(mod, rep)
    from ..rules import threads
    threads.rule_T3_owner_exit(mod, rep)      # a worker leaves only on a memory code: 0 < column code <= n must be recorded and reported, not treated as fatal
    from ..rules import more
    more.rule_snode_continue(mod, rep)
    from ..rules import more3
    more3.rule_snode_shape(mod, rep)
    from ..rules import more5
    more5.rule_inverse_fill(mod, rep)
