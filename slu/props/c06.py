"""C06 - singular matrices reported through info (structural clauses, DESIGN.md §4 C06)."""
from ..rules import pivot


def run(ctx, rep):
    mod = ctx.mod
    pivot.rule_O8_candidate_guard(mod, rep)
    pivot.rule_pivot_return_shape(mod, rep)
