"""C18 - no hidden state carry-over (DESIGN.md §4 C18)."""
from ..rules import state, misc, cond
from ..util import fam


def run(ctx, rep):
    mod = ctx.mod
    state.rule_state(mod, rep)
    misc.rule_expanders_free_null(mod, rep)
    for pat in ("?gscon", "?gsrfs"):
        for prec, f in fam(mod, pat):
            cond._kase_zeroed(mod, rep, f, "KASE0")
    rep.rule("KASE0", "every caller of ?lacon_ stores kase := 0 before the loop containing the call (start of a fresh reverse-communication run)", floor=8)
    from ..rules import more3
    more3.rule_work_zero(mod, rep)
    more3.rule_cursor_reset(mod, rep)
    from ..rules import more4
    more4.rule_setup_space(mod, rep)
    from ..rules import more4
    more4.rule_int_work_fill(mod, rep)
    from ..rules import more5
    more5.rule_info_init(ctx.mod, rep)
    from ..rules import more6
    more6.rule_options_init(mod, rep)
