"""C01 - simple driver solves A*X=B (structural clauses, DESIGN.md §4 C01)."""
from ..rules import driver, lock


def run(ctx, rep):
    mod = ctx.mod
    driver.rule_simple_table(mod, rep, {"gstrs", "gstrf_init", "gstrf", "finalize", "create_AA", "A-store", "B-store"})
    lock.rule_L3_new_supernode_atomic(mod, rep)
