"""C01 - simple driver solves A*X=B (structural clauses, DESIGN.md §4 C01)."""
from ..rules import driver, lock


def run(ctx, rep):
    mod = ctx.mod
    driver.rule_simple_table(mod, rep, {"gstrs", "gstrf_init", "gstrf", "finalize", "create_AA", "A-store", "B-store"})
    lock.rule_L3_new_supernode_atomic(mod, rep)
    from ..rules import misc, sync
    misc.rule_dense_stride(mod, rep)
    sync.rule_O1_release_after_pivot(mod, rep)
    sync.rule_O3_busy_skip(mod, rep)
    sync.rule_O4_spin_before_busy_update(mod, rep)
    sync.rule_O4c_fresh_rep(mod, rep)
    sync.rule_O9_supernode_extension(mod, rep)
    sync.rule_O9b_relaxed_marking(mod, rep)
    from ..rules import more
    more.rule_kernel_columns(mod, rep)
    more.rule_release_after(mod, rep)
    import re
    from ..rules import more2
    more2.rule_arg_names(mod, rep, lambda f: re.match(r"p[sdcz]gssv$|p[sdcz]gstrf", f.name) is not None, floor=1)
    from ..rules import more3
    more3.rule_kernel_base(mod, rep)
    from ..rules import more4
    more4.rule_complex_nonzero(mod, rep)
    more4.rule_row_block(mod, rep)
    from ..rules import more4
    more4.rule_marker_kind(mod, rep)
    from ..rules import more4
    more4.rule_panel_column(mod, rep)
    more4.rule_segment_scan(mod, rep)
    from ..rules import more5
    more5.rule_snode_tests(mod, rep)
    more5.rule_row_cursor(mod, rep)
    from ..rules import more6 as _m6c
    _m6c.rule_prune_split(mod, rep)
    _m6c.rule_dfs_busy(mod, rep)
