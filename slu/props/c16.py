"""C16 - symmetric mode with diagonal pivoting (structural clauses, DESIGN.md §4 C16)."""
from ..rules import pivot


def run(ctx, rep):
    mod = ctx.mod
    pivot.rule_pivot_policy(mod, rep)
    pivot.rule_inverse_perms(mod, rep)
    from ..rules import order
    order.rule_colorder_table(mod, rep)
    from ..rules import more
    more.rule_preset_joined(mod, rep)
    more.rule_snode_continue(mod, rep)
    from ..rules import more3
    more3.rule_threshold_forward(mod, rep)
    more3.rule_etree_mustwrite(mod, rep)
    from ..rules import more4
    more4.rule_panel_column(mod, rep)
    more4.rule_segment_scan(mod, rep)
    more.rule_kernel_columns(mod, rep)   # symmetric mode runs the same update kernels: C01/C02 are part of C16's statement
    from ..rules import more5
    more5.rule_transpose(mod, rep)
    from ..rules import more6 as _m6
    _m6.rule_pivot_column(mod, rep)
    from ..rules import more6 as _m6b
    _m6b.rule_snode_boundary(mod, rep)
    from ..rules import more3 as _m3
    _m3.rule_prune_guard(mod, rep)
    _m6b.rule_etree_scan(mod, rep, names=("sp_symetree",), floor=2)
