"""C11 - equilibration (DESIGN.md §4 C11)."""
from ..rules import driver, equil


def run(ctx, rep):
    mod = ctx.mod
    equil.rule_laqgs_table(mod, rep)
    equil.rule_gsequ_codes(mod, rep)
    equil.rule_gsequ_clip(mod, rep)
    driver.rule_expert_table(mod, rep, "C11")
