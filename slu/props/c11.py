"""C11 - equilibration (DESIGN.md §4 C11)."""
from ..rules import driver, equil


def run(ctx, rep):
    mod = ctx.mod
    equil.rule_laqgs_table(mod, rep)
    equil.rule_gsequ_codes(mod, rep)
    equil.rule_gsequ_clip(mod, rep)
    driver.rule_expert_table(mod, rep, "C11")
    import re
    from ..rules import more2
    more2.rule_arg_names(mod, rep, lambda f: re.match(r"p[sdcz]gssvx$|[sdcz]laqgs$|[sdcz]gsequ$", f.name) is not None, floor=1)
    from ..rules import misc
    misc.rule_dense_stride(mod, rep, patterns=("p?gssvx",))
    from ..rules import more3
    more3.rule_minmax_scan(mod, rep)
    from ..rules import more6
    import re as _re
    more6.rule_precision_family(mod, rep, floor=20, sel=lambda f: _re.search(r"laqgs|gsequ|gssvx|lamch", f.name) is not None)
    more6.rule_equed_last(mod, rep)
