"""C03 - no column is consumed before it is final (structural clauses, DESIGN.md §4 C03)."""
from ..util import *
from ..ir import strip_casts, fmt_path, cond_of_branch
from ..rules import sync, lock


def run(ctx, rep):
    mod = ctx.mod
    sync.rule_O1_release_after_pivot(mod, rep)
    sync.rule_O2_done_after_release(mod, rep)
    sync.rule_O3_busy_skip(mod, rep)
    sync.rule_O4_spin_before_busy_update(mod, rep)
    sync.rule_O4c_fresh_rep(mod, rep)
    sync.rule_O5_volatile(mod, rep)
    sync.rule_O9b_relaxed_marking(mod, rep)
    sync.rule_O9_supernode_extension(mod, rep)
    sync.rule_state_enum(mod, rep)
    sync.rule_O6_prune_dfs(mod, rep)
    lock.rule_L1_pairing(mod, rep, ctx.config)
    lock.rule_L2_guarded_by(mod, rep, ctx.config)
    sync.rule_sched_table(mod, rep)
    from ..rules import more
    more.rule_release_after(mod, rep)
    import re
    from ..rules import more2
    more2.rule_arg_names(mod, rep, lambda f: re.match(r"p[sdcz]gstrf|pxgstrf", f.name) is not None, floor=1)
    from ..rules import more3
    more3.rule_prune_guard(mod, rep)
    more3.rule_queue_order(mod, rep)
    from ..rules import more4
    more4.rule_busy_fnz(mod, rep)
    more4.rule_int_work_fill(mod, rep)
    more4.rule_complex_nonzero(mod, rep)
    from ..rules import more5
    more5.rule_busy_walk(mod, rep)
    more5.rule_supno_done(mod, rep)
    from ..rules import more6
    more6.rule_fb_fresh(mod, rep)
    from ..rules import more6 as _m6c
    _m6c.rule_prune_split(mod, rep)
    _m6c.rule_dfs_busy(mod, rep)
