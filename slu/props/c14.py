"""C14 - workspace modes and allocation failure (structural clauses, DESIGN.md §4 C14)."""
from ..rules import nullchk, driver, lock, alloc, memmode
from .. import entry


def run(ctx, rep):
    mod = ctx.mod
    nullchk.rule_null_checks(mod, rep, entry.entry_points(mod))
    driver.rule_expert_table(mod, rep, "C14", rule="X-MEM")
    memmode.rule_query_mode(mod, rep)
    memmode.rule_stack_guard(mod, rep)
    memmode.rule_stack_relative(mod, rep)
    alloc.rule_O7_bound_before_bump(mod, rep)
    lock.rule_L1_pairing(mod, rep, ctx.config)
    from ..rules import misc
    misc.rule_expanders_free_null(mod, rep)
    from ..rules import more
    more.rule_meminit_refact(mod, rep)
    from ..rules import more2
    more2.rule_stack_pop(mod, rep)
    import re
    from ..rules import more2
    more2.rule_arg_names(mod, rep, lambda f: re.match(r"p[sdcz]gstrf_MemInit|p[sdcz]gstrf_expand|p[sdcz]gstrf_WorkInit|p[sdcz]gstrf_thread_init|p[sdcz]gssvx$|p[sdcz]gstrf$", f.name) is not None, floor=1)
    from ..rules import more3
    more3.rule_work_zero(mod, rep)
    from ..rules import more4
    more4.rule_setup_space(mod, rep)
    more4.rule_workfreeall_order(mod, rep)
    from ..rules import more4
    more4.rule_int_work_fill(mod, rep)
    from ..rules import more5
    more5.rule_align_dir(mod, rep)
    from ..rules import state
    state.rule_state(mod, rep)          # memory-mode switch: SetupSpace stores the mode it is given (a stale USER mode places "malloc" factors in an earlier caller's buffer)
