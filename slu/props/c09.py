"""C09 - well-formed L, U, permutations (structural clauses, DESIGN.md §4 C09)."""
from ..rules import lock


def run(ctx, rep):
    mod = ctx.mod
    lock.rule_L3_new_supernode_atomic(mod, rep)
    from ..rules import misc
    misc.rule_usepr_shared(mod, rep)
    misc.rule_refact_refresh(mod, rep)
    from ..rules import alloc, more
    alloc.rule_O7_bound_before_bump(mod, rep)          # extents stay inside their arrays: every cursor bump is checked against its own limit
    more.rule_super_bnd_test(mod, rep)
    more.rule_meminit_refact(mod, rep)
    from ..rules import more3
    more3.rule_fixup_snapshot(mod, rep)
    from ..rules import more4
    more4.rule_nsuper_from_n(mod, rep)
    more4.rule_slot_rectangle(mod, rep)
    from ..rules import more4
    more4.rule_extent_pairs(mod, rep)
    from ..rules import more5
    more5.rule_sched_busy(mod, rep)
    more5.rule_supno_done(mod, rep)
    from ..rules import lock as _lock
    _lock.rule_L2_guarded_by(mod, rep, ctx.config)   # supernode numbers and the U/L storage cursors define the returned structures: every access is inside its critical section
