"""C08 - refactorization and factor reuse (structural clauses, DESIGN.md §4 C08)."""
from ..rules import driver, order, ext, misc, pivot


def run(ctx, rep):
    mod = ctx.mod
    driver.rule_factored_readonly(mod, rep)
    fac = lambda kw: kw["fact"] == "FACTORED"
    driver.rule_expert_table(mod, rep, "C08", partition_filter=fac, rule="X-FACTORED")
    order.rule_colorder_table(mod, rep)
    ext.rule_bind_export_import(mod, rep)
    misc.rule_refact_refresh(mod, rep)
    misc.rule_usepr_shared(mod, rep)
    pivot.rule_pivot_policy(mod, rep)
    pivot.rule_pivrow_consistent(mod, rep)
    pivot.rule_inverse_perms(mod, rep)
    misc.rule_expanders_free_null(mod, rep)
    from ..rules import more
    more.rule_options_perm(mod, rep)
    more.rule_meminit_refact(mod, rep)
    more.rule_pivot_found(mod, rep)
    from ..rules import more3
    more3.rule_cursor_reset(mod, rep)
    from ..rules import state
    state.rule_state(mod, rep)          # a call history must not be visible through static-duration state
    # a factorizing call leaves no trace of the previous call in its outputs: *equed is (re)set on every DOFACT / EQUILIBRATE path
    driver.rule_expert_table(mod, rep, "C08", partition_filter=lambda kw: kw["fact"] != "FACTORED", classes={"equed:="}, rule="X-EQUED")
    from ..rules import more4
    more4.rule_setup_space(mod, rep)
    from ..rules import more4 as _m4
    _m4.rule_workfreeall_order(mod, rep)      # refactorizations keep the user-stack counters: the tail release must be exact over any call history
    from ..rules import more6 as _m6
    _m6.rule_pivot_column(mod, rep)
