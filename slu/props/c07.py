"""C07 - expert driver for every trans/storage/equil option (DESIGN.md §4 C07)."""
from ..rules import driver, args, cond


def run(ctx, rep):
    mod = ctx.mod
    driver.rule_expert_table(mod, rep, "C07")
    driver.rule_expert_conj_rowwise(mod, rep)
    args.rule_forwarded_trans(mod, rep)
    cond.rule_refine_budget(mod, rep)
    cond.rule_refine_fresh(mod, rep)
    from ..rules import misc
    misc.rule_dense_stride(mod, rep)
    import re
    from ..rules import more2
    more2.rule_arg_names(mod, rep, lambda f: re.match(r"p[sdcz]gssvx$|[sdcz]gstrs$|[sdcz]gsrfs$|[sdcz]laqgs$|[sdcz]gsequ$", f.name) is not None, floor=1)
    from ..rules import equil
    equil.rule_laqgs_table(mod, rep)          # the driver's B/X scaling decisions rest on the equed that ?laqgs reports
    from ..rules import more3
    more3.rule_cursor_step(mod, rep)
    from ..rules import more4
    more4.rule_row_block(mod, rep)
    from ..rules import more5
    more5.rule_gstrs_perm(mod, rep)
    from ..rules import misc
    misc.rule_refact_refresh(mod, rep)   # refact = YES is one of the option combinations of the expert driver
    from ..rules import driver as _drv
    _drv.rule_expert_order_cond(mod, rep)     # info = n+1 is a warning: the solve and the refinement are not skipped for it
    from ..rules import more6
    more6.rule_snode_ld(mod, rep)
