"""C07 - expert driver for every trans/storage/equil option (DESIGN.md §4 C07)."""
from ..rules import driver, args, cond


def run(ctx, rep):
    mod = ctx.mod
    driver.rule_expert_table(mod, rep, "C07")
    driver.rule_expert_conj_rowwise(mod, rep)
    args.rule_forwarded_trans(mod, rep)
    cond.rule_refine_budget(mod, rep)
    cond.rule_refine_fresh(mod, rep)
    from ..rules import misc
    misc.rule_dense_stride(mod, rep)
