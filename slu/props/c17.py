"""C17 - no resource leaks (DESIGN.md §4 C17)."""
from ..rules import res, threads
from .. import entry


def run(ctx, rep):
    mod = ctx.mod
    res.rule_no_leaks(mod, rep, entry.entry_points(mod))
    res.rule_failed_constructor_cleanup(mod, rep)
    threads.rule_T1_create_join(mod, rep, ctx.config)
    from ..rules import more2
    more2.rule_workinit_failure(mod, rep)
    from ..rules import more3
    more3.rule_create_only_first(mod, rep)
    from ..rules import more4
    more4.rule_workfreeall_order(mod, rep)
    from ..rules import more6
    more6.rule_free_mode(mod, rep)
