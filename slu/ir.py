"""In-memory model of the JSON fact base written by sa/irdump, plus the common
substrate of the rule engines: CFG at instruction granularity, dominators,
reachability with removed sites, access paths ("roots"), call graph,
no-return and constant-return summaries (FEAS).
"""
import json, re, collections

PRECS = "sdcz"


class Inst(object):
    __slots__ = ("i", "op", "ty", "ops", "ln", "fl", "fn", "bb", "pos", "callee", "pred", "vol",
                 "gep", "dn", "inb", "tgt", "cases", "default", "aty", "fp")

    def __init__(self, d, fn, bb, pos):
        self.i = d["i"]; self.op = d["op"]; self.ty = d["ty"]; self.ops = d.get("ops", [])
        self.ln = d.get("ln", 0); self.fl = d.get("fl"); self.fn = fn; self.bb = bb; self.pos = pos
        self.callee = d.get("callee"); self.pred = d.get("pred"); self.vol = d.get("vol", False)
        self.gep = d.get("gep"); self.dn = d.get("dn"); self.inb = d.get("inb"); self.tgt = d.get("tgt")
        self.cases = d.get("cases"); self.default = d.get("default"); self.aty = d.get("aty"); self.fp = d.get("fp")

    @property
    def loc(self):
        f = self.fl or self.fn.file or "?"
        return "%s:%d" % (f.replace("/repo/", ""), self.ln)

    def __repr__(self):
        return "<%s %s#%d %s@%s>" % (self.fn.name, self.op, self.i, self.callee or "", self.loc)


class Block(object):
    __slots__ = ("id", "insts", "succ", "pred")

    def __init__(self, id):
        self.id = id; self.insts = []; self.succ = []; self.pred = []


class Func(object):
    def __init__(self, d, mod):
        self.mod = mod
        self.name = d["name"]; self.internal = d["internal"]; self.ret = d["ret"]
        self.file = d.get("file", ""); self.line = d.get("line", 0)
        self.params = d["params"]
        self.blocks = []
        self.inst = {}
        for b in d["blocks"]:
            blk = Block(b["id"])
            for pos, idd in enumerate(b["insts"]):
                ins = Inst(idd, self, blk, pos)
                blk.insts.append(ins)
                self.inst[ins.i] = ins
            blk.succ = list(b["succ"])
            self.blocks.append(blk)
        for b in self.blocks:
            b.succ = [self.blocks[s] for s in b.succ]
        for b in self.blocks:
            for s in b.succ:
                s.pred.append(b)
        self._dom = None
        self._pdom = None
        self._paths = {}
        self._uses = None
        # C parameter position (1-based) of every LLVM argument: a by-value complex is coerced to two doubles / one <2 x float>
        self.cpos = []
        pos = 0; k = 0; n = len(self.params)
        while k < n:
            pos += 1
            pk = self.params[k]
            if pk["name"] == "" and pk["ty"] == "double" and k + 1 < n and self.params[k + 1]["name"] == "" and self.params[k + 1]["ty"] == "double":
                self.cpos += [pos, pos]; k += 2
            else:
                self.cpos.append(pos); k += 1

    def pname(self, k):
        return self.params[k]["name"] if k < len(self.params) else "?"

    def pindex(self, name):
        for k, p in enumerate(self.params):
            if p["name"] == name:
                return k
        return None

    def otype(self, o):
        """LLVM type string of an operand (None if unknown)"""
        if o[0] == "v":
            return self.inst[o[1]].ty
        if o[0] == "a":
            return self.params[o[1]]["ty"] if o[1] < len(self.params) else None
        if o[0] in ("g", "s", "fn", "null"):
            return "ptr*"
        if o[0] == "ce":
            return "ptr*"
        return None

    def is_ptr(self, o):
        t = self.otype(o)
        return t is not None and t.endswith("*")

    def insts(self):
        for b in self.blocks:
            for i in b.insts:
                yield i

    def calls(self, callee=None):
        for i in self.insts():
            if i.op == "call" and (callee is None or i.callee == callee or (isinstance(callee, (set, frozenset, tuple, list)) and i.callee in callee)):
                yield i

    def rets(self):
        return [i for i in self.insts() if i.op == "ret"]

    @property
    def uses(self):
        if self._uses is None:
            u = collections.defaultdict(list)
            for i in self.insts():
                for o in all_operands(i):
                    if o[0] == "v":
                        u[o[1]].append(i)
            self._uses = u
        return self._uses

    # ---------------------------------------------------------------- CFG
    def next_insts(self, ins, dead_edges=None):
        """instruction-level successors; paths end at calls to no-return functions"""
        if ins.op == "call" and ins.callee in self.mod.noreturn:
            return []
        if ins.op == "unreachable":
            return []
        b = ins.bb
        if ins.pos + 1 < len(b.insts):
            return [b.insts[ins.pos + 1]]
        out = []
        for s in b.succ:
            if dead_edges and (b.id, s.id) in dead_edges:
                continue
            out.append(s.insts[0])
        return out

    def reach(self, starts, stop=None, dead_edges=None, include_start=False):
        """set of instruction ids reachable from the instructions *after* each start
        (or including it), not passing through instructions for which stop(ins)."""
        seen = set()
        work = []
        for s in starts:
            if include_start:
                work.append(s)
            else:
                work.extend(self.next_insts(s, dead_edges))
        while work:
            x = work.pop()
            if x.i in seen:
                continue
            seen.add(x.i)
            if stop is not None and stop(x):
                continue
            work.extend(self.next_insts(x, dead_edges))
        return seen

    def entry(self):
        return self.blocks[0].insts[0]

    def dom(self):
        """block-level immediate dominators: dict block id -> set of dominator ids"""
        if self._dom is None:
            self._dom = _dominators(self.blocks, self.blocks[0], lambda b: b.pred, lambda b: b.succ)
        return self._dom

    def dominates(self, a, b):
        """instruction a dominates instruction b (a executes before b on every path)"""
        if a.bb is b.bb:
            return a.pos <= b.pos
        return a.bb.id in self.dom()[b.bb.id]

    def pdom(self):
        """post-dominator sets per block id (virtual exit = every block without successors)"""
        if self._pdom is None:
            class V(object):
                pass
            exitb = V(); exitb.id = -1
            exits = [b for b in self.blocks if not b.succ]
            preds = {b.id: list(b.succ) for b in self.blocks}
            for b in exits:
                preds[b.id] = [exitb]
            preds[-1] = []
            succs = {b.id: list(b.pred) for b in self.blocks}
            succs[-1] = exits
            allb = list(self.blocks) + [exitb]
            self._pdom = _dominators(allb, exitb, lambda b: preds[b.id], lambda b: succs[b.id])
        return self._pdom

    def control_deps(self):
        """dict block id -> set of (branch block id, successor id): the edges the block is immediately control dependent on"""
        if getattr(self, "_cd", None) is None:
            pd = self.pdom()
            cd = {b.id: set() for b in self.blocks}
            for a in self.blocks:
                if len(a.succ) < 2:
                    continue
                for s in a.succ:
                    # nodes that post-dominate s but do not strictly post-dominate a
                    for x in self.blocks:
                        if x.id in pd[s.id] and not (x.id in pd[a.id] and x.id != a.id):
                            cd[x.id].add((a.id, s.id))
            self._cd = cd
        return self._cd

    def loops(self):
        """natural loops: list of (header block id, set of body block ids)"""
        dom = self.dom()
        out = {}
        for b in self.blocks:
            for s in b.succ:
                if s.id in dom[b.id]:
                    body = out.setdefault(s.id, set([s.id]))
                    work = [b.id]
                    while work:
                        x = work.pop()
                        if x in body:
                            continue
                        body.add(x)
                        for p in self.blocks[x].pred:
                            work.append(p.id)
        return sorted(out.items())

    # ------------------------------------------------------- access paths
    def paths(self, operand, depth=0):
        """Set of access paths of a value. A path is a tuple (base, step, ...).
        base: ('A',k) argument | ('G',name) global address | ('L',id) alloca address |
        ('C',callee,id) call result | ('K',c) int constant | ('N',) null | ('?',desc).
        steps: ('f',struct,field) | ('i',) index | ('*',) load.
        Pointer phi cycles (p = phi(base, p + k)) are solved as a least fixpoint."""
        key = _okey(operand)
        if key in self._paths:
            return self._paths[key]
        if not hasattr(self, "_inprog"):
            self._inprog = set(); self._hitcycle = False
        if key in self._inprog:
            self._hitcycle = True
            return frozenset()
        self._inprog.add(key)
        outer_flag = self._hitcycle
        self._hitcycle = False
        r = self._paths_uncached(operand, depth)
        if len(r) > 24:
            r = frozenset(list(sorted(r, key=repr))[:24]) | frozenset([(("?", "many"),)])
        self._inprog.discard(key)
        if not self._hitcycle or not self._inprog:
            # complete (no open cycle below us, or we are the outermost frame)
            self._paths[key] = r
        self._hitcycle = self._hitcycle or outer_flag
        if not self._inprog:
            self._hitcycle = False
        return r

    def _paths_uncached(self, o, depth):
        k = o[0]
        if k == "a":
            return frozenset([(("A", o[1]),)])
        if k == "g":
            return frozenset([(("G", o[1]),)])
        if k == "s":
            return frozenset([(("S", o[1]),)])
        if k == "c":
            return frozenset([(("K", o[1]),)])
        if k == "null":
            return frozenset([(("N",),)])
        if k == "fn":
            return frozenset([(("F", o[1]),)])
        if k == "ce":
            body = o[2]
            if "gep" in body:
                base = self.paths(body["base"], depth + 1)
                return frozenset(_gep_extend(p, body["gep"]) for p in base)
            if body.get("ops"):
                return self.paths(body["ops"][0], depth + 1)
            return frozenset([(("?", "ce"),)])
        if k != "v":
            return frozenset([(("?", k),)])
        ins = self.inst[o[1]]
        op = ins.op
        if op == "alloca":
            return frozenset([(("L", ins.i),)])
        if op in ("bitcast", "addrspacecast", "inttoptr", "ptrtoint"):
            return self.paths(ins.ops[0], depth + 1)
        if op == "getelementptr":
            base = self.paths(ins.ops[0], depth + 1)
            return frozenset(_gep_extend(p, ins.gep) for p in base)
        if op == "load":
            base = self.paths(ins.ops[0], depth + 1)
            return frozenset(p + (("*",),) for p in base)
        if op == "phi" or op == "select":
            out = set()
            ops = ins.ops if op == "phi" else ins.ops[1:]
            for x in ops:
                if x[0] == "undef":
                    continue
                out |= self.paths(x, depth + 1)
            return frozenset(out)
        if op == "call":
            return frozenset([(("C", ins.callee or "", ins.i),)])
        if op in ("sext", "zext", "trunc"):
            return self.paths(ins.ops[0], depth + 1)
        return frozenset([(("?", op, ins.i),)])

    def addr_paths(self, ins):
        """paths of the address operand of a load/store"""
        if ins.op == "load":
            return self.paths(ins.ops[0])
        if ins.op == "store":
            return self.paths(ins.ops[1])
        return frozenset()


def _okey(o):
    if o[0] == "ce":
        return ("ce", json.dumps(o, sort_keys=True))
    return tuple(o[:2]) if len(o) > 1 else (o[0],)


def _gep_extend(p, gep):
    out = list(p)
    for n, st in enumerate(gep):
        if st["k"] == "fld":
            out.append(("f", st["s"], st["n"]))
        else:
            v = st["v"]
            if n == 0 and v[0] == "c" and v[1] == 0:
                continue
            if out and out[-1] == ("i",):
                continue    # &a[i][j] on a flat array: one element step
            out.append(("i",))
    return tuple(out)


def all_operands(ins):
    for o in ins.ops:
        yield o
    if ins.gep:
        for st in ins.gep:
            if st["k"] == "idx":
                yield st["v"]


def fmt_path(p, fn=None):
    s = ""
    b = p[0]
    if b[0] == "A":
        s = (fn.pname(b[1]) if fn is not None else "arg%d" % b[1])
    elif b[0] == "G":
        s = "&" + b[1]
    elif b[0] == "L":
        nm = None
        if fn is not None and b[1] in fn.inst:
            nm = fn.inst[b[1]].dn
        s = "&" + (nm or "local%d" % b[1])
    elif b[0] == "C":
        s = "%s()#%d" % (b[1], b[2])
    elif b[0] == "K":
        s = str(b[1])
    elif b[0] == "N":
        s = "NULL"
    elif b[0] == "S":
        s = json.dumps(b[1])
    else:
        s = "?" + ":".join(str(x) for x in b[1:])
    for st in p[1:]:
        if st[0] == "f":
            s += ".%s" % st[2]
        elif st[0] == "i":
            s += "[]"
        else:
            s = "*(" + s + ")" if False else s + "^"
    return s


def path_has_field(p, field, struct=None):
    for st in p[1:]:
        if st[0] == "f" and st[2] == field and (struct is None or st[1] == struct):
            return True
    return False


def last_field(p):
    """the last field step of the path, ignoring trailing index/deref"""
    for st in reversed(p[1:]):
        if st[0] == "f":
            return st
    return None


def _dominators(blocks, entry, preds, succs):
    ids = [b.id for b in blocks]
    allset = set(ids)
    dom = {b.id: set(allset) for b in blocks}
    dom[entry.id] = {entry.id}
    # reachable order
    order = []
    seen = set()
    st = [entry]
    while st:
        b = st.pop()
        if b.id in seen:
            continue
        seen.add(b.id)
        order.append(b)
        st.extend(succs(b))
    changed = True
    while changed:
        changed = False
        for b in order:
            if b is entry:
                continue
            ps = [p for p in preds(b) if p.id in seen]
            if not ps:
                continue
            new = set.intersection(*[dom[p.id] for p in ps]) | {b.id}
            if new != dom[b.id]:
                dom[b.id] = new
                changed = True
    for b in blocks:
        if b.id not in seen:
            dom[b.id] = {b.id}
    return dom


class Module(object):
    def __init__(self, path):
        d = json.load(open(path))
        self.enums = d["enums"]
        self.enumtypes = {e["name"]: e["members"] for e in d.get("enumtypes", [])}
        self.globals = {g["name"]: g for g in d["globals"]}
        self.decls = set(d["decls"])
        self.structs = d["structs"]
        self.noreturn = set(["exit", "abort", "_exit", "__assert_fail"])
        self.funcs = {}
        for fd in d["functions"]:
            f = Func(fd, self)
            self.funcs[f.name] = f
        self._compute_noreturn()
        self.callers = collections.defaultdict(list)   # callee -> [call inst]
        self.indirect_calls = []
        for f in self.funcs.values():
            for i in f.insts():
                if i.op == "call":
                    if i.callee:
                        self.callers[i.callee].append(i)
                    elif i.fp is not None and i.fp[0] != "asm":
                        self.indirect_calls.append(i)
        self.constret = {}
        self._compute_constret()

    def n_insts(self):
        return sum(len(f.inst) for f in self.funcs.values())

    def _compute_noreturn(self):
        changed = True
        while changed:
            changed = False
            for f in self.funcs.values():
                if f.name in self.noreturn:
                    continue
                r = f.reach([f.entry()], include_start=True)
                if not any(f.inst[i].op == "ret" for i in r):
                    self.noreturn.add(f.name)
                    changed = True

    def _compute_constret(self):
        """functions all of whose feasible rets return the same integer constant"""
        changed = True
        rounds = 0
        while changed and rounds < 6:
            changed = False
            rounds += 1
            for f in self.funcs.values():
                if f.name in self.constret or f.ret == "void" or f.name in self.noreturn:
                    continue
                dead = dead_edges(f)
                live = f.reach([f.entry()], include_start=True, dead_edges=dead)
                vals = set()
                for r in f.rets():
                    if r.i not in live or not r.ops:
                        continue
                    vals.add(self._const_of(f, r.ops[0], dead, live))
                if len(vals) == 1 and None not in vals:
                    self.constret[f.name] = list(vals)[0]
                    changed = True

    def _const_of(self, f, o, dead, live, depth=0):
        if o[0] == "c":
            return o[1]
        if o[0] != "v" or depth > 6:
            return None
        ins = f.inst[o[1]]
        if ins.op == "call" and ins.callee in self.constret:
            return self.constret[ins.callee]
        if ins.op == "phi":
            vals = set()
            for x, b in zip(ins.ops, ins.inb):
                pb = f.blocks[b]
                if pb.insts[-1].i not in live:
                    continue
                if dead and (b, ins.bb.id) in dead:
                    continue
                vals.add(self._const_of(f, x, dead, live, depth + 1))
            if len(vals) == 1:
                return list(vals)[0]
            return None
        if ins.op in ("sext", "zext", "trunc"):
            return self._const_of(f, ins.ops[0], dead, live, depth + 1)
        return None

    def transitive_callees(self, roots, stop=()):
        seen = set()
        work = list(roots)
        while work:
            n = work.pop()
            if n in seen or n in stop:
                continue
            seen.add(n)
            f = self.funcs.get(n)
            if not f:
                continue
            for i in f.insts():
                if i.op == "call" and i.callee:
                    work.append(i.callee)
                    if i.callee == "pthread_create" and len(i.ops) > 2 and i.ops[2][0] == "fn":
                        work.append(i.ops[2][1])
                for o in i.ops:
                    if o[0] == "fn" and i.op == "call" and i.callee in ("__kmpc_fork_call",):
                        work.append(o[1])
                    if o[0] == "ce" and i.op == "call" and i.callee in ("__kmpc_fork_call", "pthread_create"):
                        for x in o[2].get("ops", []):
                            if x[0] == "fn":
                                work.append(x[1])
        return seen

    def family(self, pattern):
        """expand '?' in a name to the four precisions, keeping existing functions"""
        return [pattern.replace("?", p) for p in PRECS if pattern.replace("?", p) in self.funcs]


def dead_edges(f):
    """FEAS: CFG edges that cannot be taken because the branch condition is an
    integer comparison of constants / constant-return call results."""
    mod = f.mod
    dead = set()
    for b in f.blocks:
        t = b.insts[-1]
        if t.op == "br" and t.ops:
            c = _cond_const(f, t.ops[0])
            if c is not None:
                # tgt[0] is the true successor
                dead.add((b.id, t.tgt[1] if c else t.tgt[0]))
                if t.tgt[0] == t.tgt[1]:
                    dead.discard((b.id, t.tgt[0]))
        elif t.op == "switch":
            v = _int_const(f, t.ops[0])
            if v is not None:
                taken = t.default
                for cv, tb in t.cases:
                    if cv == v:
                        taken = tb
                for s in b.succ:
                    if s.id != taken:
                        dead.add((b.id, s.id))
    return dead


def _int_const(f, o, depth=0):
    if o[0] == "c":
        return o[1]
    if o[0] != "v" or depth > 6:
        return None
    ins = f.inst[o[1]]
    if ins.op == "call" and ins.callee in f.mod.constret:
        return f.mod.constret[ins.callee]
    if ins.op in ("sext", "zext", "trunc"):
        return _int_const(f, ins.ops[0], depth + 1)
    if ins.op == "phi":
        vals = set(_int_const(f, x, depth + 1) for x in ins.ops)
        if len(vals) == 1:
            return list(vals)[0]
    if ins.op == "load":
        # `*p = g(...); if (*p != 0)`: the value just stored through the same address, nothing in between in the block
        addr = strip_casts(f, ins.ops[0])
        blk = ins.bb.insts
        k = blk.index(ins) - 1
        while k >= 0:
            x = blk[k]
            if x.op == "store":
                if strip_casts(f, x.ops[1]) == addr:
                    return _int_const(f, x.ops[0], depth + 1)
                return None
            if x.op == "call" and not (x.callee or "").startswith("llvm.dbg"):
                return None
            k -= 1
    return None


def _cond_const(f, o, depth=0):
    if o[0] == "c":
        return bool(o[1])
    if o[0] != "v" or depth > 6:
        return None
    ins = f.inst[o[1]]
    if ins.op == "icmp":
        a = _int_const(f, ins.ops[0]); b = _int_const(f, ins.ops[1])
        if a is None or b is None:
            return None
        return {"eq": a == b, "ne": a != b, "slt": a < b, "sle": a <= b, "sgt": a > b, "sge": a >= b,
                "ult": a < b, "ule": a <= b, "ugt": a > b, "uge": a >= b}.get(ins.pred)
    return None


def cond_of_branch(f, blk):
    t = blk.insts[-1]
    if t.op == "br" and t.ops and t.ops[0][0] == "v":
        return f.inst[t.ops[0][1]]
    return None


def strip_casts(f, o):
    while o[0] == "v":
        ins = f.inst[o[1]]
        if ins.op in ("sext", "zext", "trunc", "bitcast", "fpext", "fptrunc"):
            o = ins.ops[0]
        else:
            break
    return o


def expr_loads(f, o, limit=200):
    """all load instructions in the expression tree of value o (through arithmetic,
    casts, phis, selects; not through calls)"""
    out = []
    seen = set()
    work = [o]
    while work and len(seen) < limit:
        x = work.pop()
        if x[0] != "v" or x[1] in seen:
            continue
        seen.add(x[1])
        ins = f.inst[x[1]]
        if ins.op == "load":
            out.append(ins)
            continue
        if ins.op == "alloca" or (ins.op == "call" and not (ins.callee or "").startswith(("llvm.fmuladd", "llvm.fabs", "llvm.sqrt", "llvm.fma"))):
            continue
        for y in all_operands(ins):
            work.append(y)
    return out


def expr_insts(f, o, through_loads=False, through_calls=False, limit=400):
    """instructions in the backward data-dependence slice of value o"""
    seen = {}
    work = [o]
    while work and len(seen) < limit:
        x = work.pop()
        if x[0] != "v" or x[1] in seen:
            continue
        ins = f.inst[x[1]]
        seen[x[1]] = ins
        if ins.op == "load" and not through_loads:
            continue
        if ins.op == "call" and not through_calls and not (ins.callee or "").startswith(("llvm.fmuladd", "llvm.fabs", "llvm.sqrt", "llvm.fma")):
            continue
        if ins.op == "alloca":
            continue
        for y in all_operands(ins):
            work.append(y)
    return list(seen.values())
