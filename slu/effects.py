"""EFF engine: bottom-up, parameter-rooted may-write summaries.

W(f) is a set of write descriptors:
  ("A", k, suffix)   a store whose address is parameter k followed by `suffix` (field / index / deref steps)
  ("G", name, suffix) a store into a global
  ("?",)             a store through a pointer the analysis cannot root
suffix may end in ("**",) = "anything below".  Calls are translated through the actual arguments;
pthread_create(…, start, arg) is a call of start(arg).  Externals: table below, default = may write
through every pointer argument.
"""
from .ir import fmt_path

MAXLEN = 7

# external callees: indices of pointer arguments they may write through (everything else read-only)
EXT_WRITES = {
    "lsame_": [], "printf": [], "fprintf": [], "fflush": [], "puts": [], "putchar": [], "fputs": [], "fputc": [], "exit": [], "abort": [],
    "strlen": [], "strcmp": [], "strncmp": [], "atoi": [], "atof": [], "getenv": [], "fabs": [], "sqrt": [], "log": [], "exp": [], "pow": [],
    "free": [], "malloc": [], "calloc": [], "fopen": [], "fclose": [], "times": [0], "gettimeofday": [0, 1], "sysconf": [],
    "pthread_mutex_lock": [], "pthread_mutex_unlock": [], "pthread_mutex_init": [0], "pthread_mutex_destroy": [0], "pthread_join": [1],
    "sprintf": [0], "sscanf": None, "fscanf": None, "fgets": [0], "strcpy": [0], "strncpy": [0], "memcpy": [0], "memset": [0],
    "llvm.memcpy.p0i8.p0i8.i64": [0], "llvm.memset.p0i8.i64": [0], "llvm.memmove.p0i8.p0i8.i64": [0],
    # BLAS (Fortran interface): output operand positions
    "strsv_": [6], "dtrsv_": [6], "ctrsv_": [6], "ztrsv_": [6],
    "sgemv_": [9], "dgemv_": [9], "cgemv_": [9], "zgemv_": [9],
    "strsm_": [9], "dtrsm_": [9], "ctrsm_": [9], "ztrsm_": [9],
    "sgemm_": [11], "dgemm_": [11], "cgemm_": [11], "zgemm_": [11],
    "scopy_": [3], "dcopy_": [3], "ccopy_": [3], "zcopy_": [3], "saxpy_": [4], "daxpy_": [4], "caxpy_": [4], "zaxpy_": [4],
    "sscal_": [2], "dscal_": [2], "cscal_": [2], "zscal_": [2], "sasum_": [], "dasum_": [], "scasum_": [], "dzasum_": [],
    "isamax_": [], "idamax_": [], "icamax_": [], "izamax_": [], "snrm2_": [], "dnrm2_": [], "scnrm2_": [], "dznrm2_": [],
    "__kmpc_global_thread_num": [], "__kmpc_critical": [], "__kmpc_end_critical": [], "omp_get_thread_num": [],
    "__isoc99_sscanf": None, "__isoc99_fscanf": None, "fread": [0], "getc": [], "ungetc": [], "feof": [], "__ctype_b_loc": [], "toupper": [], "tolower": [],
}


def _trunc(suf):
    if len(suf) > MAXLEN:
        return tuple(suf[:MAXLEN]) + (("**",),)
    return tuple(suf)


def _cat(a, b):
    if a and a[-1] == ("**",):
        return _trunc(a)
    out = list(a)
    for s in b:
        if s == ("i",) and out and out[-1] == ("i",):
            continue
        out.append(s)
    return _trunc(tuple(out))


class Effects(object):
    def __init__(self, mod):
        self.mod = mod
        self.W = {}
        self.direct = {}
        self._compute()

    def _direct(self, f):
        out = set()
        for i in f.insts():
            if i.op != "store":
                continue
            for p in f.addr_paths(i):
                b = p[0]
                if b[0] == "A":
                    out.add(("A", b[1], _trunc(p[1:])))
                elif b[0] == "G":
                    out.add(("G", b[1], _trunc(p[1:])))
                elif b[0] in ("L", "C", "S", "K", "N", "F"):
                    # stores through pointers loaded from locals / fresh allocations: invisible to the caller
                    # unless the path passes through a load of a parameter-rooted cell (then base would be A)
                    continue
                else:
                    out.add(("?",))
        return out

    def _translate(self, f, call, callee_W, argmap=None):
        out = set()
        for w in callee_W:
            if w[0] == "G" or w[0] == "?":
                out.add(w)
                continue
            k, suf = w[1], w[2]
            if argmap is not None:
                if k not in argmap:
                    continue
                ao = argmap[k]
            else:
                if k >= len(call.ops):
                    continue
                ao = call.ops[k]
            for p in f.paths(ao):
                b = p[0]
                if b[0] == "A":
                    out.add(("A", b[1], _cat(p[1:], suf)))
                elif b[0] == "G":
                    out.add(("G", b[1], _cat(p[1:], suf)))
                elif b[0] in ("L", "C", "S", "K", "N", "F"):
                    continue
                else:
                    out.add(("?",))
        return out

    def ext_writes(self, f, call):
        name = call.callee or ""
        tab = EXT_WRITES.get(name, "default")
        out = set()
        idxs = None
        if tab == "default" or tab is None:
            idxs = range(len(call.ops))
        else:
            idxs = tab
        for k in idxs:
            if k >= len(call.ops):
                continue
            o = call.ops[k]
            if o[0] not in ("v", "a", "g", "ce") or not f.is_ptr(o):
                continue
            for p in f.paths(o):
                b = p[0]
                if b[0] == "A":
                    out.add(("A", b[1], _cat(p[1:], (("**",),))))
                elif b[0] == "G":
                    out.add(("G", b[1], _cat(p[1:], (("**",),))))
        return out

    def _compute(self):
        mod = self.mod
        for f in mod.funcs.values():
            self.direct[f.name] = self._direct(f)
            self.W[f.name] = set(self.direct[f.name])
        changed = True
        rounds = 0
        while changed and rounds < 30:
            changed = False
            rounds += 1
            for f in mod.funcs.values():
                cur = self.W[f.name]
                n0 = len(cur)
                for c in f.insts():
                    if c.op != "call" or not c.callee:
                        continue
                    if c.callee.startswith("llvm.dbg") or c.callee.startswith("llvm.lifetime"):
                        continue
                    if c.callee in mod.funcs:
                        cur |= self._translate(f, c, self.W[c.callee])
                    elif c.callee == "pthread_create" and len(c.ops) > 3 and c.ops[2][0] == "fn" and c.ops[2][1] in mod.funcs:
                        cur |= self._translate(f, c, self.W[c.ops[2][1]], argmap={0: c.ops[3]})
                        cur |= self.ext_writes(f, c) if False else set()
                    else:
                        cur |= self.ext_writes(f, c)
                if len(cur) != n0:
                    changed = True
        self.rounds = rounds

    def writes_via_arg(self, callee, k):
        """suffixes the callee may write below its parameter k; None if it has unknown ('?') writes"""
        return [w[2] for w in self.W.get(callee, ()) if w[0] == "A" and w[1] == k]

    def fmt(self, f, w):
        if w[0] == "A":
            return fmt_path((("A", w[1]),) + tuple(s for s in w[2] if s != ("**",)), f) + ("/**" if w[2] and w[2][-1] == ("**",) else "")
        if w[0] == "G":
            return "&" + w[1] + fmt_path((("K", ""),) + tuple(s for s in w[2] if s != ("**",)))
        return "?"


_cache = {}


def get(mod):
    if id(mod) not in _cache:
        _cache[id(mod)] = Effects(mod)
    return _cache[id(mod)]
