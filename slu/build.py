"""Build /repo's SRC/*.c (current working tree) into one LLVM-14 module and dump
the JSON fact base consumed by the rule engines.

Nothing here executes library code: clang -emit-llvm, llvm-link, opt mem2reg,
then /verif/sa/irdump.  A content-addressed cache under /verif/.cache keeps the
19 checks of one run from compiling the library 19 times; the key covers every
SRC/*.c, SRC/*.h and the flag set, so a hit is exactly what a rebuild gives.
"""
import hashlib, json, os, shutil, subprocess, sys, tempfile, glob
from concurrent.futures import ThreadPoolExecutor

VERIF = os.path.dirname(os.path.dirname(os.path.abspath(__file__)))
REPO = os.environ.get("SLU_REPO", "/repo")
CACHE = os.path.join(os.environ.get("SLU_OUT", VERIF), ".cache")   # scratch runs (mutation self-tests) keep their own cache
IRDUMP = os.path.join(VERIF, "sa", "irdump")

CONFIGS = {
    # name: (extra defines replacing the platform define, extra clang flags)
    "pthread": (["-D__PTHREAD"], []),
    "openmp": (["-D__OPENMP"], ["-fopenmp"]),
    "pthread-long": (["-D__PTHREAD", "-D_LONGINT"], []),
    "openmp-long": (["-D__OPENMP", "-D_LONGINT"], ["-fopenmp"]),
    "pthread-noblas": (["-D__PTHREAD"], []),
    "openmp-noblas": (["-D__OPENMP"], ["-fopenmp"]),
    "pthread-long-noblas": (["-D__PTHREAD", "-D_LONGINT"], []),
    "openmp-long-noblas": (["-D__OPENMP", "-D_LONGINT"], ["-fopenmp"]),
}


class BuildError(Exception):
    pass


def base_flags(repo=REPO):
    """-D/-I/-std flags of the superlu_mt_PTHREAD target from the ninja compile
    database; reconstructed from SRC/CMakeLists.txt's rules if _build is absent."""
    flags = None
    bdir = os.path.join(repo, "_build")
    if os.path.exists(os.path.join(bdir, "build.ninja")):
        try:
            out = subprocess.run(["ninja", "-C", bdir, "-t", "compdb"], capture_output=True, text=True, timeout=60).stdout
            for e in json.loads(out):
                if "/SRC/" in e.get("file", "") and e.get("command"):
                    toks = e["command"].split()
                    flags = [t for t in toks if t.startswith("-D") or t.startswith("-I") or t.startswith("-std")]
                    flags = [t for t in flags if t != "-DNDEBUG"]
                    break
        except Exception:
            flags = None
    if not flags:
        flags = ["-DAdd_", "-D__PTHREAD", "-I%s/SRC" % repo, "-DUSE_VENDOR_BLAS", "-std=gnu99"]
    # the include dir must follow the repo we analyse
    flags = [("-I%s/SRC" % repo) if t.startswith("-I") and t.endswith("/SRC") else t for t in flags]
    return flags


def config_flags(config, repo=REPO):
    fl = base_flags(repo)
    plat, extra = CONFIGS[config]
    fl = [t for t in fl if t not in ("-D__PTHREAD", "-D__OPENMP", "-D_LONGINT")]
    if config.endswith("noblas"):
        fl = [t for t in fl if t != "-DUSE_VENDOR_BLAS"]
    return fl + plat + extra


def sources(repo=REPO):
    return sorted(glob.glob(os.path.join(repo, "SRC", "*.c")))


def tree_key(config, repo=REPO):
    h = hashlib.sha256()
    h.update(("cfg:" + config + ":" + " ".join(config_flags(config, repo))).encode())
    for p in sorted(glob.glob(os.path.join(repo, "SRC", "*.[ch]"))):
        h.update(os.path.basename(p).encode())
        with open(p, "rb") as f:
            h.update(hashlib.sha256(f.read()).digest())
    with open(IRDUMP, "rb") as f:
        h.update(hashlib.sha256(f.read()).digest())
    return h.hexdigest()[:24]


def build(config="pthread", repo=REPO, use_cache=True, keep_bc=False):
    """Returns (path to facts json, info dict)."""
    if not os.path.exists(IRDUMP):
        raise BuildError("irdump not built: run /verif/setup.sh")
    key = tree_key(config, repo)
    os.makedirs(CACHE, exist_ok=True)
    out = os.path.join(CACHE, "facts-%s-%s.json" % (config, key))
    meta = out + ".meta"
    if use_cache and os.path.exists(out) and os.path.exists(meta):
        info = json.load(open(meta))
        info["cache_hit"] = True
        return out, info
    flags = config_flags(config, repo)
    srcs = sources(repo)
    tmp = tempfile.mkdtemp(prefix="slumt-ir-")
    try:
        def cc(src):
            o = os.path.join(tmp, os.path.basename(src)[:-2] + ".bc")
            cmd = ["clang-14", "-O0", "-Xclang", "-disable-O0-optnone", "-g", "-w"] + flags + ["-emit-llvm", "-c", src, "-o", o]
            r = subprocess.run(cmd, capture_output=True, text=True)
            return src, o, r.returncode, r.stderr
        with ThreadPoolExecutor(max_workers=16) as ex:
            res = list(ex.map(cc, srcs))
        bad = [(s, e) for s, o, rc, e in res if rc != 0]
        if bad:
            raise BuildError("compile failed: " + "; ".join("%s: %s" % (s, e.strip().splitlines()[0] if e.strip() else "?") for s, e in bad[:5]))
        linked = os.path.join(tmp, "all.bc")
        r = subprocess.run(["llvm-link-14"] + [o for _, o, _, _ in res] + ["-o", linked], capture_output=True, text=True)
        if r.returncode != 0:
            raise BuildError("llvm-link failed: " + r.stderr[:500])
        m2r = os.path.join(tmp, "all.m2r.bc")
        r = subprocess.run(["opt-14", "-passes=mem2reg", linked, "-o", m2r], capture_output=True, text=True)
        if r.returncode != 0:
            raise BuildError("opt failed: " + r.stderr[:500])
        tmpout = out + ".tmp%d" % os.getpid()
        r = subprocess.run([IRDUMP, m2r, tmpout], capture_output=True, text=True)
        if r.returncode != 0:
            raise BuildError("irdump failed: " + r.stderr[:500])
        os.replace(tmpout, out)
        info = {"config": config, "flags": flags, "units": len(srcs), "key": key, "cache_hit": False}
        json.dump(info, open(meta, "w"))
        # prune old cache entries for this config
        for p in glob.glob(os.path.join(CACHE, "facts-%s-*.json" % config)):
            if p != out:
                for q in (p, p + ".meta"):
                    try:
                        os.remove(q)
                    except OSError:
                        pass
        return out, info
    finally:
        shutil.rmtree(tmp, ignore_errors=True)


def build_snippet(src):
    """Facts for one self-contained C file (positive examples of zero-instance rules), same pipeline, cached by content."""
    h = hashlib.sha256(open(src, "rb").read())
    with open(IRDUMP, "rb") as f:
        h.update(hashlib.sha256(f.read()).digest())
    os.makedirs(CACHE, exist_ok=True)
    out = os.path.join(CACHE, "snip-%s-%s.json" % (os.path.basename(src)[:-2], h.hexdigest()[:16]))
    if os.path.exists(out):
        return out
    tmp = tempfile.mkdtemp(prefix="slumt-snip-")
    try:
        bc = os.path.join(tmp, "s.bc"); m2r = os.path.join(tmp, "s.m2r.bc")
        for cmd in (["clang-14", "-O0", "-Xclang", "-disable-O0-optnone", "-g", "-w", "-emit-llvm", "-c", src, "-o", bc],
                    ["opt-14", "-passes=mem2reg", bc, "-o", m2r], [IRDUMP, m2r, out + ".tmp%d" % os.getpid()]):
            r = subprocess.run(cmd, capture_output=True, text=True)
            if r.returncode != 0:
                raise BuildError("snippet %s: %s" % (src, r.stderr[:300]))
        os.replace(out + ".tmp%d" % os.getpid(), out)
        return out
    finally:
        shutil.rmtree(tmp, ignore_errors=True)


PROMOTE = os.path.join(VERIF, "sa", "promote")


def build_units(names, config="pthread", repo=REPO, promote=True):
    """Facts for a few SRC units compiled with the configuration's flags; with promote=True function-scope statics that are provably written before read
    (sa/promote: every load dominated by a store in the same function) become SSA registers, so the loop engines see the induction variables of f2c code."""
    flags = config_flags(config, repo)
    srcs = [os.path.join(repo, "SRC", n) for n in names]
    for sp in srcs:
        if not os.path.exists(sp):
            raise BuildError("unit %s not found" % sp)
    if promote and not os.path.exists(PROMOTE):
        raise BuildError("sa/promote not built: run /verif/setup.sh")
    h = hashlib.sha256((config + " ".join(flags) + str(promote)).encode())
    for sp in srcs:
        h.update(open(sp, "rb").read())
    for tool in (IRDUMP, PROMOTE):
        if os.path.exists(tool):
            with open(tool, "rb") as f:
                h.update(hashlib.sha256(f.read()).digest())
    os.makedirs(CACHE, exist_ok=True)
    out = os.path.join(CACHE, "units-%s-%s.json" % (config, h.hexdigest()[:20]))
    if os.path.exists(out):
        return out
    tmp = tempfile.mkdtemp(prefix="slumt-units-")
    try:
        bcs = []
        for sp in srcs:
            o = os.path.join(tmp, os.path.basename(sp)[:-2] + ".bc")
            r = subprocess.run(["clang-14", "-O0", "-Xclang", "-disable-O0-optnone", "-g", "-w"] + flags + ["-emit-llvm", "-c", sp, "-o", o], capture_output=True, text=True)
            if r.returncode != 0:
                raise BuildError("compile failed: %s: %s" % (sp, r.stderr[:300]))
            bcs.append(o)
        linked = os.path.join(tmp, "u.bc"); m2r = os.path.join(tmp, "u.m2r.bc"); pr = os.path.join(tmp, "u.pr.bc")
        steps = [["llvm-link-14"] + bcs + ["-o", linked], ["opt-14", "-passes=mem2reg", linked, "-o", m2r]]
        last = m2r
        if promote:
            steps.append([PROMOTE, m2r, pr]); last = pr
        steps.append([IRDUMP, last, out + ".tmp%d" % os.getpid()])
        for cmd in steps:
            r = subprocess.run(cmd, capture_output=True, text=True)
            if r.returncode != 0:
                raise BuildError("units: %s: %s" % (cmd[0], r.stderr[:300]))
        os.replace(out + ".tmp%d" % os.getpid(), out)
        return out
    finally:
        shutil.rmtree(tmp, ignore_errors=True)


if __name__ == "__main__":
    cfg = sys.argv[1] if len(sys.argv) > 1 else "pthread"
    p, info = build(cfg, use_cache="--no-cache" not in sys.argv)
    print(p, info)
