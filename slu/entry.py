"""Public entry points (DESIGN.md Appendix C): scope of RES, STATE, EFF roots."""
PATTERNS = ["p?gssv", "p?gssvx", "p?gstrf", "p?gstrf_init", "pxgstrf_finalize", "?gstrs", "?gsrfs", "?gscon", "?gsequ", "?laqgs", "?langs", "?PivotGrowth",
            "sp_?trsv", "sp_?gemv", "sp_?gemm", "get_perm_c", "sp_colorder", "sp_coletree", "sp_symetree", "StatAlloc", "StatInit", "StatFree", "PrintStat",
            "?Create_CompCol_Matrix", "?Create_CompRow_Matrix", "?Create_Dense_Matrix", "?Create_SuperNode_Matrix", "?Create_SuperNode_Permuted",
            "?Create_CompCol_Permuted", "?Copy_CompCol_Matrix", "?Copy_Dense_Matrix", "Destroy_SuperMatrix_Store", "Destroy_CompCol_Matrix", "Destroy_CompRow_Matrix",
            "Destroy_SuperNode_Matrix", "Destroy_CompCol_Permuted", "Destroy_CompCol_NCP", "Destroy_SuperNode_SCP", "Destroy_Dense_Matrix",
            "?CompRow_to_CompCol", "?readhb", "?readrb", "?readmt", "?allocateA", "superlu_?QuerySpace", "sp_ienv"]


def entry_points(mod):
    out = []
    for p in PATTERNS:
        if "?" in p:
            for c in "sdcz":
                n = p.replace("?", c)
                if n in mod.funcs:
                    out.append(n)
        elif p in mod.funcs:
            out.append(p)
    return out
