"""ARG engine (C15) and forwarded-enum acceptance (C07)."""
import itertools
from ..util import *
from ..ir import fmt_path, strip_casts, all_operands
from ..absint import TOP, Partition, Interp

PROLOGUES = ["p?gssv", "p?gssvx", "?gstrs", "?gsrfs", "?gscon", "?gsequ", "sp_?trsv", "sp_?gemv"]
PURE_IN_PROLOGUE = {"lsame_", "slamch_", "dlamch_"}

# documented outputs that may be written before the checks end: (function pattern, predicate description)
PRE_CHECK_STORE_EXCEPTIONS = {
    "p?gssvx": ["equed", "superlumt_options.perm_c", "superlumt_options.perm_r"],
}


def _info_cell(f):
    k = f.pindex("info")
    if k is not None and f.params[k]["ty"].endswith("*"):
        return frozenset([(("A", k),)])
    # local info (sp_?gemv): the alloca whose address is passed to xerbla_
    for c in f.calls("xerbla_"):
        return f.paths(c.ops[1])
    return None


def _dep_params(f, o, limit=600):
    """parameter indices in the backward data-dependence closure of operand o (through loads' addresses, phis, pure calls)"""
    seen = set()
    out = set()
    work = [o]
    while work and len(seen) < limit:
        x = work.pop()
        if x[0] == "a":
            out.add(x[1]); continue
        if x[0] != "v" or x[1] in seen:
            continue
        seen.add(x[1])
        ins = f.inst[x[1]]
        if ins.op == "alloca":
            # local variable: find stores to it
            for s in f.insts():
                if s.op == "store" and s.ops[1][0] == "v" and s.ops[1][1] == ins.i:
                    work.append(s.ops[0])
            continue
        for y in all_operands(ins):
            work.append(y)
    return out


def analyse_prologue(mod, f):
    cell = _info_cell(f)
    if not cell:
        return None
    xer = list(f.calls("xerbla_"))
    if not xer:
        return None
    X = xer[0]
    # test block: predecessor of the xerbla block (possibly through the block computing i = -info)
    tb = None
    b = X.bb
    hops = 0
    while hops < 4:
        preds = b.pred
        if len(preds) != 1:
            break
        p = preds[0]
        t = p.insts[-1]
        if t.op == "br" and len(t.tgt) == 2:
            tb = p
            break
        b = p
        hops += 1
    if tb is None:
        return None
    stop_i = tb.insts[-1].i
    region = f.reach([f.entry()], stop=lambda x: x.i == stop_i, include_start=True)
    region.discard(stop_i)
    code_stores = []
    for i in sorted(region):
        ins = f.inst[i]
        if ins.op == "store" and f.addr_paths(ins) == cell and ins.ops[0][0] == "c" and ins.ops[0][1] != 0:
            code_stores.append(ins)
    return {"cell": cell, "xerbla": X, "test_block": tb, "region": region, "codes": code_stores}


def rule_prologues(mod, rep):
    rep.rule("ARG", "for each of the 32 argument-check prologues (p?gssv, p?gssvx, ?gstrs, ?gsrfs, ?gscon, ?gsequ, sp_?trsv, sp_?gemv): (1) no call except lsame_/?lamch_ and no "
             "store except to locals, *info and documented outputs before the accumulated code is tested; (2) each code -i (or +i for the sp_?gemv local idiom) is stored under "
             "conditions that depend on parameter i, codes ascend in program order; (3) on failure xerbla_ receives the routine name and i, and the routine returns "
             "immediately", floor=120)
    for pat in PROLOGUES:
        for prec, f in fam(mod, pat):
            rep.scope([f.name])
            P = analyse_prologue(mod, f)
            if P is None:
                rep.brk("ANALYSIS-BROKEN ARG: prologue of %s not recognised" % f.name)
                continue
            cell = P["cell"]
            # (1) purity
            exc = [x for x in PRE_CHECK_STORE_EXCEPTIONS.get(pat, [])]
            bad = []
            for i in sorted(P["region"]):
                ins = f.inst[i]
                if ins.op == "call":
                    c = ins.callee or ""
                    if c.startswith("llvm.") or c in PURE_IN_PROLOGUE:
                        continue
                    bad.append((ins, "call to %s before the argument checks end" % c))
                elif ins.op == "store":
                    ps = f.addr_paths(ins)
                    if ps == cell:
                        continue
                    if all(p[0][0] == "L" for p in ps):
                        continue
                    txt = fmt_paths(f, ps)
                    if any(("{" + e + "}") == txt for e in exc):
                        continue
                    bad.append((ins, "store to %s before the argument checks end" % txt))
            rep.check(not bad, "ARG", "%s#purity" % f.name, "no side effect before the accumulated code is tested (%d instructions)" % len(P["region"]),
                      "; ".join("%s @%s" % (w, i.loc) for i, w in bad[:4]), bad[0][0].loc if bad else f.file, f.name)
            # (2) code <-> parameter
            cd = f.control_deps()
            prev = 0
            for S in P["codes"]:
                code = S.ops[0][1]
                pos = abs(code)
                key = "%s#code%d" % (f.name, code)
                why = []
                deps = cd.get(S.bb.id, set())
                if not deps:
                    why.append("unconditional store of an error code")
                conds = []
                for (bid, sid) in deps:
                    t = f.blocks[bid].insts[-1]
                    if t.op == "br" and t.ops:
                        conds.append(t.ops[0])
                want = [k for k in range(len(f.params)) if f.cpos[k] == pos]
                wname = f.pname(want[0]) if want else "?"
                for c in conds:
                    dp = _dep_params(f, c)
                    if not (set(want) & dp):
                        why.append("code %d is stored under a condition on parameter(s) %s, not on parameter %d (%s)" % (
                            code, sorted("%d:%s" % (f.cpos[k], f.pname(k)) for k in dp), pos, wname))
                if pos <= prev:
                    why.append("codes do not ascend (%d after %d)" % (pos, prev))
                prev = max(prev, pos)
                if not want:
                    why.append("code %d exceeds the parameter count" % code)
                rep.check(not why, "ARG", key, "code %d guarded by conditions on parameter %d (%s)" % (code, pos, wname),
                          "; ".join(sorted(set(why))), S.loc, f.name)
            # (3) report and leave
            X = P["xerbla"]
            why = []
            nm = X.ops[0][1] if X.ops[0][0] == "s" else None
            if not nm or nm.strip().lower() != f.name.lower():
                why.append("xerbla_ receives the name %r, not %r" % (nm, f.name))
            iv = f.paths(X.ops[1])
            neg = False
            for s in f.insts():
                if s.op == "store" and f.addr_paths(s) == iv and f.dominates(s, X):
                    v = strip_casts(f, s.ops[0])
                    if v[0] == "v" and f.inst[v[1]].op == "sub" and is_const(f.inst[v[1]].ops[0], 0):
                        ld = strip_casts(f, f.inst[v[1]].ops[1])
                        if ld[0] == "v" and f.inst[ld[1]].op == "load" and f.addr_paths(f.inst[ld[1]]) == cell:
                            neg = True
            if iv == cell:
                neg = True    # sp_?gemv passes the positive local code directly
            if not neg:
                why.append("the value handed to xerbla_ is not -(*info)")
            r = f.reach([X])
            after = [f.inst[x] for x in r]
            if any(i.op == "call" and not (i.callee or "").startswith("llvm.") for i in after) or any(i.op == "store" and not all(p[0][0] == "L" for p in f.addr_paths(i)) for i in after):
                why.append("work continues after xerbla_ (call or non-local store before return)")
            if not any(i.op == "ret" for i in after):
                why.append("no return after xerbla_")
            # the failing edge: branch on (load cell) != 0
            t = P["test_block"].insts[-1]
            C = f.inst[t.ops[0][1]] if t.ops and t.ops[0][0] == "v" else None
            okc = False
            if C is not None and C.op == "icmp" and C.pred in ("ne", "eq") and any(is_const(o, 0) for o in C.ops):
                l = [strip_casts(f, o) for o in C.ops if not is_const(o, 0)]
                if l and l[0][0] == "v" and f.inst[l[0][1]].op == "load" and f.addr_paths(f.inst[l[0][1]]) == cell:
                    okc = True
            if not okc:
                why.append("the accumulated code is not tested against 0")
            rep.check(not why, "ARG", "%s#report" % f.name, "xerbla_(name, -info) then immediate return", "; ".join(why), X.loc, f.name)


# ------------------------------------------------------------------ forwarded enum acceptance

class _AccPart(Partition):
    def cmp(self, interp, pred, a, b):
        return None


def accepted_trans(mod, f, kind):
    """set of trans values (enum names or chars) the prologue of f lets through"""
    P = analyse_prologue(mod, f)
    e = mod.enums
    acc = set()
    if kind == "enum":
        k = f.pindex("trans")
        for name in ("NOTRANS", "TRANS", "CONJ"):
            part = _AccPart(trans=name)
            part.args[k] = ("c", e[name])
            it = Interp(mod, f, part)
            it.run()
            rejected = any(S.bb.id in it.reached_blocks and abs(S.ops[0][1]) == f.cpos[k] for S in P["codes"])
            if not rejected:
                acc.add(name)
    else:
        k = f.pindex("trans")
        for ch in "NTC":
            part = _AccPart(trans=ch)
            part.cells[(("A", k),)] = ("c", ord(ch))
            it = Interp(mod, f, part)
            it.run()
            rejected = any(S.bb.id in it.reached_blocks and abs(S.ops[0][1]) == f.cpos[k] for S in P["codes"])
            if not rejected:
                acc.add(ch)
    return acc


def rule_forwarded_trans(mod, rep):
    rep.rule("FWD", "every transpose value a routine's own prologue lets through and forwards (as enum or as BLAS character) is accepted by the callee's prologue: "
             "p?gssvx -> ?gstrs, ?gsrfs; ?gsrfs -> ?gstrs, sp_?gemv; ?gstrs -> sp_?trsv; ?gscon -> sp_?trsv", floor=20)
    e = mod.enums
    ename = {e[n]: n for n in ("NOTRANS", "TRANS", "CONJ")}
    from . import driver
    for prec in "sdcz":
        acc = {}
        for nm, kind in (("%sgstrs" % prec, "enum"), ("%sgsrfs" % prec, "enum"), ("sp_%strsv" % prec, "chr"), ("sp_%sgemv" % prec, "chr")):
            if nm in mod.funcs:
                acc[nm] = accepted_trans(mod, mod.funcs[nm], kind)
        rep.stats["FWD.accepted.%s" % prec] = {k: sorted(v) for k, v in acc.items()}
        # p?gssvx -> gstrs, gsrfs
        f, rows = driver.x_table(mod, prec)
        fw = {"%sgstrs" % prec: {}, "%sgsrfs" % prec: {}}
        for part, it, got in rows:
            for a in got:
                if a[0] == "gstrs" and isinstance(a[1], int):
                    fw["%sgstrs" % prec].setdefault(ename.get(a[1], a[1]), part.kw)
                if a[0] == "gsrfs" and isinstance(a[1], int):
                    fw["%sgsrfs" % prec].setdefault(ename.get(a[1], a[1]), part.kw)
        for callee, vals in fw.items():
            for v, kw in sorted(vals.items(), key=repr):
                rep.check(v in acc.get(callee, ()), "FWD", "p%sgssvx->%s#%s" % (prec, callee, v), "%s accepts %s" % (callee, v),
                          "p%sgssvx forwards trans=%s to %s whose prologue rejects it (driver then returns info=0 with X = copy of B); first partition: %s/%s" % (prec, v, callee, kw["Stype"], kw["trans"]),
                          mod.funcs[callee].file, "p%sgssvx" % prec)
        # ?gsrfs -> gstrs / gemv ; ?gstrs -> trsv : interpret with each accepted trans
        for caller, kindc in (("%sgsrfs" % prec, "enum"), ("%sgstrs" % prec, "enum")):
            g = mod.funcs.get(caller)
            if g is None:
                continue
            k = g.pindex("trans")
            atoms = {"%sgstrs" % prec: {"name": "%sgstrs" % prec, "args": [("val", 0)]},
                     "sp_%sgemv" % prec: {"name": "sp_%sgemv" % prec, "args": [("chr", 0)]},
                     "sp_%strsv" % prec: {"name": "sp_%strsv" % prec, "args": [("chr", 1)]}}
            for name in sorted(acc.get(caller, ())):
                part = _AccPart(trans=name)
                part.args[k] = ("c", e[name])
                it = Interp(mod, g, part, atoms=atoms)
                it.run()
                for i, a in it.events:
                    if a[0] not in atoms or a[0] == caller:
                        continue
                    v = a[1]
                    if isinstance(v, int):
                        v = ename.get(v, v)
                    elif isinstance(v, str):
                        v = v[:1].upper()
                    rep.check(v in acc.get(a[0], ()), "FWD", "%s(%s)->%s#%s" % (caller, name, a[0], v), "%s accepts %s" % (a[0], v),
                              "%s called with trans=%s forwards %s to %s, whose prologue rejects it" % (caller, name, v, a[0]), i.loc, caller)
        g = mod.funcs.get("%sgscon" % prec)
        if g is not None:
            for c in g.calls("sp_%strsv" % prec):
                ch = c.ops[1][1][:1].upper() if c.ops[1][0] == "s" else "?"
                rep.check(ch in acc.get("sp_%strsv" % prec, ()), "FWD", "%sgscon->sp_%strsv#%s@%d" % (prec, prec, ch, c.ln), "sp_%strsv accepts %s" % (prec, ch),
                          "%sgscon passes '%s' which sp_%strsv rejects" % (prec, ch, prec), c.loc, g.name)
