"""C14: workspace-query mode (lwork = -1) tables and the user-stack guard (O7')."""
import itertools
from ..util import *
from ..ir import fmt_path, strip_casts, expr_insts, expr_loads
from ..absint import TOP, Partition, Interp


class QPart(Partition):
    def __init__(self, mod, f, lwork, refact, callee_fail=None):
        Partition.__init__(self, lwork=lwork, refact=refact)
        e = mod.enums
        ko = f.pindex("superlumt_options")
        if ko is None:
            ko = f.pindex("options")
        self.cells[(("A", ko), ("f", "superlumt_options_t", "lwork"))] = ("c", lwork)
        self.cells[(("A", ko), ("f", "superlumt_options_t", "refact"))] = ("c", e[refact])
        self.callee_fail = callee_fail

    def stub(self, interp, ins, args, state):
        cal = ins.callee or ""
        if self.callee_fail and cal == self.callee_fail[0]:
            k = self.callee_fail[1]
            a = args[k]
            w = {}
            if a and a[0] == "p":
                w[a[1]] = ("s", "QUERY") if self.kw["lwork"] == -1 else TOP
            return {"ret": TOP, "writes": w, "havoc": []}
        return None

    def cmp(self, interp, pred, a, b):
        for x, y, pr in ((a, b, pred), (b, a, pred)):
            if x[0] == "s" and x[1] == "QUERY" and y == ("c", 0):
                return {"eq": False, "ne": True, "sgt": True, "slt": False}.get(pr)
        return None


def rule_query_mode(mod, rep):
    rep.rule("QUERY", "workspace query (options->lwork == -1): p?gstrf_MemInit returns its estimate before any allocation (no intMalloc, ?user_malloc, p?gstrf_expand, "
             "no store into Glu) for refact NO and YES; p?gstrf_thread_init forwards a non-zero MemInit result through *info and returns NULL; p?gstrf then creates no "
             "thread and does not call p?gstrf_thread_finalize", floor=16)
    rep.exhaustive = True
    for prec in "sdcz":
        f = mod.funcs.get("p%sgstrf_MemInit" % prec)
        if f:
            rep.scope([f.name])
            kG = f.pindex("Glu")
            atoms = {"intMalloc": {"name": "alloc", "args": []}, "%suser_malloc" % prec: {"name": "alloc", "args": []},
                     "p%sgstrf_expand" % prec: {"name": "alloc", "args": []}, "p%sgstrf_SetupSpace" % prec: {"name": "setup", "args": []}}

            def pred_glu(it, ins, path, v, kG=kG):
                if path and path[0] == ("A", kG):
                    return (fmt_path(path, it.f),)
            for refact in ("NO", "YES"):
                part = QPart(mod, f, -1, refact)
                it = Interp(mod, f, part, atoms=atoms, store_atoms=[("Glu:=", pred_glu)])
                it.run()
                got = set(a for a in it.atoms if a[0] in ("alloc", "Glu:=", "setup"))
                nz = all(r is not None and r != ("c", 0) and r != ("f", 0.0) for r in it.rets)
                sites = [i.loc for i, a in it.events if a in got]
                rep.check(not got and nz, "QUERY", "%s#lwork=-1,refact=%s" % (f.name, refact), "returns the estimate; nothing allocated, Glu untouched",
                          "a workspace query reaches %s (or may return 0)" % sorted(got, key=repr)[:4], sites[0] if sites else f.file, f.name)
        g = mod.funcs.get("p%sgstrf_thread_init" % prec)
        if g:
            rep.scope([g.name])
            ki = g.pindex("info")
            mi = list(g.calls("p%sgstrf_MemInit" % prec))
            ok = False
            for c in mi:
                # *info := (int) MemInit(...)
                for s in g.insts():
                    if s.op == "store" and (("A", ki),) in g.addr_paths(s) and any(x.i == c.i for x in expr_insts(g, s.ops[0], through_calls=False) + [g.inst[s.ops[0][1]]] if s.ops[0][0] == "v"):
                        # and a return of NULL on the non-zero edge
                        ok = True
            nulls = [r for r in g.rets()]
            rep.check(ok, "QUERY", "%s#forwards" % g.name, "*info := p?gstrf_MemInit(...) and NULL is returned when it is non-zero",
                      "the result of p?gstrf_MemInit does not reach *info", mi[0].loc if mi else g.file, g.name)
        h = mod.funcs.get("p%sgstrf" % prec)
        if h:
            rep.scope([h.name])
            atoms = {"pthread_create": {"name": "pthread_create", "args": []}, "__kmpc_fork_call": {"name": "pthread_create", "args": []},
                     "p%sgstrf_thread_finalize" % prec: {"name": "finalize", "args": []}, "p%sgstrf_thread" % prec: {"name": "pthread_create", "args": []}}
            # thread creation moved into a static helper of p?gstrf: the call of that helper is the creation event
            from .ext import _owned_helpers
            for (hh_, call_, g_) in _owned_helpers(mod, h):
                if any((c_.callee or "") in ("pthread_create", "__kmpc_fork_call") for c_ in hh_.calls()):
                    atoms[hh_.name] = {"name": "pthread_create", "args": []}
            part = QPart(mod, h, -1, "NO", callee_fail=("p%sgstrf_thread_init" % prec, 6))
            it = Interp(mod, h, part, atoms=atoms)
            it.run()
            got = set(a for a in it.atoms if a[0] in ("pthread_create", "finalize"))
            rep.check(not got, "QUERY", "%s#lwork=-1" % h.name, "no thread is created on a workspace query", "a workspace query reaches %s" % sorted(got), h.file, h.name)
            part = QPart(mod, h, 0, "NO", callee_fail=("p%sgstrf_thread_init" % prec, 6))
            it = Interp(mod, h, part, atoms=atoms)
            it.run()
            got = set(a[0] for a in it.atoms if a[0] in ("pthread_create", "finalize"))
            rep.check(got == {"pthread_create", "finalize"}, "QUERY", "%s#lwork=0" % h.name, "a factorization creates threads and finalizes",
                      "with lwork = 0 the routine reaches only %s" % sorted(got), h.file, h.name)


def rule_stack_guard(mod, rep):
    rep.rule("O7'", "?user_malloc: the bumps of stack.top1 / stack.top2 / stack.used by the requested amount are dominated by the not-full edge of "
             "StackFull(bytes) = (bytes + stack.used >= stack.size) on the same amount, inside the stack lock (alignment adjustments of <= 7 bytes in p?gstrf_expand and "
             "p?gstrf_WorkInit are listed as notes, not armed)", floor=12)
    for prec, f in fam(mod, "?user_malloc"):
        rep.scope([f.name])
        kb = f.pindex("bytes")
        guards = []
        for C in f.insts():
            if C.op == "icmp" and C.pred in ("sge", "sgt", "slt", "sle"):
                a, b = strip_casts(f, C.ops[0]), strip_casts(f, C.ops[1])
                if a[0] == "v" and f.inst[a[1]].op == "add" and b[0] == "v" and f.inst[b[1]].op == "load" and addr_is_field_cell(f, f.inst[b[1]], "size", "LU_stack_t"):
                    ad = f.inst[a[1]]
                    ops = [strip_casts(f, o) for o in ad.ops]
                    if any(o == ["a", kb] for o in ops) and any(o[0] == "v" and f.inst[o[1]].op == "load" and addr_is_field_cell(f, f.inst[o[1]], "used", "LU_stack_t") for o in ops):
                        for blk, t, fl in branch_edges_on(f, C):
                            full_t = C.pred in ("sge", "sgt")
                            guards.append((blk.id, fl if full_t else t, t if full_t else fl))
        for fld in ("top1", "top2", "used"):
            for s in f.insts():
                if s.op == "store" and addr_is_field_cell(f, s, fld, "LU_stack_t"):
                    dom = f.dom()
                    ok = any(ok_t in dom[s.bb.id] and s.i not in f.reach([f.blocks[full_t].insts[0]], include_start=True) for (b, ok_t, full_t) in guards)
                    dep = any(strip_casts(f, o) == ["a", kb] for x in expr_insts(f, s.ops[0]) for o in x.ops)
                    rep.check(ok and dep, "O7'", "%s#%s" % (f.name, fld), "stack.%s moves by 'bytes' only on the not-full edge of StackFull(bytes)" % fld,
                              "stack.%s is bumped without the StackFull(bytes) guard on the same amount" % fld, s.loc, f.name)
    for pat in ("p?gstrf_expand", "p?gstrf_WorkInit"):
        for prec, f in fam(mod, pat):
            n = sum(1 for s in f.insts() if s.op == "store" and any(addr_is_field_cell(f, s, x, "LU_stack_t") for x in ("top1", "top2", "used")))
            rep.note("O7': %s adjusts the user stack at %d store sites (alignment / expansion); only the expansion amounts are tested with StackFull" % (f.name, n))


def rule_stack_relative(mod, rep):
    """worker threads may only move the shared user stack by their own request"""
    from .lock import worker_context
    rep.rule("STACK-REL", "in worker context (everything reachable from p?gstrf_thread) every store to stack.top1 / stack.top2 / stack.used is a relative update "
             "(old value of the same cell +/- an amount that does not depend on another stack field): a worker never resets the shared stack to an absolute position "
             "or by an amount computed from the whole stack, which would release other threads' blocks", floor=20)
    wc = worker_context(mod)
    for name in sorted(wc):
        f = mod.funcs.get(name)
        if f is None:
            continue
        for s in f.insts():
            if s.op != "store":
                continue
            fld = None
            for x in ("top1", "top2", "used"):
                if addr_is_field_cell(f, s, x, "LU_stack_t"):
                    fld = x
            if not fld:
                continue
            rep.scope([name])
            lds = expr_loads(f, s.ops[0])
            own = [l for l in lds if addr_is_field_cell(f, l, fld, "LU_stack_t")]
            other = [l for l in lds if any(addr_is_field_cell(f, l, y, "LU_stack_t") for y in ("size", "top1", "top2", "used", "array") if y != fld)]
            rep.check(bool(own) and not other, "STACK-REL", "%s#%s@%d" % (name, fld, s.ln), "relative update of stack.%s" % fld,
                      "a worker thread sets stack.%s %s: this releases / overwrites the blocks other threads still own in the shared user work space" % (
                          fld, "from other stack fields (%s)" % ", ".join(sorted(set(fmt_paths(f, f.addr_paths(l)) for l in other))) if other else "to an absolute value"), s.loc, name)
