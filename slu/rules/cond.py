"""C12/C13: ?gscon solve sequence per kase; ?gsrfs transposes and scalings per (trans, equed, kase)."""
import itertools
from ..util import *
from ..ir import fmt_path, strip_casts
from ..absint import TOP, Partition, Interp, value_roots


class KasePart(Partition):
    """stub for ?lacon_: writes the kase cell (last argument)"""
    def stub(self, interp, ins, args, state):
        cal = ins.callee or ""
        if cal.endswith("lacon_"):
            a = args[-1]
            w = {}
            if a and a[0] == "p":
                w[a[1]] = ("c", self.kw["kase"])
            hv = [x[1] for x in args[1:-1] if x and x[0] == "p"]
            return {"ret": TOP, "writes": w, "havoc": hv}
        return None


def _trsv_atoms(prec):
    return {"sp_%strsv" % prec: {"name": "trsv", "args": [("chr", 0), ("chr", 1), ("chr", 2)]}}


def rule_gscon_table(mod, rep):
    rep.rule("GSCON", "?gscon: for norm in {'1','O','I'} x kase in {1,2}: when kase equals kase1 (1 for the one-norm, 2 for the infinity norm) the solves are "
             "inv(L) (Lower,No transpose,Unit) then inv(U) (Upper,No transpose,Non-unit); otherwise inv(U') then inv(L') with a (conjugate) transpose; "
             "kase is zeroed before the loop (reverse-communication protocol)", floor=24)
    rep.exhaustive = True
    for prec, f in fam(mod, "?gscon"):
        rep.scope([f.name])
        kn = f.pindex("norm")
        for nc, kase in itertools.product("1OI", (1, 2)):
            part = KasePart(norm=nc, kase=kase)
            part.cells[(("A", kn),)] = ("c", ord(nc))
            it = Interp(mod, f, part, atoms=_trsv_atoms(prec))
            it.run()
            ev = [(i, a) for i, a in it.events if a[0] == "trsv"]
            kase1 = 1 if nc in "1O" else 2
            key = "%s#norm=%s,kase=%d" % (f.name, nc, kase)
            why = []
            seq = sorted(ev, key=lambda x: (x[0].bb.id, x[0].pos))
            if len(seq) != 2:
                why.append("expected two triangular solves, found %s" % [a for _, a in seq])
            else:
                (i1, a1), (i2, a2) = seq
                if not f.dominates(i1, i2):
                    (i1, a1), (i2, a2) = (i2, a2), (i1, a1)
                if not f.dominates(i1, i2):
                    why.append("solve order undetermined")
                up = lambda a: (a[1][:1].upper(), a[2][:1].upper(), a[3][:1].upper())
                s1, s2 = up(a1), up(a2)
                if kase == kase1:
                    if (s1, s2) != (("L", "N", "U"), ("U", "N", "N")):
                        why.append("expected inv(L) then inv(U), got %s then %s" % (s1, s2))
                else:
                    if not (s1[0] == "U" and s1[1] in "TC" and s1[2] == "N" and s2[0] == "L" and s2[1] in "TC" and s2[2] == "U" and s1[1] == s2[1]):
                        why.append("expected inv(U') then inv(L'), got %s then %s" % (s1, s2))
            rep.check(not why, "GSCON", key, "solve sequence matches the estimator protocol", "; ".join(why), ev[0][0].loc if ev else f.file, f.name)
        _kase_zeroed(mod, rep, f, "GSCON")


def _kase_zeroed(mod, rep, f, rule):
    """the kase cell handed to ?lacon_ is set to 0 before the loop containing the call (dominating store of 0, no other store of non-kase origin)"""
    for c in f.calls():
        if not (c.callee or "").endswith("lacon_"):
            continue
        cell = f.paths(c.ops[-1])
        z = [s for s in f.insts() if s.op == "store" and f.addr_paths(s) == cell and is_const(s.ops[0], 0)]
        ok = any(f.dominates(s, c) and s.bb is not c.bb and not _in_same_loop(f, s, c) for s in z)
        rep.check(ok, rule, "%s#kase-zeroed@%d" % (f.name, len([x for x in f.calls() if (x.callee or "").endswith("lacon_") and x.i <= c.i])),
                  "kase := 0 dominates the estimator loop", "?lacon_ may be entered with a stale kase (no dominating kase := 0 outside its loop)", c.loc, f.name)


def _in_same_loop(f, a, b):
    best = None
    for h, body in f.loops():
        if b.bb.id in body and (best is None or len(body) < len(best)):
            best = body
    return best is not None and a.bb.id in best


class RfsPart(KasePart):
    pass


def rule_gsrfs_table(mod, rep):
    rep.rule("GSRFS", "?gsrfs: for trans in {N,T,C} x equed in {none,row,col,both} x kase in {0,1,2}: the residual uses sp_?gemv with 'N' iff trans==NOTRANS "
             "('T'/'C' otherwise, 'C' required for CONJ in complex precisions); the correction solve uses trans; the estimator solves with the opposite transpose "
             "for kase 1 and with trans for kase 2; work[] is multiplied by C iff notran&&colequ, by R iff !notran&&rowequ, before the solve for kase 1 and after it "
             "for kase 2; refinement is bounded by ITMAX=5 and stops unless berr halved", floor=144)
    rep.exhaustive = True
    e = mod.enums
    for prec, f in fam(mod, "?gsrfs"):
        rep.scope([f.name])
        kt = f.pindex("trans"); kq = f.pindex("equed"); kR = f.pindex("R"); kC = f.pindex("C")
        atoms = {"sp_%sgemv" % prec: {"name": "gemv", "args": [("chr", 0)]},
                 "%sgstrs" % prec: {"name": "gstrs", "args": [("val", 0)]},
                 "%slacon_" % prec: {"name": "lacon", "args": []}}

        def pred_w(it, ins, path, v):
            if path and path[0][0] == "C" and ("i",) in path:
                roots = value_roots(it, ins.ops[0])
                hit = set()
                for x in roots:
                    if x.startswith(f.pname(kR) + "["): hit.add("R")
                    if x.startswith(f.pname(kC) + "["): hit.add("C")
                if hit:
                    return (",".join(sorted(hit)),)
        lac = list(f.calls("%slacon_" % prec)); gem = list(f.calls("sp_%sgemv" % prec))
        stopset = set(x.i for x in lac + gem)
        resid_bad = {}
        for tr, eq, kase in itertools.product(("NOTRANS", "TRANS", "CONJ"), ("NOEQUIL", "ROW", "COL", "BOTH"), (0, 1, 2)):
            part = RfsPart(trans=tr, equed=eq, kase=kase)
            part.args[kt] = ("c", e[tr]); part.args[kq] = ("c", e[eq])
            for k, fld in ((f.pindex("A"), "SLU_NC"), (f.pindex("B"), "SLU_DN"), (f.pindex("X"), "SLU_DN")):
                part.cells[(("A", k), ("f", "SuperMatrix", "Stype"))] = ("c", e[fld])
            it = Interp(mod, f, part, atoms=atoms, store_atoms=[("work*=", pred_w)])
            it.run()
            notran = tr == "NOTRANS"
            rowequ = eq in ("ROW", "BOTH"); colequ = eq in ("COL", "BOTH")
            why = []
            gm = set(a[1] for i, a in it.events if a[0] == "gemv")
            want = {"N"} if notran else ({"T", "C"} if (prec in "sd" or tr == "TRANS") else {"C"})
            if tr == "TRANS" and prec in "cz":
                want = {"T"}
            if not gm or not gm <= want:
                resid_bad.setdefault(tr, ("residual product uses op '%s', expected one of %s" % (",".join(sorted(gm)), sorted(want)), [i for i, a in it.events if a[0] == "gemv"]))
            # estimator region events
            est = f.reach(lac, stop=lambda x: x.i in stopset)
            g_est = [(i, a) for i, a in it.events if a[0] == "gstrs" and i.i in est]
            g_cor = [(i, a) for i, a in it.events if a[0] == "gstrs" and i.i not in est]
            if not g_cor or any(a[1] != e[tr] for i, a in g_cor):
                why.append("correction solve does not use trans: %s" % [a[1] for i, a in g_cor])
            sc = [(i, a) for i, a in it.events if a[0] == "work*="]
            exp_scale = "C" if (notran and colequ) else ("R" if ((not notran) and rowequ) else None)
            if kase == 0:
                if g_est:
                    why.append("estimator solve reached with kase == 0")
            else:
                opp = e["TRANS"] if notran else e["NOTRANS"]
                wantt = {opp} if kase == 1 else {e[tr]}
                if kase == 1 and notran and prec in "cz":
                    wantt = {e["TRANS"], e["CONJ"]}
                got = set(a[1] for i, a in g_est)
                if len(g_est) != 1 or not got <= wantt:
                    why.append("estimator solve for kase=%d uses transpose %s, expected %s" % (kase, sorted(got, key=repr), sorted(wantt)))
                gots = set(a[1] for i, a in sc)
                if exp_scale is None and gots:
                    why.append("work[] scaled by %s although no scaling applies" % sorted(gots))
                if exp_scale is not None and gots != {exp_scale}:
                    why.append("work[] scaled by %s, expected %s" % (sorted(gots), exp_scale))
                if exp_scale is not None and gots == {exp_scale} and len(g_est) == 1:
                    G = g_est[0][0]
                    for S, a in sc:
                        after = S.i in f.reach([G], stop=lambda x: x.i in stopset)
                        before = G.i in f.reach([S], stop=lambda x: x.i in stopset)
                        if kase == 1 and not (before and not after):
                            why.append("kase 1: scaling must precede the solve")
                        if kase == 2 and not (after and not before):
                            why.append("kase 2: scaling must follow the solve")
            key = "%s#%s/%s/kase=%d" % (f.name, tr, eq, kase)
            site = (g_est[0][0].loc if g_est else (g_cor[0][0].loc if g_cor else f.file))
            rep.check(not why, "GSRFS", key, "transposes and scalings agree with (trans, equed, kase)", "; ".join(sorted(set(why))), site, f.name)
        for tr in ("NOTRANS", "TRANS", "CONJ"):
            if tr in resid_bad:
                rep.fail("GSRFS", "%s#residual-op/%s" % (f.name, tr), "the residual B - op(A)*X is formed with the wrong op: " + resid_bad[tr][0] +
                         (" (for a complex matrix A**T is not A**H: berr/ferr are computed for a different system)" if tr == "CONJ" else ""),
                         resid_bad[tr][1][0].loc if resid_bad[tr][1] else f.file, f.name)
            else:
                rep.ok("GSRFS", "%s#residual-op/%s" % (f.name, tr), "residual uses the op matching trans", f.file, f.name)
        _kase_zeroed(mod, rep, f, "GSRFS")
        _refine_bound(mod, rep, f, prec)


def _refine_bound(mod, rep, f, prec):
    """the correction solve is control-dependent on count < ITMAX(5) and berr*2 <= lstres"""
    from .threads import loop_of
    est = f.reach(list(f.calls("%slacon_" % prec)), stop=lambda x: (x.callee or "").endswith("lacon_") or (x.callee or "").startswith("sp_%sgemv" % prec))
    cor = [c for c in f.calls("%sgstrs" % prec) if c.i not in est]
    from .pivot import _cd_closure
    IPRED = {"eq": lambda x, y: x == y, "ne": lambda x, y: x != y, "sgt": lambda x, y: x > y, "sge": lambda x, y: x >= y, "slt": lambda x, y: x < y, "sle": lambda x, y: x <= y,
             "ugt": lambda x, y: x > y, "uge": lambda x, y: x >= y, "ult": lambda x, y: x < y, "ule": lambda x, y: x <= y}
    # (predicate, value of the predicate on the edge) pairs that mean "a <= b, both ordered" (or stricter) / "a > b" (or a >= b)
    LE = {("ole", True), ("olt", True), ("ugt", False), ("uge", False)}
    GE = {("oge", True), ("ogt", True), ("ult", False), ("ule", False)}
    for n, c in enumerate(cor):
        has_cnt = False; has_half = False; has_eps = False
        for (a_, s_) in _cd_closure(f, c.bb.id):
            t = f.blocks[a_].insts[-1]
            if t.op != "br" or not t.ops or t.ops[0][0] != "v":
                continue
            C = f.inst[t.ops[0][1]]
            val = (s_ == f.blocks[a_].succ[0].id)            # truth value of the condition on the edge towards the correction
            if C.op == "icmp" and C.pred in IPRED:
                ops = [strip_casts(f, o) for o in C.ops]
                for k in (0, 1):
                    if ops[1 - k][0] == "c" and ops[k][0] == "v":
                        K = ops[1 - k][1]
                        ev = (lambda v: IPRED[C.pred](v, K)) if k == 0 else (lambda v: IPRED[C.pred](K, v))
                        allowed = [v for v in (0, 1, 4, 5, 6, 1 << 20) if ev(v) == val]
                        if 0 in allowed and 4 in allowed and 5 not in allowed and (1 << 20) not in allowed:
                            has_cnt = True                  # the iteration counter is < ITMAX (= 5) on this edge
            if C.op == "fcmp":
                o0, o1 = strip_casts(f, C.ops[0]), strip_casts(f, C.ops[1])
                def twice(o):
                    return o[0] == "v" and f.inst[o[1]].op == "fmul" and any(z[0] == "f" and z[1] == 2.0 for z in f.inst[o[1]].ops)
                if (twice(o0) and (C.pred, val) in LE) or (twice(o1) and (C.pred, val) in GE):
                    has_half = True
                elif not twice(o0) and not twice(o1) and ((C.pred, val) in GE or (C.pred, val) in LE):
                    has_eps = True
        rep.check(has_cnt and has_half and has_eps, "GSRFS", "%s#refine-bound%d" % (f.name, n), "correction guarded by berr>eps, berr*2<=lstres, count<ITMAX",
                  "refinement loop guard incomplete: count<ITMAX=%s halving=%s eps=%s" % (has_cnt, has_half, has_eps), c.loc, f.name)
    # per-column reset of count and lstres: the phi of count in the refinement loop header starts at 0 from inside the per-rhs loop
    for c in cor:
        lp = loop_of(f, c)
        if not lp:
            rep.fail("GSRFS", "%s#refine-reset" % f.name, "correction solve is not inside a loop", c.loc, f.name)
            continue
        h, body = lp
        phis = [i for i in f.blocks[h].insts if i.op == "phi" and i.ty in ("i32", "i64")]
        ok = False
        for ph in phis:
            for o, b in zip(ph.ops, ph.inb):
                if b not in body and is_const(o, 0):
                    # the incoming block must itself be inside the outer (per right-hand-side) loop
                    outer = [bd for hh, bd in f.loops() if h in bd and len(bd) > len(body)]
                    if outer and any(b in bd for bd in outer):
                        ok = True
        rep.check(ok, "GSRFS", "%s#refine-reset" % f.name, "the iteration counter restarts at 0 for every right-hand side",
                  "the refinement counter is not reset per right-hand side (ITMAX budget shared across columns)", c.loc, f.name)


def rule_refine_fresh(mod, rep):
    """C13: berr/residual handed to the error bound belong to the X that is returned"""
    rep.rule("R-FRESH", "?gsrfs: after every correction of X (the ?gstrs call in the refinement loop) the residual (sp_?gemv) and the store to berr[j] are executed "
             "again before the forward-error estimator (?lacon_) starts or the routine returns: berr and the residual used for ferr belong to the returned X", floor=4)
    for prec, f in fam(mod, "?gsrfs"):
        lac = list(f.calls("%slacon_" % prec)); gem = list(f.calls("sp_%sgemv" % prec))
        kb = f.pindex("berr")
        bst = [s for s in f.insts() if s.op == "store" and (("A", kb), ("i",)) in f.addr_paths(s)]
        est = f.reach(lac, stop=lambda x: x in lac or x in gem)
        cor = [c for c in f.calls("%sgstrs" % prec) if c.i not in est]
        why = []
        if not cor or not gem or not bst or not lac:
            why.append("anchor missing (correction solve %d, residual %d, berr stores %d, estimator %d)" % (len(cor), len(gem), len(bst), len(lac)))
        for c in cor:
            r = f.reach([c], stop=lambda x: x in gem)
            hit = [f.inst[x] for x in r if f.inst[x] in lac or f.inst[x].op == "ret"]
            if hit:
                why.append("the estimator/return at %s is reachable from the correction at %s without recomputing the residual" % (hit[0].loc, c.loc))
            r = f.reach([c], stop=lambda x: x in bst and not _is_zero_store(x))
            hit = [f.inst[x] for x in r if f.inst[x] in lac or f.inst[x].op == "ret"]
            if hit:
                why.append("the estimator/return at %s is reachable from the correction at %s without recomputing berr[j]" % (hit[0].loc, c.loc))
        rep.check(not why, "R-FRESH", "%s#fresh" % f.name, "residual and berr are recomputed after the last correction", "; ".join(sorted(set(why))), cor[0].loc if cor else f.file, f.name)


def _is_zero_store(s):
    return s.ops[0][0] == "f" and s.ops[0][1] == 0.0


def rule_refine_budget(mod, rep):
    rep.rule("R-BUDGET", "?gsrfs: the correction step is guarded by berr > eps, berr*2 <= lstres and count < ITMAX, and the iteration counter restarts at 0 for every "
             "right-hand side (each column gets its own refinement budget)", floor=8)
    for prec, f in fam(mod, "?gsrfs"):
        rep.scope([f.name])
        before = len(rep.obs)
        _refine_bound(mod, rep, f, prec)
        for o in rep.obs[before:]:
            o.rule = "R-BUDGET"
