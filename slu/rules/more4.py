"""Round-4 rules."""
from ..util import *
from ..ir import fmt_path, strip_casts, expr_insts, expr_loads, dead_edges
from .more import _Poly, _PRED
from .pivot import _cd_closure


def _stack_field(f, x, fld):
    return any(p[0][0] == "G" and "stack" in p[0][1] and p[-1][0] == "f" and p[-1][2] == fld for p in f.addr_paths(x))


# ---------------------------------------------------------------------------------------------------------------------------------
# SETUP-SPACE (C14 C08 C18): the user work space descriptor is (re)initialised on every call from the caller's pointer and length
# ---------------------------------------------------------------------------------------------------------------------------------
def rule_setup_space(mod, rep):
    rep.rule("SETUP-SPACE", "p?gstrf_SetupSpace, lwork > 0: stack.array := work (the caller's pointer itself), stack.size := lwork, stack.top2 := lwork, stack.top1 := 0, "
             "stack.used := 0 - five stores, each executed whenever the user-space branch is taken (control dependent on nothing but the lwork test)", floor=20)
    for prec, f in fam(mod, "p?gstrf_SetupSpace"):
        rep.scope([f.name])
        kw = f.pindex("work"); kl = f.pindex("lwork")
        want = {"array": ("a", kw), "size": ("a", kl), "top2": ("a", kl), "top1": ("c", 0), "used": ("c", 0)}
        for fld, (kind, v) in want.items():
            sts = [s for s in f.insts() if s.op == "store" and _stack_field(f, s, fld)]
            good = []
            for s in sts:
                o = strip_casts(f, s.ops[0])
                okv = (kind == "a" and o == ["a", v]) or (kind == "c" and is_const(o, 0))
                # unconditional inside the user-space branch: its direct control dependences are tests of lwork only
                cds = f.control_deps().get(s.bb.id, ())
                oku = True
                for (a, t) in cds:
                    tt = f.blocks[a].insts[-1]
                    if tt.op == "br" and tt.ops and tt.ops[0][0] == "v":
                        C = f.inst[tt.ops[0][1]]
                        if not (C.op == "icmp" and any(strip_casts(f, z) == ["a", kl] for z in C.ops)):
                            oku = False
                if okv and oku:
                    good.append(s)
            rep.check(bool(good), "SETUP-SPACE", "%s#stack.%s" % (f.name, fld), "stack.%s is set from %s on every user-space call" % (fld, "the argument" if kind == "a" else "0"),
                      "stack.%s is not (unconditionally) set to %s: the descriptor no longer describes exactly the caller's buffer work[0..lwork) / keeps the previous call's fill state"
                      % (fld, "the caller's value" if kind == "a" else "0"), sts[0].loc if sts else f.file, f.name)


# ---------------------------------------------------------------------------------------------------------------------------------
# WFA-ORDER (C17 C14): the tail release subtracts what the tail held
# ---------------------------------------------------------------------------------------------------------------------------------
def rule_workfreeall_order(mod, rep):
    rep.rule("WFA-ORDER", "p?gstrf_WorkFreeAll: stack.used is reduced by stack.size - stack.top2 computed from the value stack.top2 had on entry: the load of stack.top2 that feeds "
             "the store to stack.used is not preceded by the store stack.top2 := stack.size", floor=4)
    for prec, f in fam(mod, "p?gstrf_WorkFreeAll"):
        rep.scope([f.name])
        su = [s for s in f.insts() if s.op == "store" and _stack_field(f, s, "used")]
        st2 = [s for s in f.insts() if s.op == "store" and _stack_field(f, s, "top2")]
        ok = bool(su) and bool(st2)
        why = "stores to stack.used / stack.top2 not found"
        for s in su:
            ls = [l for l in expr_loads(f, s.ops[0]) if _stack_field(f, l, "top2")]
            if not ls:
                ok = False; why = "stack.used is not reduced by an amount computed from stack.top2"
            for l in ls:
                for t in st2:
                    if f.dominates(t, l):
                        ok = False; why = "stack.top2 is overwritten (line %s) before it is read for the amount to subtract: nothing is subtracted and the in-use count drifts up with every refactorization" % t.ln
        rep.check(ok, "WFA-ORDER", "%s#used-before-top2" % f.name, "used -= size - top2 reads the entry value of top2", why, su[0].loc if su else f.file, f.name)


# ---------------------------------------------------------------------------------------------------------------------------------
# XERBLA-RO (C15): the error handler does not write through its arguments
# ---------------------------------------------------------------------------------------------------------------------------------
def rule_xerbla_readonly(mod, rep):
    from .. import effects
    E = effects.get(mod)
    rep.rule("XERBLA-RO", "xerbla_(srname, info) only reports: it writes through neither argument (callers pass string literals and the address of their info)", floor=1)
    f = mod.funcs.get("xerbla_")
    if f is None:
        rep.brk("ANALYSIS-BROKEN XERBLA-RO: xerbla_ not found")
        return
    rep.scope([f.name])
    w = [x for x in E.W.get("xerbla_", ()) if x[0] == "A"]
    rep.check(not w, "XERBLA-RO", "xerbla_#args", "no store rooted at srname / info",
              "xerbla_ writes through its argument %s: the routine names are string literals (read-only storage)" % (E.fmt(f, w[0]) if w else ""), f.file, f.name)


# ---------------------------------------------------------------------------------------------------------------------------------
# COPY-SRC (C19): a copy reads its sizes from the source only
# ---------------------------------------------------------------------------------------------------------------------------------
def rule_copy_source(mod, rep):
    rep.rule("COPY-SRC", "?Copy_CompCol_Matrix(A, B): every count that bounds a copy loop comes from the source A; scalar fields of the destination's store (B->Store->nnz ...) "
             "are written, never read", floor=4)
    for prec, f in fam(mod, "?Copy_CompCol_Matrix"):
        rep.scope([f.name])
        kb = f.pindex("B")
        bad = [l for l in f.insts() if l.op == "load" and l.ty.startswith("i") and any(p[0] == ("A", kb) and len(p) >= 4 and p[-1][0] == "f" and p[-1][2] in ("nnz", "nrow", "ncol") for p in f.addr_paths(l))]
        rep.check(not bad, "COPY-SRC", "%s#sizes" % f.name, "no size is read back from the destination",
                  "a size is read from the destination (%s): the number of copied entries is whatever the destination held before" % (bad[0].loc if bad else ""), bad[0].loc if bad else f.file, f.name)


# ---------------------------------------------------------------------------------------------------------------------------------
# NSUPER-N (C09): L->nsuper is the counter kept in col_to_sup[n]
# ---------------------------------------------------------------------------------------------------------------------------------
def rule_nsuper_from_n(mod, rep):
    rep.rule("NSUPER-N", "?Create_SuperNode_Matrix / ?Create_SuperNode_Permuted: Lstore->nsuper := col_to_sup[n] - the extra slot n holds the highest supernode number "
             "(numbers are issued in thread start order, so the last column's supernode need not be the largest)", floor=8)
    for pat in ("?Create_SuperNode_Matrix", "?Create_SuperNode_Permuted"):
        for prec, f in fam(mod, pat):
            rep.scope([f.name])
            kn = f.pindex("n"); kc = f.pindex("col_to_sup")
            sts = [s for s in f.insts() if s.op == "store" and any(p[-1][0] == "f" and p[-1][2] == "nsuper" for p in f.addr_paths(s))]
            ok = False
            for s in sts:
                v = strip_casts(f, s.ops[0])
                if v[0] == "v" and f.inst[v[1]].op == "load" and (("A", kc), ("i",)) in f.addr_paths(f.inst[v[1]]):
                    idx = gep_index(f, f.inst[v[1]].ops[0])
                    if idx is not None and strip_casts(f, idx) == ["a", kn]:
                        ok = True
            rep.check(ok, "NSUPER-N", "%s#nsuper" % f.name, "nsuper is read from col_to_sup[n]",
                      "Lstore->nsuper is not col_to_sup[n]: with several threads the triangular solves skip the supernodes numbered above the value taken", sts[0].loc if sts else f.file, f.name)


# ---------------------------------------------------------------------------------------------------------------------------------
# SLOT-RECT (C05 C09): a dynamic slot is a full rectangle
# ---------------------------------------------------------------------------------------------------------------------------------
def rule_slot_rectangle(mod, rep):
    from .layout import pfmt
    rep.rule("SLOT-RECT", "pxgstrf_super_bnd_dfs: the size handed to DynamicSetMap is (row count) x w, a full rectangle - lusup[] stores every column of a supernode with the "
             "supernode's full row count (independently of the known finding about where the row count comes from)", floor=1)
    f = mod.funcs.get("pxgstrf_super_bnd_dfs")
    if f is None:
        rep.brk("ANALYSIS-BROKEN SLOT-RECT: pxgstrf_super_bnd_dfs not found")
        return
    rep.scope([f.name])
    P = _Poly(f)
    for n, c in enumerate(f.calls("DynamicSetMap")):
        poly = P.of(c.ops[2])
        ok = len(poly) == 1 and list(poly.values())[0] == 1 and len(list(poly.keys())[0]) == 2 and "w" in list(poly.keys())[0]
        rep.check(ok, "SLOT-RECT", "pxgstrf_super_bnd_dfs#DynamicSetMap-shape", "slot = count * w",
                  "the slot is %s, not count * w: the last columns of the supernode spill into the next supernode's slot" % pfmt(poly), c.loc, f.name)


# ---------------------------------------------------------------------------------------------------------------------------------
# RELAX-BOUND (C05): a relaxed supernode has at most `relax` columns
# ---------------------------------------------------------------------------------------------------------------------------------
def rule_relax_bound(mod, rep):
    from .ext import _owned_helpers
    rep.rule("RELAX-BOUND", "pxgstrf_relax_snode (and static helpers it owns): the walk up the etree continues only while desc[parent] < relax (strictly), so a relaxed supernode "
             "has at most relax columns - StatAlloc sizes panel_histo[] with max(panel_size, relax) + 1 entries and ParallelInit counts panel_histo[w]", floor=1)
    f0 = mod.funcs.get("pxgstrf_relax_snode")
    if f0 is None:
        rep.brk("ANALYSIS-BROKEN RELAX-BOUND: pxgstrf_relax_snode not found")
        return
    n = 0
    for f in [f0] + [h for (h, c, g) in _owned_helpers(mod, f0)]:
        rep.scope([f.name])
        for C in f.insts():
            if C.op != "icmp" or C.pred not in _PRED:
                continue
            ops = [strip_casts(f, o) for o in C.ops]
            for k in (0, 1):
                o = ops[k]; r = ops[1 - k]
                # the descendant count: an element of an integer array (local allocation or array parameter), indexed by a non-constant
                is_desc = o[0] == "v" and f.inst[o[1]].op == "load" and any(p[-1] == ("i",) and (p[0][0] == "C" or (p[0][0] == "A" and len(p) == 2)) for p in f.addr_paths(f.inst[o[1]]))
                is_relax = (r[0] == "v" and (f.inst[r[1]].dn == "relax" or (f.inst[r[1]].op == "load" and any(p[-1][0] == "f" and p[-1][2] == "relax" for p in f.addr_paths(f.inst[r[1]]))))) \
                    or (r[0] == "a" and f.pname(r[1]) == "relax")
                if not (is_desc and is_relax):
                    continue
                edges = list(branch_edges_on(f, C))
                if not edges:
                    for u in f.uses.get(C.i, []):
                        if u.op == "phi":
                            edges += list(branch_edges_on(f, u))
                for blk, t_true, t_false in edges:
                    loops = sorted([body for h, body in f.loops() if blk.id in body], key=len)
                    if not loops:
                        continue
                    stay_true = t_true in loops[0]
                    pr = _PRED[C.pred]
                    R = 6
                    ev = (lambda v: pr(v, R)) if k == 0 else (lambda v: pr(R, v))
                    stays = [v for v in (0, 5, 6, 7, 100) if ev(v) == stay_true]
                    n += 1
                    rep.check(stays == [0, 5], "RELAX-BOUND", "pxgstrf_relax_snode#walk", "subtree grows only while desc[parent] < relax",
                              "the subtree is extended for desc[parent] in %s (relative to relax = 6): a relaxed supernode can have relax + 1 columns and panel_histo[relax + 1] is "
                              "written past the array" % stays, C.loc, f.name)
    if n == 0:
        rep.brk("ANALYSIS-BROKEN RELAX-BOUND: comparison of desc[parent] with relax not found")


# ---------------------------------------------------------------------------------------------------------------------------------
# LSTRES-RESET (C13): the refinement history starts afresh for every right-hand side
# ---------------------------------------------------------------------------------------------------------------------------------
def rule_lstres_reset(mod, rep):
    from .threads import loop_of
    rep.rule("LSTRES-RESET", "?gsrfs: lstres (the backward error of the previous iterate) is re-initialised to its sentinel for every right-hand side: the value it has on entry to the "
             "refinement loop is a constant assigned inside the loop over the right-hand sides, not something carried over from the previous column", floor=4)
    for prec, f in fam(mod, "?gsrfs"):
        rep.scope([f.name])
        cor = [c for c in f.calls("%sgstrs" % prec)]
        ok = False; where = None
        for c in cor:
            lp = loop_of(f, c)
            if not lp:
                continue
            h, body = lp
            outer = [bd for hh, bd in f.loops() if h in bd and len(bd) > len(body)]
            for ph in f.blocks[h].insts:
                if ph.op == "phi" and ph.ty in ("float", "double"):
                    # the halving test uses this phi: fcmp(2*berr, ph)
                    used = any(u.op == "fcmp" or (u.op in ("fpext", "fptrunc") and any(v.op == "fcmp" for v in f.uses.get(u.i, []))) for u in f.uses.get(ph.i, []))
                    if not used:
                        continue
                    where = ph
                    for o, b in zip(ph.ops, ph.inb):
                        if b not in body and o[0] == "f" and outer and any(b in bd for bd in outer):
                            ok = True
        rep.check(ok, "LSTRES-RESET", "%s#lstres" % f.name, "lstres enters each right-hand side's refinement as a constant",
                  "the stopping test of the refinement compares with a value left over from the previous right-hand side (lstres is not re-initialised per column): "
                  "a column that follows a tiny solution column gets no refinement step", where.loc if where is not None and where.ln else f.file, f.name)


# ---------------------------------------------------------------------------------------------------------------------------------
# I-FILL (C18 C14 C03): the integer work arrays that carry marks across columns start as EMPTY in both memory modes
# ---------------------------------------------------------------------------------------------------------------------------------
def rule_int_work_fill(mod, rep):
    from .layout import pfmt
    rep.rule("I-FILL", "per-thread integer work arrays: marker[] (NO_MARKER x m entries), lbusy[] (m) and spa_marker[] (m x panel_size) are filled with EMPTY by ifill() before "
             "the scheduling loop - in a caller-supplied work space they hold the marks of the previous factorization (calloc hides this for lwork = 0)", floor=12)
    for prec, f in fam(mod, "p?gstrf_thread"):
        cands = [f] + [mod.funcs[n] for n in ("pxgstrf_SetIWork",) if n in mod.funcs]
        rep.scope([x.name for x in cands])
        sched = list(f.calls("pxgstrf_scheduler"))
        fills = {}
        for g in cands:
            P = _Poly(g)
            for c in g.calls("ifill"):
                if not is_const(c.ops[2], -1):
                    continue
                names = set()
                for p in g.paths(c.ops[0]):
                    for st in p:
                        pass
                    root = p[0]
                    if root[0] == "L":
                        names.add(fmt_path(p, g))
                    elif root[0] == "A":
                        names.add(g.pname(root[1]))
                    elif root[0] == "C":
                        names.add("alloc")
                # resolve through the out-parameters of SetIWork: name by the debug name of the pointer value
                o = strip_casts(g, c.ops[0])
                nm = g.inst[o[1]].dn if o[0] == "v" else (g.pname(o[1]) if o[0] == "a" else None)
                if nm is None and o[0] == "v" and g.inst[o[1]].op == "load":
                    a_ = strip_casts(g, g.inst[o[1]].ops[0])
                    if a_[0] == "v" and g.inst[a_[1]].op == "alloca" and g.inst[a_[1]].dn:
                        nm = g.inst[a_[1]].dn           # an address-taken local pointer (filled in by pxgstrf_SetIWork)
                if nm is None and o[0] == "v" and g.inst[o[1]].op == "load":
                    ps = g.addr_paths(g.inst[o[1]])
                    for p in ps:
                        if p[0][0] == "A":
                            nm = g.pname(p[0][1])
                fills.setdefault(nm, []).append((g, c, P.of(c.ops[1])))
        want = {"marker": 3, "lbusy": 1, "spa_marker": None}
        for nm, mult in want.items():
            fl = fills.get(nm, [])
            ok = False; why = "no ifill(%s, .., EMPTY) before the scheduling loop" % nm
            for (g, c, poly) in fl:
                if g is f and sched and not all(f.dominates(c, s) for s in sched):
                    continue
                if mult is None:
                    ok = any(len(k) == 2 for k in poly)         # m * panel_size
                    if not ok: why = "spa_marker[] is filled over %s entries, not m * panel_size" % pfmt(poly)
                else:
                    tot = sum(v for k, v in poly.items() if len(k) == 1)
                    ok = len(poly) == 1 and tot == mult
                    if not ok: why = "%s[] is filled over %s entries instead of %d x m: the other mark arrays keep the previous factorization's marks" % (nm, pfmt(poly), mult)
                if ok:
                    break
            rep.check(ok, "I-FILL", "%s#%s" % (f.name, nm), "%s[] is reset to EMPTY over its whole length" % nm, why, (fl[0][1].loc if fl else f.file), f.name)


# ---------------------------------------------------------------------------------------------------------------------------------
# CPLX-NZ (C01 C02 C03): a complex entry is nonzero when either part is
# ---------------------------------------------------------------------------------------------------------------------------------
def rule_complex_nonzero(mod, rep, floor=2):
    rep.rule("CPLX-NZ", "complex kernels: when the real and the imaginary part of the same element are compared with 0 in two consecutive tests (`x.r != 0 || x.i != 0`), "
             "the second test is reached on the edge where the first part IS zero - the element is taken as nonzero when either part is (an `&&` treats real-valued "
             "entries of a complex matrix as structural zeros)", floor=floor)
    n = 0
    for f in mod.funcs.values():
        if not (f.name.startswith(("pc", "pz", "c", "z", "sp_c", "sp_z"))):
            continue
        for b in f.blocks:
            t = b.insts[-1]
            if t.op != "br" or not t.ops or t.ops[0][0] != "v":
                continue
            C1 = f.inst[t.ops[0][1]]
            if C1.op != "fcmp" or not any(o[0] == "f" and o[1] == 0.0 for o in C1.ops):
                continue
            k1 = _part_key(f, C1)
            if not k1:
                continue
            for tg in t.tgt:
                nb = f.blocks[tg]
                t2 = nb.insts[-1]
                if t2.op != "br" or not t2.ops or t2.ops[0][0] != "v" or len(nb.pred) != 1:
                    continue
                C2 = f.inst[t2.ops[0][1]]
                if C2.op != "fcmp" or C2.bb.id != nb.id or not any(o[0] == "f" and o[1] == 0.0 for o in C2.ops):
                    continue
                k2 = _part_key(f, C2)
                if not k2 or k2[0] != k1[0] or k2[1] == k1[1]:
                    continue
                n += 1
                rep.scope([f.name])
                # on the edge b -> tg, is part 1 zero?
                taken_true = (tg == t.tgt[0])
                nonzero_pred = C1.pred in ("une", "one")
                part1_nonzero_on_edge = (nonzero_pred == taken_true)
                # both tests have the same sense (both != 0 or both == 0): for != the chain must continue on "is zero"; for == on "is nonzero"... i.e. an OR of nonzero-ness
                same_sense = (C2.pred in ("une", "one")) == nonzero_pred
                # `r != 0 || i != 0` (is nonzero) and `r == 0 && i == 0` (is zero) both look at the second part exactly where the first part is zero
                ok = (not same_sense) or (not part1_nonzero_on_edge)
                rep.check(ok, "CPLX-NZ", "%s#%s@%s" % (f.name, "nz", C1.ln), "second part is tested where the first part is zero (either part nonzero counts)",
                          "the imaginary part is only looked at when the real part is nonzero (or vice versa): an entry with one zero part is treated as zero", C1.loc, f.name)
    return n


def _part_key(f, C):
    """(canonical element address, 'r'|'i') of the loaded operand of an fcmp against 0.0"""
    for o in C.ops:
        o = strip_casts(f, o)
        if o[0] == "v" and f.inst[o[1]].op == "load":
            L = f.inst[o[1]]
            a = strip_casts(f, L.ops[0])
            if a[0] == "v" and f.inst[a[1]].op == "getelementptr":
                g = f.inst[a[1]]
                if g.gep and g.gep[-1].get("k") == "fld" and g.gep[-1].get("n") in ("r", "i"):
                    ps = frozenset(tuple(p[:-1]) for p in f.addr_paths(L))
                    idx = None
                    base = g
                    # element identity: address paths without the part + the index value of the nearest index step
                    q = strip_casts(f, g.ops[0])
                    while q[0] == "v" and f.inst[q[1]].op == "getelementptr" and idx is None:
                        for st in f.inst[q[1]].gep:
                            if st["k"] == "idx" and not (st["v"][0] == "c"):
                                idx = tuple(strip_casts(f, st["v"]))
                        q = strip_casts(f, f.inst[q[1]].ops[0])
                    for st in g.gep[:-1]:
                        if st["k"] == "idx" and not (st["v"][0] == "c"):
                            idx = tuple(strip_casts(f, st["v"]))
                    if idx is not None and idx[0] == "v" and f.inst[idx[1]].op == "load":
                        idx = ("ld", frozenset(f.addr_paths(f.inst[idx[1]])), tuple(strip_casts(f, gep_index(f, f.inst[idx[1]].ops[0]) or ["c", 0])))
                    return ((ps, idx), g.gep[-1]["n"])
    return None


# ---------------------------------------------------------------------------------------------------------------------------------
# BUSY-FNZ (C02 C03): the leading nonzero of a busy supernode's U-segment is searched over every column of the supernode
# ---------------------------------------------------------------------------------------------------------------------------------
def rule_busy_fnz(mod, rep):
    from .threads import loop_bound
    rep.rule("BUSY-FNZ", "p?gstrf_panel_bmod, busy-supernode phase: the loop that looks for the first column kcol in [fsupc, krep] whose pivot row carries a value / a mark "
             "(…[inv_perm_r[kcol]]) advances kcol by one - a relaxed supernode is a subtree of the etree, not a path, so stepping through etree[] skips columns", floor=4)
    for prec, f in fam(mod, "p?gstrf_panel_bmod"):
        rep.scope([f.name])
        ki = f.pindex("inv_perm_r")
        n = 0
        for h, body in f.loops():
            lb = loop_bound(f, h, body)
            hb = f.blocks[h]
            for ph in hb.insts:
                if ph.op != "phi" or not ph.ty.startswith("i"):
                    continue
                # loop that reads inv_perm_r[ph]
                uses_ipr = [x for x in f.insts() if x.bb.id in body and x.op == "load" and (("A", ki), ("i",)) in f.addr_paths(x)
                            and gep_index(f, x.ops[0]) is not None and strip_casts(f, gep_index(f, x.ops[0])) == ["v", ph.i]]
                if not uses_ipr:
                    continue
                # innermost loop owning these reads
                if any(all(u.bb.id in b2 for u in uses_ipr) and len(b2) < len(body) for h2, b2 in f.loops()):
                    continue
                n += 1
                steps = [strip_casts(f, o) for o, b in zip(ph.ops, ph.inb) if b in body]
                ok = bool(steps) and all(o[0] == "v" and f.inst[o[1]].op == "add" and any(is_const(z, 1) for z in f.inst[o[1]].ops)
                                         and any(strip_casts(f, z) == ["v", ph.i] for z in f.inst[o[1]].ops) for o in steps)
                rep.check(ok, "BUSY-FNZ", "%s#scan@%s" % (f.name, hb.insts[-1].ln), "column scan advances by one",
                          "the scan over the busy supernode's columns does not advance by one column (it follows %s): columns of a branching relaxed supernode are skipped and the "
                          "U-segment starts too late or not at all" % ("etree[]" if any(o[0] == "v" and f.inst[o[1]].op == "load" for o in steps) else "another step"),
                          hb.insts[-1].loc, f.name)
        if n == 0:
            rep.brk("ANALYSIS-BROKEN BUSY-FNZ: no scan over inv_perm_r[kcol] found in %s" % f.name)


# ---------------------------------------------------------------------------------------------------------------------------------
# ROW-BLOCK (C01 C02 C07): inside the block-row loop of the 2-D update every row address moves with the block
# ---------------------------------------------------------------------------------------------------------------------------------
def rule_row_block(mod, rep):
    rep.rule("ROW-BLOCK", "p?gstrf_bmod2D: in the loop over block rows (r_ind += rowblk) the matrix-vector operand and the row subscripts used for the scatter both start at the "
             "current block: the start index of every lsub[] read in that loop, and of the kernel operand, depends on the block-row counter", floor=4)
    for prec, f in fam(mod, "p?gstrf_bmod2D"):
        if not mod.callers.get(f.name):
            continue
        rep.scope([f.name])
        found = False
        for h, body in f.loops():
            hb = f.blocks[h]
            # the block-row loop: header phi advanced by a non-constant step (rowblk) and containing a gemv/matvec call
            calls = [c for c in f.calls() if c.bb.id in body and (c.callee or "")[1:] in ("gemv_", "matvec")]
            if not calls:
                continue
            if any(all(c.bb.id in b2 for c in calls) and len(b2) < len(body) and any(
                    q.op == "phi" and any(strip_casts(f, o)[0] == "v" and f.inst[strip_casts(f, o)[1]].op == "add" and not any(z[0] == "c" for z in f.inst[strip_casts(f, o)[1]].ops)
                                          for o, b in zip(q.ops, q.inb) if b in b2) for q in f.blocks[h2].insts) for h2, b2 in f.loops()):
                continue
            rind = None
            for ph in hb.insts:
                if ph.op == "phi" and ph.ty.startswith("i"):
                    for o, b in zip(ph.ops, ph.inb):
                        o = strip_casts(f, o)
                        if b in body and o[0] == "v" and f.inst[o[1]].op == "add" and any(strip_casts(f, z) == ["v", ph.i] for z in f.inst[o[1]].ops) and not any(z[0] == "c" for z in f.inst[o[1]].ops):
                            rind = ph
            if rind is None:
                continue
            found = True
            def depends(o, depth=0, seen=None):
                seen = seen if seen is not None else set()
                o = strip_casts(f, o)
                if o == ["v", rind.i]:
                    return True
                if o[0] != "v" or o[1] in seen or depth > 12:
                    return False
                seen.add(o[1])
                x = f.inst[o[1]]
                if x.op in ("load", "call", "alloca"):
                    return False
                if x.op == "phi":
                    # cursor inside the block-row loop: its initial value counts
                    return any(depends(z, depth + 1, seen) for z, b in zip(x.ops, x.inb)) if x.bb.id in body and x.i != rind.i else False
                return any(depends(z, depth + 1, seen) for z in x.ops)
            bad = []
            for x in f.insts():
                if x.bb.id in body and x.op == "load" and addr_is_elem_of(f, x, "lsub"):
                    idx = gep_index(f, x.ops[0])
                    if idx is not None and not depends(idx):
                        bad.append(x)
            for c in calls:
                A = strip_casts(f, c.ops[4] if (c.callee or "").endswith("gemv_") else c.ops[3])
                if A[0] == "v" and f.inst[A[1]].op == "getelementptr":
                    idx = gep_index(f, A)
                    if idx is not None and not depends(idx):
                        bad.append(c)
            rep.check(not bad, "ROW-BLOCK", "%s#block-rows" % f.name, "row addresses in the block-row loop depend on the block counter",
                      "an address used inside the block-row loop (line %s) does not move with the block: from the second block on the product is scattered onto the first block's rows"
                      % (bad[0].ln if bad else ""), bad[0].loc if bad else f.file, f.name)
        if not found:
            rep.brk("ANALYSIS-BROKEN ROW-BLOCK: block-row loop of %s not recognised" % f.name)


# ---------------------------------------------------------------------------------------------------------------------------------
# EXT-PAIR: a loop that ends at END[j] of a begin/end extent starts at BEGIN[j] of the same column
# ---------------------------------------------------------------------------------------------------------------------------------
_EXT_PAIRS = {"colend": "colbeg", "rowind_colend": "rowind_colbeg", "nzval_colend": "nzval_colbeg", "xlsub_end": "xlsub", "xlusup_end": "xlusup", "xusub_end": "xusub",
              "sup_to_colend": "sup_to_colbeg", "xsup_end": "xsup"}


def _ext_field(f, L):
    for p in f.addr_paths(L):
        if len(p) >= 3 and p[-1] == ("i",) and p[-2] == ("*",) and p[-3][0] == "f":
            return p[-3][2]
        if len(p) == 2 and p[0][0] == "A" and p[-1] == ("i",):
            return f.pname(p[0][1])
    return None


def rule_extent_pairs(mod, rep, scope_pred=None, floor=40):
    from .threads import loop_bound
    rep.rule("EXT-PAIR", "columns of L, U and A*Pc are stored as [begin[j], end[j]) extents that need not be adjacent (storage is handed out in completion order): every counted "
             "loop whose bound is end[j] (colend, rowind_colend, nzval_colend, xlsub_end, xlusup_end, xusub_end, xsup_end) starts from a value derived from begin[j] of the "
             "same j - never from where the previous column's loop stopped", floor=floor)
    for f in mod.funcs.values():
        if scope_pred is not None and not scope_pred(f):
            continue
        for h, body in f.loops():
            lb = loop_bound(f, h, body)
            inits = None
            if lb:
                b = strip_casts(f, lb[2])
                inits = [strip_casts(f, o) for o, bb in zip(lb[0].ops, lb[0].inb) if bb not in body]
            else:
                # counter kept in an address-taken local: exit test compares a load of that local; its start value is the nearest dominating store outside the loop
                b = None
                for bb in sorted(body):
                    t = f.blocks[bb].insts[-1]
                    if t.op != "br" or not t.ops or t.ops[0][0] != "v" or all(x in body for x in t.tgt):
                        continue
                    c = f.inst[t.ops[0][1]]
                    if c.op != "icmp":
                        continue
                    for k in (0, 1):
                        a = strip_casts(f, c.ops[k])
                        if a[0] == "v" and f.inst[a[1]].op == "load":
                            cell = strip_casts(f, f.inst[a[1]].ops[0])
                            if cell[0] == "v" and f.inst[cell[1]].op == "alloca":
                                sts = [s_ for s_ in f.insts() if s_.op == "store" and strip_casts(f, s_.ops[1]) == cell and s_.bb.id not in body and f.dominates(s_, f.blocks[h].insts[0])]
                                if sts:
                                    b = strip_casts(f, c.ops[1 - k])
                                    inits = [strip_casts(f, max(sts, key=lambda z: z.i).ops[0])]
                if b is None:
                    continue
            if b[0] != "v" or f.inst[b[1]].op != "load":
                continue
            Le = f.inst[b[1]]
            fe = _ext_field(f, Le)
            if fe not in _EXT_PAIRS:
                continue
            rep.scope([f.name])
            idx_e = gep_index(f, Le.ops[0])
            ok = False
            for o in inits:
                for L in expr_loads(f, o):
                    if _ext_field(f, L) == _EXT_PAIRS[fe]:
                        ib = gep_index(f, L.ops[0])
                        if ib is not None and idx_e is not None and same_value(f, ib, idx_e):
                            ok = True
            rep.check(ok, "EXT-PAIR", "%s#%s@%s" % (f.name, fe, f.blocks[h].insts[-1].ln), "loop to %s[j] starts at %s[j]" % (fe, _EXT_PAIRS[fe]),
                      "the loop that ends at %s[j] does not start at %s[j] of the same column: it continues from another column's position (extents are not adjacent when several "
                      "threads factored the matrix)" % (fe, _EXT_PAIRS[fe]), f.blocks[h].insts[-1].loc, f.name)


# ---------------------------------------------------------------------------------------------------------------------------------
# MARKER-KIND (C05 C01): the visit marker of the structure prediction is indexed by row numbers only
# ---------------------------------------------------------------------------------------------------------------------------------
def rule_marker_kind(mod, rep):
    rep.rule("MARKER-KIND", "pxgstrf_super_bnd_dfs: marker[] is indexed in one numbering only - original row numbers: a row subscript read from A (rowind) or from L (lsub), "
             "or the pivot row iperm_r[k] of a column k. A column number used as index collides with the marks of rows", floor=4)
    f = mod.funcs.get("pxgstrf_super_bnd_dfs")
    if f is None:
        rep.brk("ANALYSIS-BROKEN MARKER-KIND: pxgstrf_super_bnd_dfs not found")
        return
    rep.scope([f.name])
    km = f.pindex("marker"); ki = f.pindex("iperm_r")
    n = 0
    for x in f.insts():
        if x.op not in ("load", "store"):
            continue
        a = x.ops[0] if x.op == "load" else x.ops[1]
        if (("A", km), ("i",)) not in f.addr_paths(x):
            continue
        idx = gep_index(f, a)
        if idx is None:
            continue
        n += 1
        idx = strip_casts(f, idx)
        ok = False
        srcs = [idx]
        if idx[0] == "v" and f.inst[idx[1]].op == "phi":
            srcs = [strip_casts(f, o) for o in f.inst[idx[1]].ops]
        good = 0
        for o in srcs:
            if o[0] == "v" and f.inst[o[1]].op == "load":
                L = f.inst[o[1]]
                if (("A", ki), ("i",)) in f.addr_paths(L) or addr_is_elem_of(f, L, "lsub") or addr_is_elem_of(f, L, "rowind"):
                    good += 1
        ok = good == len(srcs) and good > 0
        rep.check(ok, "MARKER-KIND", "pxgstrf_super_bnd_dfs#marker@%s" % x.ln, "index is a row number",
                  "marker[] is indexed by a value that is not a row subscript / pivot row (a supernode representative, i.e. a column number): visited supernodes and unpivoted rows share marks, "
                  "rows are skipped and the reserved slot is too small", x.loc, f.name)
    if n == 0:
        rep.brk("ANALYSIS-BROKEN MARKER-KIND: no access to marker[] in pxgstrf_super_bnd_dfs")


# ---------------------------------------------------------------------------------------------------------------------------------
# MEM-BYTES: the length of a memset / memcpy over a typed array is a multiple of the element size
# ---------------------------------------------------------------------------------------------------------------------------------
_ELEM = {"i32": 4, "i64": 8, "float": 4, "double": 8, "i16": 2}


def rule_mem_bytes(mod, rep, floor=0):
    rep.rule("MEM-BYTES", "llvm.memset / memcpy / memmove with a computed length over an array of int_t / float / double / complex elements: every term of the length is a multiple "
             "of the element size (count * sizeof(element)); a bare element count clears or copies only part of the array", floor=floor)
    # positive example (the rule has no instance on today's tree): one good and one bad memset must be told apart on every run
    import os
    from .. import build as _b, ir as _ir
    try:
        pm = _ir.Module(_b.build_snippet(os.path.join(os.path.dirname(_b.IRDUMP), "positive", "membytes.c")))
        verdicts = {fn: [ok for ok, _ in _mem_bytes_of(pm.funcs[fn])] for fn in ("membytes_good", "membytes_bad", "membytes_good_d")}
        if verdicts != {"membytes_good": [True], "membytes_bad": [False], "membytes_good_d": [True]}:
            rep.brk("ANALYSIS-BROKEN MEM-BYTES: positive example misjudged: %r" % verdicts)
        else:
            rep.note("MEM-BYTES positive example sa/positive/membytes.c: good/bad memset told apart")
    except Exception as e:
        rep.brk("ANALYSIS-BROKEN MEM-BYTES: positive example failed: %s" % e)
    for f in mod.funcs.values():
        for ok, (c, cal, poly, el) in _mem_bytes_of(f):
            from .layout import pfmt
            rep.scope([f.name])
            rep.check(ok, "MEM-BYTES", "%s#%s@%s" % (f.name, cal.split(".")[1], c.ln), "length %s is a multiple of the element size %d" % (pfmt(poly), el),
                      "the length %s is not a multiple of the element size %d: an element count was passed where a byte count is needed" % (pfmt(poly), el), c.loc, f.name)


def _mem_bytes_of(f):
    if True:
        P = None
        for c in f.calls():
            cal = c.callee or ""
            if not cal.startswith(("llvm.memset", "llvm.memcpy", "llvm.memmove")):
                continue
            ln = strip_casts(f, c.ops[2])
            if ln[0] == "c":
                continue
            d = strip_casts(f, c.ops[0])
            ty = f.otype(d) or ""
            el = None
            base = ty.rstrip("*")
            if ty.endswith("*"):
                if base in _ELEM:
                    el = _ELEM[base]
                elif base.startswith("%struct.complex") or base.startswith("%struct.doublecomplex") or base.startswith("{"):
                    el = 16 if "double" in base else 8
            if el is None:
                continue
            P = P or _Poly(f)
            poly = P.of(ln)
            yield all(v % el == 0 for v in poly.values()), (c, cal, poly, el)


# ---------------------------------------------------------------------------------------------------------------------------------
# REL-RANGE (C04 C03), RELAX-WHOLE (C04), PTR-SHIFT (C10)
# ---------------------------------------------------------------------------------------------------------------------------------
def rule_release_range(mod, rep):
    from .threads import loop_bound
    from .layout import padd, pconst, pfmt
    rep.rule("REL-RANGE", "p?gstrf_thread: the loop that releases a relaxed supernode releases exactly pan_status[jcol].size consecutive columns: with the released index a "
             "linear function of the loop counter, index(bound) - index(start) equals the loaded size itself (symbolic polynomials; a clamped or recomputed width is a "
             "different symbol): every column the scheduler locked is released", floor=4)
    for prec, f in fam(mod, "p?gstrf_thread"):
        rep.scope([f.name])
        found = False
        P = _Poly(f)
        size_syms = set()
        for x in f.insts():
            if x.op == "load" and addr_has_field(f, x, "size", "pan_status_t"):
                size_syms |= set(P.of(["v", x.i]).keys())
        for h, body in f.loops():
            rel = [s for b in body for s in f.blocks[b].insts if s.op == "store" and is_const(s.ops[0], 0) and addr_is_elem_of(f, s, "spin_locks")]
            if not rel or any(x.op == "call" and not (x.callee or "").startswith("llvm.dbg") for b in body for x in f.blocks[b].insts):
                continue
            lb = loop_bound(f, h, body)
            if not lb:
                continue
            found = True
            ph = lb[0]
            init = [o for o, b in zip(ph.ops, ph.inb) if b not in body]
            idx = gep_index(f, rel[0].ops[1])
            ok = False; why = "index or bounds not linear in the counter"
            if idx is not None and len(init) == 1:
                pi = P.of(idx)
                ck = ("v%d" % ph.i,)
                if pi.get(ck) == 1 and all(ck[0] not in k or k == ck for k in pi):
                    # index(bound) - index(init) = bound - init for a unit coefficient
                    step = None
                    for o, b in zip(ph.ops, ph.inb):
                        o = strip_casts(f, o)
                        if b in body and o[0] == "v" and f.inst[o[1]].op in ("add", "sub"):
                            q = padd(P.of(o), {ck: 1}, -1)
                            q = {k: v for k, v in q.items() if v != 0}
                            step = q.get((), None) if set(q) <= {()} else None
                    if step == 1:
                        cnt = padd(P.of(lb[2]), P.of(init[0]), -1)
                        incl = lb[1] in ("sle", "ule"); okp = lb[1] in ("slt", "ult", "sle", "ule", "ne")
                    else:
                        cnt = padd(P.of(init[0]), P.of(lb[2]), -1)
                        incl = lb[1] in ("sge", "uge"); okp = step == -1 and lb[1] in ("sgt", "ugt", "sge", "uge", "ne")
                    if incl:
                        cnt = padd(cnt, pconst(1), 1)
                    cnt = {k: v for k, v in cnt.items() if v != 0}
                    ok = okp and len(cnt) == 1 and list(cnt.values()) == [1] and set(cnt) <= size_syms
                    why = "number of released columns = %s" % pfmt(cnt)
            rep.check(ok, "REL-RANGE", "%s#relaxed-release" % f.name, "the release loop covers pan_status[jcol].size columns",
                      "the release loop does not cover exactly pan_status[jcol].size columns (%s): trailing columns of a wide relaxed supernode stay locked and a pipelined "
                      "parent spins forever" % why, f.blocks[h].insts[-1].loc, f.name)
        if not found:
            rep.brk("ANALYSIS-BROKEN REL-RANGE: release loop not found in %s" % f.name)


def rule_relaxed_whole(mod, rep):
    rep.rule("RELAX-WHOLE", "ParallelInit: a relaxed supernode becomes one panel of exactly pxgstrf_relax[rs].size columns - on every path that enters the relaxed branch the value "
             "stored as the leading column's pan_status[i].size is that loaded size, unmodified (splitting / trimming applies to regular panels only: the columns cut off a "
             "relaxed supernode would be regular panels that never become ready)", floor=1)
    f = mod.funcs.get("ParallelInit")
    if f is None:
        rep.brk("ANALYSIS-BROKEN RELAX-WHOLE: ParallelInit not found")
        return
    rep.scope([f.name])
    kr = f.pindex("pxgstrf_relax")
    # the relaxed test: icmp eq (load relax[rs].<field0>, i)
    tests = []
    for C in f.insts():
        if C.op == "icmp" and C.pred in ("eq", "ne"):
            for o in C.ops:
                o = strip_casts(f, o)
                if o[0] == "v" and f.inst[o[1]].op == "load" and any(p[0] == ("A", kr) for p in f.addr_paths(f.inst[o[1]])):
                    for blk, t_true, t_false in branch_edges_on(f, C):
                        if any(blk.id in body for h, body in f.loops()):
                            tests.append((C, blk, t_true if C.pred == "eq" else t_false))
    # size loads of the relax table (second field)
    def is_relax_size(o):
        o = strip_casts(f, o)
        if o[0] != "v" or f.inst[o[1]].op != "load":
            return False
        a = strip_casts(f, f.inst[o[1]].ops[0])
        g = f.inst[a[1]] if a[0] == "v" else None
        return g is not None and g.op == "getelementptr" and g.gep and g.gep[-1].get("k") == "fld" and g.gep[-1].get("i") == 1 and any(p[0] == ("A", kr) for p in f.addr_paths(f.inst[o[1]]))
    done = 0
    for (C, blk, tgt) in tests:
        loops = sorted([(h, body) for h, body in f.loops() if blk.id in body], key=lambda hb: len(hb[1]))
        if not loops:
            continue
        h, body = loops[-1] if len(loops) == 1 else loops[0]
        # blocks reachable on relaxed paths within this iteration
        reach = set(); work = [tgt]
        while work:
            b = work.pop()
            if b in reach or b == h or b not in body:
                continue
            reach.add(b)
            for s_ in f.blocks[b].succ:
                work.append(s_.id)
        preds_ok = reach | {blk.id}
        def resolve(o, depth=0):
            o = strip_casts(f, o)
            if o[0] == "v" and f.inst[o[1]].op == "phi" and depth < 8:
                x = f.inst[o[1]]
                if x.bb.id in reach:
                    vals = [resolve(z, depth + 1) for z, pb in zip(x.ops, x.inb) if pb in preds_ok]
                    keys = {repr(v) for v in vals}
                    if len(keys) == 1:
                        return vals[0]
                    return ("ambiguous", x.i)
            return o
        sts = [s for b in reach for s in f.blocks[b].insts if s.op == "store" and addr_has_field(f, s, "size", "pan_status_t")]
        # the leading-column store: its value is not the descending counter of the fill loop (a phi of an inner loop header)
        lead = [s for s in sts if not any(s.bb.id in b2 and len(b2) < len(body) for h2, b2 in f.loops())]
        for s in lead:
            done += 1
            v = resolve(s.ops[0])
            ok = not (isinstance(v, tuple) and v and v[0] == "ambiguous") and is_relax_size(v)
            rep.check(ok, "RELAX-WHOLE", "ParallelInit#relaxed-size", "a relaxed supernode's panel size is pxgstrf_relax[rs].size on every relaxed path",
                      "on a path through the relaxed branch the stored panel size can differ from pxgstrf_relax[rs].size (it is trimmed after the branches join)", s.loc, f.name)
    if done == 0:
        rep.brk("ANALYSIS-BROKEN RELAX-WHOLE: leading-column size store on the relaxed path not found")


def rule_ptr_shift(mod, rep):
    from .threads import loop_bound
    rep.rule("PTR-SHIFT", "get_perm_c: the conversion of the adjacency structure between 0-based and 1-based numbering for GENMMD shifts all n+1 column pointers "
             "(the loop over b_colptr[i] visits i = n as well)", floor=1)
    f = mod.funcs.get("get_perm_c")
    if f is None:
        rep.brk("ANALYSIS-BROKEN PTR-SHIFT: get_perm_c not found")
        return
    rep.scope([f.name])
    n = 0
    for h, body in f.loops():
        lb = loop_bound(f, h, body)
        if not lb:
            continue
        # body: store arr[i] := load arr[i] + 1 with arr the local b_colptr
        for b in body:
            for s in f.blocks[b].insts:
                if s.op != "store":
                    continue
                v = strip_casts(f, s.ops[0])
                if v[0] != "v" or f.inst[v[1]].op != "add" or not any(is_const(z, 1) for z in f.inst[v[1]].ops):
                    continue
                idx = gep_index(f, s.ops[1])
                if idx is None or strip_casts(f, idx) != ["v", lb[0].i]:
                    continue
                # is the array b_colptr?  its pointer is loaded from the local named b_colptr
                a = strip_casts(f, s.ops[1])
                g = f.inst[a[1]] if a[0] == "v" else None
                basep = strip_casts(f, g.ops[0]) if g is not None and g.op == "getelementptr" else None
                nm = None
                if basep and basep[0] == "v" and f.inst[basep[1]].op == "load":
                    cell = strip_casts(f, f.inst[basep[1]].ops[0])
                    if cell[0] == "v" and f.inst[cell[1]].op == "alloca":
                        nm = f.inst[cell[1]].dn
                if nm != "b_colptr":
                    continue
                n += 1
                pr = _PRED.get(lb[1])
                bnd = strip_casts(f, lb[2])
                # bound must be n itself with <=, or n + 1 with <
                P = _Poly(f)
                poly = P.of(lb[2])
                covers = False
                if pr is not None:
                    const = poly.get((), 0)
                    syms = {k: v for k, v in poly.items() if k}
                    if len(syms) == 1 and list(syms.values())[0] == 1:
                        # counter value n: stays in the loop?
                        covers = (lb[1] in ("sle", "ule") and const >= 0) or (lb[1] in ("slt", "ult") and const >= 1)
                    elif not syms:
                        # descending form: starts at n (+c), runs down to 0 inclusive
                        ini = [o for o, b2 in zip(lb[0].ops, lb[0].inb) if b2 not in body]
                        if len(ini) == 1:
                            pi = P.of(ini[0])
                            isyms = {k: v for k, v in pi.items() if k}
                            covers = len(isyms) == 1 and list(isyms.values())[0] == 1 and pi.get((), 0) >= 0 and \
                                ((lb[1] in ("sge",) and const <= 0) or (lb[1] in ("sgt",) and const <= -1))
                rep.check(covers, "PTR-SHIFT", "get_perm_c#b_colptr-shift", "the shift covers b_colptr[0..n]",
                          "the loop that renumbers b_colptr[] stops before i = n: b_colptr[n] keeps the other numbering and GENMMD sees a wrong adjacency length for the last vertex",
                          f.blocks[h].insts[-1].loc, f.name)
    if n == 0:
        rep.brk("ANALYSIS-BROKEN PTR-SHIFT: no renumbering loop over b_colptr[] in get_perm_c")


# ---------------------------------------------------------------------------------------------------------------------------------
# PANEL-COL (C16 C01 C05): inside a per-column loop of a panel, a w-wide array is addressed at the current column
# ---------------------------------------------------------------------------------------------------------------------------------
_WWIDE = ("dense", "repfnz", "panel_lsub", "spa_marker", "w_lsub_end")


def rule_panel_column(mod, rep, pats=("p?gstrf_panel_bmod", "p?gstrf_panel_dfs"), floor=40):
    from .threads import loop_bound
    rep.rule("PANEL-COL", "p?gstrf_panel_dfs / p?gstrf_panel_bmod: in a loop over the columns jj = jcol .. jcol+w-1 of the panel, every access to a w-wide work array "
             "(dense, repfnz, panel_lsub, spa_marker: m-by-w; w_lsub_end: w) is made at an address that is a function of the loop's own induction values (the column cursor "
             "stepping by m, or jj - jcol) through pointer / integer arithmetic only - an address that is the same in every iteration reads and writes column jcol's slice for "
             "every column", floor=floor)
    for pat in pats:
        for prec, f in fam(mod, pat):
            rep.scope([f.name])
            kj, kw = f.pindex("jcol"), f.pindex("w")
            roots = {f.pindex(n): n for n in _WWIDE if f.pindex(n) is not None}
            for h, body in f.loops():
                lb = loop_bound(f, h, body)
                if not lb:
                    continue
                bv = strip_casts(f, lb[2])
                if not (bv[0] == "v" and f.inst[bv[1]].op == "add" and {tuple(strip_casts(f, o)) for o in f.inst[bv[1]].ops} == {("a", kj), ("a", kw)}):
                    continue
                # values that are functions of this loop's header phis through arithmetic (not through memory)
                dep = {x.i for x in f.blocks[h].insts if x.op == "phi"}
                changed = True
                order = [x for b in sorted(body) for x in f.blocks[b].insts]
                while changed:
                    changed = False
                    for x in order:
                        if x.i in dep or x.op in ("load", "call", "store", "br", "switch"):
                            continue
                        if any(o[0] == "v" and o[1] in dep for o in x.ops):
                            dep.add(x.i); changed = True
                for x in order:
                    if x.op not in ("load", "store"):
                        continue
                    aop = x.ops[0] if x.op == "load" else x.ops[1]
                    rs = {p[0][1] for p in f.addr_paths(x) if p and p[0][0] == "A"} & set(roots)
                    if not rs:
                        continue
                    a = strip_casts(f, aop)
                    ok = a[0] == "v" and a[1] in dep
                    nm = roots[sorted(rs)[0]]
                    rep.check(ok, "PANEL-COL", "%s#%s@%s:%s" % (f.name, nm, h, x.ln), "%s is addressed at the current panel column" % nm,
                              "inside the loop over the panel's columns '%s' is accessed at an address that does not change with the column: every column works on the slice of the "
                              "first one" % nm, x.loc, f.name)


# ---------------------------------------------------------------------------------------------------------------------------------
# SEG-SCAN (C16 C01): the search for the leading nonzero of a U-segment visits every column of the supernode
# ---------------------------------------------------------------------------------------------------------------------------------
def rule_segment_scan(mod, rep, pats=("p?gstrf_panel_bmod",), floor=4):
    from .threads import loop_bound
    rep.rule("SEG-SCAN", "p?gstrf_panel_bmod: the loop that searches a busy supernode [fsupc..krep] for the leading nonzero of the U-segment (it records its own counter in repfnz[krep]) "
             "advances the counter by exactly 1: the columns of a supernode are contiguous but need not form a path in the elimination tree", floor=floor)
    for pat in pats:
        for prec, f in fam(mod, pat):
            rep.scope([f.name])
            kr = f.pindex("repfnz")
            n = 0
            loops = dict(f.loops())
            for h, body in loops.items():
                hit = []; ph = None
                # the store sits on the exit path (`break` after recording the column): look at every store of a header phi of this loop
                for s in f.insts():
                    if s.op == "store" and any(p and p[0] == ("A", kr) for p in f.addr_paths(s)):
                        v = strip_casts(f, s.ops[0])
                        if v[0] == "v" and f.inst[v[1]].op == "phi" and f.inst[v[1]].bb.id == h and f.inst[v[1]].ty.startswith("i"):
                            hit.append(s); ph = f.inst[v[1]]
                if not hit:
                    continue
                n += 1
                inl = [strip_casts(f, o) for o, b in zip(ph.ops, ph.inb) if b in body]
                ok = bool(inl) and all(o[0] == "v" and f.inst[o[1]].op == "add" and any(strip_casts(f, z) == ["v", ph.i] for z in f.inst[o[1]].ops)
                                       and any(is_const(z, 1) for z in f.inst[o[1]].ops) for o in inl)
                rep.check(ok, "SEG-SCAN", "%s#leading-nonzero" % f.name, "the scan steps through fsupc..krep one column at a time",
                          "the scan for the leading nonzero of the U-segment does not advance by 1 (it follows another relation between columns): a nonzero in a skipped column is "
                          "missed, repfnz[krep] stays EMPTY or too large and the update of that segment is lost", hit[0].loc, f.name)
            if n == 0:
                rep.brk("ANALYSIS-BROKEN SEG-SCAN: no leading-nonzero scan found in %s" % f.name)
