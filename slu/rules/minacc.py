"""C06: the zero-pivot position reported through info is the minimum over the non-zero positions seen.

A loop-header phi S that (transitively) receives a value V read from an info source is a *min accumulator*.
One iteration of its loop is walked symbolically under each order case
    V == 0 | S == 0 (V != 0) | V < S | V == S | V > S      (S != 0, V != 0 in the last three)
following branches on comparisons among S, V and 0 deterministically and all other branches both ways;
the value flowing back into S must be  S | V | V | S | S  (for first-only accumulators, legal when the
loop visits columns in ascending order, the case V < S is not required).  This is a finite case
enumeration over the CFG, not an execution."""
from ..util import *
from ..ir import strip_casts

CASES = ["V==0", "S==0", "V<S", "V==S", "V>S"]
EXPECT = {"V==0": "S", "S==0": "V", "V<S": "V", "V==S": "S|V", "V>S": "S"}


def _cmp_case(case, pred, a, b):
    """truth of icmp pred a b where a,b in {'S','V',0} under the case; None if undetermined"""
    def val(x):
        # symbolic ordering: assign representative numbers
        if x == 0:
            return 0
        if case == "V==0":
            return {"S": None, "V": 0}[x]
        if case == "S==0":
            return {"S": 0, "V": 5}[x]
        if case == "V<S":
            return {"S": 7, "V": 5}[x]
        if case == "V==S":
            return {"S": 5, "V": 5}[x]
        if case == "V>S":
            return {"S": 5, "V": 7}[x]
    x, y = val(a), val(b)
    if x is None or y is None:
        return None
    return {"eq": x == y, "ne": x != y, "slt": x < y, "sle": x <= y, "sgt": x > y, "sge": x >= y}.get(pred)


def nearest_store(f, ld):
    """the write (store to the same address, or call receiving that address) whose value a load reads: the closest
    dominating write with no other write of the cell on any path from it to the load; None if ambiguous"""
    P = f.addr_paths(ld)
    writes = []
    for i in f.insts():
        if i.op == "store" and f.addr_paths(i) == P:
            writes.append(i)
        elif i.op == "call" and i.callee and not i.callee.startswith("llvm.") and any(o[0] in ("v", "a") and f.is_ptr(o) and f.paths(o) == P for o in i.ops):
            writes.append(i)
    doms = [w for w in writes if f.dominates(w, ld) and w is not ld]
    if not doms:
        return None
    D = doms[0]
    for w in doms[1:]:
        if f.dominates(D, w):
            D = w
    between = f.reach([D], stop=lambda x: x.i == ld.i)
    for w in writes:
        if w is not D and w.i in between:
            if ld.i in f.reach([w], stop=lambda x: x.i == D.i):
                return None
    return D


def _sources(f, P, body, seen=None):
    seen = seen if seen is not None else set()
    out = []
    if P.i in seen:
        return out
    seen.add(P.i)
    ops = P.ops if P.op == "phi" else P.ops[1:]
    for o in ops:
        o = strip_casts(f, o)
        if o[0] != "v":
            continue
        x = f.inst[o[1]]
        if x.op in ("phi", "select") and x.bb.id in body:
            out += _sources(f, x, body, seen)
        elif x.op != "phi":
            out.append(x)
    return out


def verify(f, is_info_value, strict, rep, rule, label):
    """returns number of accumulators verified.  is_info_value(x): x reads the info source (candidate V)"""
    loops = f.loops()
    count = 0
    for h, body in loops:
        hb = f.blocks[h]
        for P in hb.insts:
            if P.op != "phi" or not P.ty.startswith("i"):
                continue
            srcs = [x for x in _sources(f, P, body) if is_info_value(x)]
            if not srcs:
                continue
            # V = the sources, the stored call results they read, and every other load reading the same store
            vset = set(x.i for x in srcs)
            origin = set()
            for x in srcs:
                if x.op == "load":
                    st = nearest_store(f, x)
                    if st is not None:
                        origin.add(st.i)
                        if st.op == "store" and st.ops[0][0] == "v":
                            vset.add(st.ops[0][1])
            for l in f.insts():
                if l.op == "load" and is_info_value(l):
                    st = nearest_store(f, l)
                    if st is not None and st.i in origin:
                        vset.add(l.i)
                    elif st is None:
                        # a cell this function never writes: every load of the same address (same index value) reads the same value
                        for x in srcs:
                            if x.op == "load" and f.addr_paths(x) == f.addr_paths(l) and nearest_store(f, x) is None and \
                                    same_val(gep_index(f, x.ops[0]) or ("n",), gep_index(f, l.ops[0]) or ("n",)):
                                vset.add(l.i)
            is_V = lambda x, vset=vset: x.i in vset
            count += 1
            for case in CASES:
                res, how = _walk(f, P, h, body, is_V, case)
                key = "%s#%s@%d/%s" % (f.name, label, P.i, case)
                exp = EXPECT[case]
                if not strict and case == "V<S":
                    rep.ok(rule, key, "first-only accumulator: case V<S cannot occur when columns are visited in ascending order", P.loc, f.name)
                    continue
                bad = [r for r in res if r not in exp.split("|")]
                if not res:
                    rep.ok(rule, key, "case %s: no path with an observed info value flows back (nothing to update)" % case, P.loc, f.name)
                elif bad:
                    rep.fail(rule, key, "in case %s the accumulator becomes %s (expected %s): the reported zero-pivot position is not the minimum%s" % (
                        case, sorted(set(res)), exp, "; via " + how if how else ""), P.loc, f.name)
                else:
                    rep.ok(rule, key, "case %s -> %s" % (case, sorted(set(res))), P.loc, f.name)
    return count


def _receives_V(f, P, is_V, body, depth=0, seen=None):
    seen = seen or set()
    if P.i in seen or depth > 6:
        return False
    seen.add(P.i)
    for o in P.ops:
        o = strip_casts(f, o)
        if o[0] != "v":
            continue
        x = f.inst[o[1]]
        if is_V(x):
            return True
        if x.op in ("phi", "select") and x.bb.id in body:
            if x.op == "phi":
                if _receives_V(f, x, is_V, body, depth + 1, seen):
                    return True
            else:
                for y in x.ops[1:]:
                    y = strip_casts(f, y)
                    if y[0] == "v" and (is_V(f.inst[y[1]]) or (f.inst[y[1]].op == "phi" and _receives_V(f, f.inst[y[1]], is_V, body, depth + 1, seen))):
                        return True
    return False


def _walk(f, P, h, body, is_V, case, limit=4000):
    """symbolic one-iteration walk: returns (list of symbols flowing back into P, description of an offending path)"""
    results = []
    how = ""
    # state: (block id, pred block id, env dict, visited blocks tuple)
    start_env = {P.i: "S"}
    # other header phis: opaque
    stack = [(h, None, start_env, (), [], False)]
    steps = 0
    while stack and steps < limit:
        steps += 1
        bid, pred, env, visited, trail, sawV = stack.pop()
        b = f.blocks[bid]
        if pred is not None and bid == h:
            # back at the header: value of P's incoming for pred
            for o, pb in zip(P.ops, P.inb):
                if pb == pred:
                    v = _ev(f, o, env, is_V)
                    if v == "S" and not sawV:
                        continue      # this iteration observed no info value: keeping S is right in every case
                    results.append(v)
                    if v not in EXPECT[case].split("|") and not how:
                        how = "->".join(str(x) for x in trail[-8:])
            continue
        if bid not in body:
            continue
        if bid in visited and bid != h:
            continue     # inner loop re-entry: cut (inner accumulators are verified on their own)
        env = dict(env)
        if any(is_V(i) for i in b.insts):
            sawV = True
        for ins in b.insts:
            if ins.op == "phi" and not (bid == h and ins is P):
                if pred is None:
                    continue
                for o, pb in zip(ins.ops, ins.inb):
                    if pb == pred:
                        env[ins.i] = _ev(f, o, env, is_V)
            elif ins.op == "select":
                c = _ev_cond(f, ins.ops[0], env, is_V, case)
                if c is True:
                    env[ins.i] = _ev(f, ins.ops[1], env, is_V)
                elif c is False:
                    env[ins.i] = _ev(f, ins.ops[2], env, is_V)
                else:
                    env[ins.i] = "?"
        t = b.insts[-1]
        nv = visited + (bid,)
        if t.op == "br" and t.ops:
            c = _ev_cond(f, t.ops[0], env, is_V, case)
            if c is True:
                stack.append((t.tgt[0], bid, env, nv, trail + [t.ln], sawV))
            elif c is False:
                stack.append((t.tgt[1], bid, env, nv, trail + [t.ln], sawV))
            else:
                stack.append((t.tgt[0], bid, env, nv, trail + [t.ln], sawV))
                stack.append((t.tgt[1], bid, env, nv, trail + [t.ln], sawV))
        else:
            for s in b.succ:
                stack.append((s.id, bid, env, nv, trail, sawV))
    return results, how


def _ev(f, o, env, is_V):
    o = strip_casts(f, o)
    if o[0] == "c":
        return 0 if o[1] == 0 else "k%d" % o[1]
    if o[0] != "v":
        return "?"
    if o[1] in env:
        return env[o[1]]
    x = f.inst[o[1]]
    if is_V(x):
        return "V"
    return "?"


def _ev_cond(f, o, env, is_V, case):
    if o[0] != "v":
        return None
    C = f.inst[o[1]]
    if C.op != "icmp":
        return None
    a = _ev(f, C.ops[0], env, is_V); b = _ev(f, C.ops[1], env, is_V)
    if a in ("S", "V", 0) and b in ("S", "V", 0):
        return _cmp_case(case, C.pred, a, b)
    return None
