"""STATE engine (C18): inventory and classification of every static-duration mutable object.

classes
  (a) invocation-local   function-scoped static, accessed only in its function, every load preceded on every path from the function's
                         entry by a store to the same cell
  (b) write-once cache   all stores sit under a 'first'-style guard (a static flag initialised non-zero, tested, cleared inside the guarded
                         region and never set again) and the stored values do not depend on parameters
  (c) re-initialised     per-precision factorization state: in a first-time factorization (refact = NO) no read of the cell is exposed,
                         i.e. every read in p?gstrf's call tree is preceded by a write made in the same call (interprocedural
                         must-write-before-read with the refact=NO partition of p?gstrf_MemInit / p?gstrf_thread_init / finalize)
  (d) protocol state     ?lacon_ reverse-communication statics: reset by a store that does not depend on the old value, and callers zero
                         kase before the estimator loop (rule _kase_zeroed of C12/C13)
anything else is a violation naming the object and the read."""
import re
from ..util import *
from ..ir import strip_casts, fmt_path, all_operands, expr_insts
from ..absint import Partition, Interp, TOP


def cells_of(mod):
    """dict (global name, field path tuple) -> {'loads': [(f, ins)], 'stores': [(f, ins)]}"""
    out = {}
    for f in mod.funcs.values():
        for i in f.insts():
            if i.op not in ("load", "store"):
                continue
            for p in f.addr_paths(i):
                if p[0][0] != "G":
                    continue
                g = mod.globals.get(p[0][1])
                if g is None or g["const"]:
                    continue
                steps = p[1:]
                # the cell is the global plus its leading field steps (a pointer field followed by deref is a use of the pointer cell, the
                # pointed-to heap array is not static-duration state)
                cell = []
                kind = i.op
                for st in steps:
                    if st[0] == "f":
                        cell.append(st[2])
                    elif st[0] == "*":
                        kind = "load"        # going through a pointer stored in the cell reads the cell
                        break
                    else:
                        cell.append("[]")
                key = (p[0][1], tuple(cell))
                d = out.setdefault(key, {"loads": [], "stores": []})
                d["loads" if kind == "load" else "stores"].append((f, i))
    return out


def _self_independent(f, st, gname, cell):
    """the stored value does not depend on a load of the same cell"""
    for x in expr_insts(f, st.ops[0], through_loads=False):
        if x.op == "load":
            for p in f.addr_paths(x):
                if p[0] == ("G", gname):
                    c = tuple(s[2] if s[0] == "f" else "[]" for s in p[1:] if s[0] in ("f", "i"))
                    if c == cell:
                        return False
    return True


def _loads_exposed(f, loads, stores, extra_stops=()):
    """loads reachable from the function entry without passing a store to the cell"""
    st = set(s.i for s in stores) | set(extra_stops)
    r = f.reach([f.entry()], stop=lambda x: x.i in st, include_start=True)
    return [l for l in loads if l.i in r]


class ModePart(Partition):
    """first-time factorization (refact = NO) in one memory mode: lwork = 0 (system malloc) or lwork > 0 (user work space)"""
    def __init__(self, mod, f, prec, mode, wsglobal):
        Partition.__init__(self, refact="NO", mode=mode)
        e = mod.enums
        self.prec = prec; self.mode = mode; self.wsglobal = wsglobal
        lw = ("c", 0) if mode == "SYSTEM" else ("s", "LWPOS")
        for k, prm in enumerate(f.params):
            if prm["ty"].startswith("%struct.superlumt_options_t"):
                self.cells[(("A", k), ("f", "superlumt_options_t", "refact"))] = ("c", e["NO"])
                self.cells[(("A", k), ("f", "superlumt_options_t", "lwork"))] = lw
            if prm["name"] == "lwork" and not prm["ty"].endswith("*"):
                self.args[k] = lw
        if wsglobal and not f.name.endswith("gstrf_SetupSpace"):
            self.cells[(("G", wsglobal),)] = ("c", e[mode])

    def stub(self, interp, ins, args, state):
        cal = ins.callee or ""
        if cal == "p%sgstrf_SetupSpace" % self.prec and self.wsglobal:
            return {"ret": TOP, "writes": {(("G", self.wsglobal),): ("c", self._e(interp)[self.mode])}, "havoc": []}
        return None

    def _e(self, interp):
        return interp.mod.enums

    def cmp(self, interp, pred, a, b):
        for x, y, pr in ((a, b, pred), (b, a, {"slt": "sgt", "sgt": "slt", "sle": "sge", "sge": "sle"}.get(pred, pred))):
            if x == ("s", "LWPOS") and y[0] == "c":
                c = y[1]
                if c <= 0:
                    return {"eq": False, "ne": True, "sgt": True, "sge": True, "slt": False, "sle": False}.get(pr)
        return None


def _feasible_blocks(mod, f, factory):
    try:
        it = Interp(mod, f, factory(f))
        it.run()
        return it.reached_blocks, it.feasible
    except Exception:
        return None


class Exposure(object):
    """interprocedural must-write-before-read: RB(f) = cells possibly read before written inside a call of f, MW(f) = cells certainly written"""
    def __init__(self, mod, cells, watch, factory=None):
        self.mod = mod; self.cells = cells; self.watch = watch
        self.RB = {}; self.MW = {}; self.where = {}
        self.factory = factory
        self.feas = {}
        self._busy = set()

    def _cell_of(self, f, ins):
        out = set()
        for p in f.addr_paths(ins):
            if p[0][0] != "G":
                continue
            cell = []
            kind = ins.op
            for st in p[1:]:
                if st[0] == "f":
                    cell.append(st[2])
                elif st[0] == "*":
                    kind = "load"; break
                else:
                    cell.append("[]")
            out.add(((p[0][1], tuple(cell)), kind))
        return out

    def analyse(self, name):
        if name in self.RB:
            return
        f = self.mod.funcs.get(name)
        if f is None or name in self._busy:
            self.RB.setdefault(name, set()); self.MW.setdefault(name, set())
            return
        self._busy.add(name)
        dead = set()
        reach_blocks = None
        if self.factory is not None:
            fb = _feasible_blocks(self.mod, f, self.factory)
            if fb:
                reach_blocks, feas = fb
                for b in f.blocks:
                    for s in b.succ:
                        if (b.id, s.id) not in feas:
                            dead.add((b.id, s.id))
        # forward must-written dataflow over blocks
        for c in f.calls():
            if c.callee in self.mod.funcs:
                self.analyse(c.callee)
            if c.callee == "pthread_create" and len(c.ops) > 2 and c.ops[2][0] == "fn":
                self.analyse(c.ops[2][1])
        TOPS = None
        IN = {b.id: TOPS for b in f.blocks}
        IN[0] = frozenset()
        OUT = {}
        rb = set(); where = {}
        changed = True
        it = 0
        while changed and it < 30:
            changed = False; it += 1
            for b in f.blocks:
                if reach_blocks is not None and b.id not in reach_blocks:
                    continue
                if b.id != 0:
                    ps = [OUT[p.id] for p in b.pred if p.id in OUT and (p.id, b.id) not in dead]
                    if not ps:
                        continue
                    IN[b.id] = frozenset.intersection(*ps)
                cur = set(IN[b.id])
                for ins in b.insts:
                    if ins.op in ("load", "store"):
                        for cell, kind in self._cell_of(f, ins):
                            if cell not in self.watch:
                                continue
                            if kind == "store":
                                cur.add(cell)
                            elif cell not in cur:
                                if cell not in rb:
                                    where[cell] = (f.name, ins.loc)
                                rb.add(cell)
                    elif ins.op == "call":
                        cal = ins.callee
                        tg = None
                        if cal in self.mod.funcs:
                            tg = cal
                        elif cal == "pthread_create" and len(ins.ops) > 2 and ins.ops[2][0] == "fn":
                            tg = ins.ops[2][1]
                        if tg is not None:
                            for cell in self.RB.get(tg, ()):
                                if cell not in cur:
                                    if cell not in rb:
                                        where[cell] = self.where.get((tg, cell), (tg, "?"))
                                    rb.add(cell)
                            if cal in self.mod.funcs:
                                cur |= self.MW.get(tg, set())
                        if cal in self.mod.noreturn:
                            cur = set(self.watch)     # path ends: everything vacuously written
                o = frozenset(cur)
                if OUT.get(b.id) != o:
                    OUT[b.id] = o; changed = True
        mw = None
        for r in f.rets():
            if reach_blocks is not None and r.bb.id not in reach_blocks:
                continue
            # must-written at this return
            b = r.bb
            if b.id in OUT:
                mw = OUT[b.id] if mw is None else (mw & OUT[b.id])
        self.RB[name] = rb
        self.MW[name] = set(mw or ())
        for cell, w in where.items():
            self.where[(name, cell)] = w
        self._busy.discard(name)


# frozen exceptions: cell name pattern -> reason (one line each)
EXCEPTIONS = {
    r"^[sd]lamch_\.rmach$": "f2c result temporary of ?lamch_: left unwritten only when cmach matches none of E,S,B,P,N,R,M,U,L,O; every call site in the library passes a "
                            "literal from that set (verified on each run), so the stale value is never returned",
}
QUERY_EXCEPTION = ("no_expand", "superlu_?QuerySpace reports the expansion count of the most recent factorization of this precision (a documented statistic of L and U, not part of "
                   "the factorization or solve result); it no longer modifies the counter")


def _guard_only_functions(mod, globs):
    """functions all of whose call sites lie inside the first-time guard of a caller (or inside another such function)"""
    guarded_region = {}
    for f in mod.funcs.values():
        flags = [gn for gn, g in globs.items() if g.get("scope_fn") == f.name and not g.get("zeroinit", True)]
        for fl in flags:
            for b in f.blocks:
                t = b.insts[-1]
                if t.op == "br" and t.ops and t.ops[0][0] == "v":
                    C = f.inst[t.ops[0][1]]
                    if C.op == "icmp" and any(is_const(o, 0) for o in C.ops):
                        cand = [strip_casts(f, o) for o in C.ops if o[0] == "v"]
                        if cand and f.inst[cand[0][1]].op == "load" and (("G", fl),) in f.addr_paths(f.inst[cand[0][1]]):
                            tgt = t.tgt[0] if C.pred == "ne" else t.tgt[1]
                            dom = f.dom()
                            guarded_region.setdefault(f.name, set()).update(bb.id for bb in f.blocks if tgt in dom[bb.id])
    only = set()
    changed = True
    while changed:
        changed = False
        for name, f in mod.funcs.items():
            if name in only:
                continue
            sites = mod.callers.get(name, [])
            if not sites:
                continue
            if all((c.fn.name in only) or (c.bb.id in guarded_region.get(c.fn.name, ())) for c in sites):
                only.add(name); changed = True
    return only


def rule_state(mod, rep):
    rep.rule("STATE", "every static-duration mutable object of the library is (a) invocation-local, (b) an argument-independent write-once cache, (c) re-initialised before any "
             "read in every first-time factorization, or (d) reverse-communication protocol state reset without reference to its old value; an unclassified object, or a "
             "class-(c) cell with an exposed read, is a violation naming the object and the read", floor=280)
    cells = cells_of(mod)
    globs = {n: g for n, g in mod.globals.items() if not g["const"] and not g["decl"]}
    from .. import entry
    inscope = mod.transitive_callees(entry.entry_points(mod))
    guard_only = _guard_only_functions(mod, globs)
    # literal check behind the ?lamch_ exception
    lamch_ok = True
    for c in [c for f in mod.funcs.values() for c in f.calls()]:
        if (c.callee or "") in ("dlamch_", "slamch_"):
            if not (c.ops and c.ops[0][0] == "s" and c.ops[0][1][:1].upper() in "ESBPNRMULO" and c.ops[0][1]):
                lamch_ok = False
    # --- class (c) candidates: per-precision factorization state
    cpat = re.compile(r"^(p[sdcz]gstrf_thread_init\.Glu|[sdcz]expanders|stack|no_expand|ndim|whichspace)(\.\d+)?$")
    classC = set(k for k in cells if cpat.match(k[0]))
    exposedC = {}
    lazy = set(k for k in classC if re.match(r"^[sdcz]expanders(\.\d+)?$", k[0]))   # lazily allocated pointer: guarded by XPND-NULL instead
    for p in "sdcz":
        nm = "p%sgstrf" % p
        if nm not in mod.funcs:
            continue
        ws = None
        for gn, g in mod.globals.items():
            if g.get("src") == "whichspace" and g.get("file", "").endswith("p%smemory.c" % p):
                ws = gn
        if ws is None:
            rep.brk("ANALYSIS-BROKEN STATE: whichspace of precision %s not found" % p)
            continue
        # the memory-mode switch itself: SetupSpace writes whichspace (and the stack descriptor) for the mode it is given
        su = mod.funcs.get("p%sgstrf_SetupSpace" % p)
        for mode in ("SYSTEM", "USER"):
            fac = (lambda f, p=p, mode=mode, ws=ws: ModePart(mod, f, p, mode, ws))
            if su is not None:
                it = Interp(mod, su, fac(su), store_atoms=[("ws:=", lambda it, ins, path, v, ws=ws: (it._show(v),) if path == (("G", ws),) else None)])
                it.run()
                got = set(a for a in it.atoms if a[0] == "ws:=")
                rep.check(got == {("ws:=", mod.enums[mode])}, "STATE", "%s#mode-%s" % (su.name, mode), "SetupSpace stores whichspace := %s for this mode" % mode,
                          "SetupSpace does not (only) store whichspace := %s when %s: a stale memory mode from an earlier call survives" % (mode, "lwork == 0" if mode == "SYSTEM" else "lwork > 0"), su.file, su.name)
            ex = Exposure(mod, cells, classC - lazy, fac)
            ex.analyse(nm)
            for cell in ex.RB[nm]:
                exposedC.setdefault(cell, ex.where.get((nm, cell), (nm, "?")) + (mode,))
    rep.stats["STATE.classC_cells"] = len(classC)
    n_obj = 0
    for gname in sorted(globs):
        g = globs[gname]
        gcells = sorted(k for k in cells if k[0] == gname)
        if not gcells:
            # never accessed: harmless
            rep.ok("STATE", "%s#unused" % gname, "static object never accessed", g.get("file", ""), g.get("scope_fn"))
            n_obj += 1
            continue
        for key in gcells:
            n_obj += 1
            d = cells[key]
            cellname = gname + ("." + ".".join(key[1]) if key[1] else "")
            loads = d["loads"]; stores = d["stores"]
            lf = set(f.name for f, _ in loads); sf = set(f.name for f, _ in stores)
            if not ((lf | sf) & inscope):
                rep.ok("STATE", "%s#out-of-scope" % cellname, "accessed only by functions no public entry point reaches (%s)" % sorted(lf | sf)[:3], (loads or stores)[0][1].loc)
                continue
            scope = g.get("scope_fn")
            site = (loads or stores)[0][1].loc
            verdict = None
            # (c)
            if key in classC:
                if key in lazy:
                    rep.ok("STATE", "%s#lazy" % cellname, "lazily allocated table: allocated only when NULL, reset to NULL whenever freed (rule XPND-NULL)", site)
                    continue
                if key in exposedC:
                    w = exposedC[key]
                    rep.fail("STATE", "%s#exposed-read" % cellname, "class (c) state is read at %s (in %s) on a first-time factorization path before anything in the same "
                             "call wrote it: the result depends on what an earlier call left behind" % (w[1], w[0]), w[1], w[0])
                else:
                    rep.ok("STATE", "%s#c" % cellname, "(c) written before read in every first-time factorization (%d loads, %d stores)" % (len(loads), len(stores)), site)
                # readers outside the factorization call tree
                continue
            # (d) lacon protocol state
            if scope and scope.endswith("lacon_"):
                f = mod.funcs[scope]
                resets = [s for ff, s in stores if _self_independent(ff, s, gname, key[1])]
                if lf - {scope} or sf - {scope}:
                    rep.fail("STATE", "%s#scope" % cellname, "protocol state accessed outside %s" % scope, site, scope)
                elif loads and not resets:
                    rep.fail("STATE", "%s#no-reset" % cellname, "reverse-communication state %s is only ever updated from its own old value (no reset store): it carries over "
                             "from one estimation to the next" % cellname, loads[0][1].loc, scope)
                else:
                    rep.ok("STATE", "%s#d" % cellname, "(d) protocol state with %d reset store(s)" % len(resets), site, scope)
                continue
            # (a) invocation-local
            if scope and lf <= {scope} and sf <= {scope} and scope in mod.funcs:
                f = mod.funcs[scope]
                exposed = _loads_exposed(f, [i for _, i in loads], [i for _, i in stores])
                if not exposed:
                    rep.ok("STATE", "%s#a" % cellname, "(a) invocation-local: every load is preceded by a store in the same invocation", site, scope)
                    continue
                if scope in guard_only:
                    rep.ok("STATE", "%s#b-nested" % cellname, "(b) scratch of %s, which is only ever called from inside a first-time guard (part of the write-once cache computation)" % scope, site, scope)
                    continue
                exc = [why for pat, why in EXCEPTIONS.items() if re.match(pat, cellname)]
                if exc and lamch_ok:
                    rep.ok("STATE", "%s#exception" % cellname, "frozen exception: " + exc[0], site, scope)
                    continue
                # (b) write-once cache under a first-guard
                okb, whyb = _is_cache(mod, f, gname, key, loads, stores, globs, cells)
                if okb:
                    rep.ok("STATE", "%s#b" % cellname, "(b) write-once cache: %s" % whyb, site, scope)
                    continue
                rep.fail("STATE", "%s#unclassified" % cellname, "static %s is read at %s before any write in the same invocation and is not a guarded write-once cache (%s): "
                         "its value is carried over from earlier calls" % (cellname, exposed[0].loc, whyb), exposed[0].loc, scope)
                continue
            rep.fail("STATE", "%s#unclassified" % cellname, "file-scope / shared static %s (readers %s, writers %s) fits none of the classes" % (cellname, sorted(lf)[:4], sorted(sf)[:4]), site)
    rep.scope(sorted(set(f.name for d in cells.values() for f, _ in d["loads"] + d["stores"]) & inscope))
    rep.stats["STATE.objects"] = len(globs)
    rep.stats["STATE.cells"] = n_obj
    # readers of class (c) state outside any factorization: superlu_?QuerySpace (documented statistic)
    for p in "sdcz":
        q = mod.funcs.get("superlu_%sQuerySpace" % p)
        if q is None:
            continue
        ex2 = Exposure(mod, cells, classC - lazy, None)
        ex2.analyse(q.name)
        for cell in sorted(ex2.RB[q.name]):
            w = ex2.where.get((q.name, cell))
            if re.match(r"^no_expand(\.\d+)?$", cell[0]) and not any(ff.name == q.name for ff, _ in cells[cell]["stores"]):
                rep.ok("STATE", "%s#reads-no_expand" % q.name, "frozen exception: " + QUERY_EXCEPTION[1], w[1] if w else q.file, q.name)
                continue
            rep.fail("STATE", "%s#reads-%s" % (q.name, cell[0].split(".")[0] + ("." + ".".join(cell[1]) if cell[1] else "")),
                     "%s reads (and updates) factorization state left by an earlier call: on a solve-only (fact = FACTORED) driver call nothing in the same call wrote it, "
                     "so the reported value depends on call history" % q.name, w[1] if w else q.file, q.name)


def _is_cache(mod, f, gname, key, loads, stores, globs, cells):
    """stores only under an `if (first)` guard; values parameter-independent"""
    from .args import _dep_params
    # find guard flags: statics of this function initialised non-zero, tested, cleared
    flags = []
    for gn, g in globs.items():
        if g.get("scope_fn") == f.name and not g.get("zeroinit", True):
            flags.append(gn)
    guard_blocks = None
    for fl in flags:
        for b in f.blocks:
            t = b.insts[-1]
            if t.op == "br" and t.ops and t.ops[0][0] == "v":
                C = f.inst[t.ops[0][1]]
                l = None
                if C.op == "icmp" and any(is_const(o, 0) for o in C.ops):
                    cand = [strip_casts(f, o) for o in C.ops if o[0] == "v"]
                    if cand and f.inst[cand[0][1]].op == "load" and (("G", fl),) in f.addr_paths(f.inst[cand[0][1]]):
                        tgt = t.tgt[0] if C.pred == "ne" else t.tgt[1]
                        dom = f.dom()
                        guard_blocks = set(bb.id for bb in f.blocks if tgt in dom[bb.id])
                        flag = fl
        if guard_blocks:
            break
    if not guard_blocks:
        return False, "no first-time guard"
    # the flag itself
    if gname == flag:
        sts = [s for _, s in stores]
        if all(s.bb.id in guard_blocks for s in sts) and any(is_const(s.ops[0], 0) for s in sts):
            return True, "guard flag, written only inside the guarded region"
        return False, "guard flag is written outside its guarded region"
    for ff, s in stores:
        if s.bb.id not in guard_blocks:
            return False, "store outside the first-time guard at %s" % s.loc
        dp = _dep_params(ff, s.ops[0])
        if dp:
            return False, "cached value depends on parameter(s) %s" % sorted(ff.pname(k) for k in dp)
    return True, "all stores under the first-time guard, values parameter-independent"
