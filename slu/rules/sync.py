"""ORD rules on the pipeline synchronisation (C03/C04): release-after-pivot,
DONE-after-release, busy-skip guard, spin check before busy update, volatile
spin accesses, pessimistic supernode extension, state-enum order, prune/DFS
extent agreement, scheduler decision table."""
from ..util import *
from ..ir import strip_casts, fmt_path, expr_loads, expr_insts, all_operands, dead_edges


def _ids(xs):
    return set(x.i for x in xs)


def release_stores(f):
    return [s for s in f.insts() if s.op == "store" and is_const(s.ops[0], 0) and addr_is_elem_of(f, s, "spin_locks")]


def rule_O1_release_after_pivot(mod, rep):
    rep.rule("O1", "in p?gstrf_thread every store of 0 to spin_locks[] is reached from the scheduler call (and from any earlier release) "
             "only through ?gstrf_factor_snode (relaxed supernode) or through column_dfs -> column_bmod -> pivotL of the same column (regular panel)", floor=8)
    for prec, f in fam(mod, "p?gstrf_thread"):
        rep.scope([f.name])
        sched = list(f.calls("pxgstrf_scheduler"))
        if not sched:
            rep.brk("ANALYSIS-BROKEN O1: no scheduler call in %s" % f.name)
            continue
        rel = release_stores(f)
        piv = list(f.calls("p%sgstrf_pivotL" % prec))
        fs = list(f.calls("p%sgstrf_factor_snode" % prec))
        cb = list(f.calls("p%sgstrf_column_bmod" % prec))
        cd = list(f.calls("p%sgstrf_column_dfs" % prec))
        sid = _ids(sched)
        for n, S in enumerate(rel):
            key = "%s#release%d" % (f.name, n)
            rA = f.reach(sched, stop=lambda x: x.i in sid or x in fs)
            okA = bool(fs) and S.i not in rA
            rB = f.reach(sched + rel, stop=lambda x: x.i in sid or x in piv)
            okB1 = bool(piv) and S.i not in rB
            okB2 = all(P.i not in f.reach(sched + piv, stop=lambda x: x.i in sid or x in cb) for P in piv) and bool(cb)
            okB3 = all(C.i not in f.reach(sched + cb, stop=lambda x: x.i in sid or x in cd) for C in cb) and bool(cd)
            idx = gep_index(f, S.ops[1])
            okIdx = any(same_val(idx, strip_casts(f, P.ops[1])) and f.dominates(P, S) for P in piv)
            if okA:
                rep.ok("O1", key, "release of relaxed supernode columns is preceded by factor_snode on every path from the scheduler", S.loc, f.name)
            elif okB1 and okB2 and okB3 and okIdx:
                rep.ok("O1", key, "release of column jj is preceded by column_dfs, column_bmod, pivotL(jj) on every path from the scheduler or a previous release", S.loc, f.name)
            else:
                why = []
                if not okB1: why.append("a path from the scheduler call or a previous release reaches the release without passing pivotL")
                if not okB2: why.append("pivotL reachable without column_bmod")
                if not okB3: why.append("column_bmod reachable without column_dfs")
                if okB1 and not okIdx: why.append("released index is not the column given to the dominating pivotL call")
                rep.fail("O1", key, "column released before it is final: " + "; ".join(why), S.loc, f.name)


def rule_O2_done_after_release(mod, rep):
    DONE = mod.enums.get("DONE")
    rep.rule("O2", "the store of DONE to pan_status[].state in p?gstrf_thread is reached from the scheduler call only through a release store or the header of a loop containing one", floor=4)
    for prec, f in fam(mod, "p?gstrf_thread"):
        sched = list(f.calls("pxgstrf_scheduler"))
        rel = release_stores(f)
        sid = _ids(sched)
        dones = [s for s in f.insts() if s.op == "store" and is_const(s.ops[0], DONE) and addr_has_field(f, s, "state", "pan_status_t")]
        # a release loop counts as a release site at its header (panel width >= 1 is a data invariant set by ParallelInit)
        heads = set()
        for h, body in f.loops():
            if any(s.bb.id in body for s in rel):
                heads.add(f.blocks[h].insts[0].i)
        for n, D in enumerate(dones):
            r = f.reach(sched, stop=lambda x: x.i in sid or x in rel or x.i in heads)
            rep.check(D.i not in r and bool(rel), "O2", "%s#done%d" % (f.name, n),
                      "DONE store is preceded by a column release on every path from the scheduler",
                      "panel marked DONE on a path that released none of its columns", D.loc, f.name)


def rule_O3_busy_skip(mod, rep):
    rep.rule("O3", "in p?gstrf_panel_dfs every read supno[x] with x loaded from perm_r[] is reached from that load only through the "
             "edge lbusy[x] != jcol of a comparison with the panel's first column; the caller passes the same jcol to mark_busy_descends and panel_dfs", floor=8)
    for prec, f in fam(mod, "p?gstrf_panel_dfs"):
        rep.scope([f.name])
        kp = f.pindex("perm_r"); kl = f.pindex("lbusy"); kj = f.pindex("jcol")
        if None in (kp, kl, kj):
            rep.brk("ANALYSIS-BROKEN O3: parameters perm_r/lbusy/jcol not found in %s" % f.name)
            continue
        n = 0
        for L in f.insts():
            if L.op != "load" or not addr_is_elem_of(f, L, "supno"):
                continue
            x = gep_index(f, L.ops[0])
            if x is None or x[0] != "v":
                continue
            X = f.inst[x[1]]
            if X.op != "load" or (("A", kp), ("i",)) not in f.addr_paths(X):
                continue
            n += 1
            # passing edges: not-equal edge of icmp(load lbusy[x], jcol)
            passing = set()
            for C in f.insts():
                if C.op != "icmp" or C.pred not in ("eq", "ne"):
                    continue
                a, b = strip_casts(f, C.ops[0]), strip_casts(f, C.ops[1])
                for u, v in ((a, b), (b, a)):
                    if u[0] == "v" and f.inst[u[1]].op == "load" and (("A", kl), ("i",)) in f.addr_paths(f.inst[u[1]]) \
                            and same_val(gep_index(f, f.inst[u[1]].ops[0]), x) and v[0] == "a" and v[1] == kj:
                        for bid, eq_t, ne_t in eq_edge(f, C):
                            passing.add((bid, ne_t))
            r = f.reach([X], stop=lambda i: i.i == X.i, dead_edges=passing)
            rep.check(bool(passing) and L.i not in r, "O3", "%s#supno-read%d" % (f.name, n),
                      "supno[perm_r[row]] is read only when lbusy[perm_r[row]] != jcol",
                      "supno[] of a possibly busy column is read without the lbusy[] == jcol skip (no guarding comparison on every path)",
                      L.loc, f.name)
    for prec, f in fam(mod, "p?gstrf_thread"):
        mb = list(f.calls("pxgstrf_mark_busy_descends")); pd = list(f.calls("p%sgstrf_panel_dfs" % prec))
        pb = list(f.calls("p%sgstrf_panel_bmod" % prec))
        ok = bool(mb) and bool(pd) and all(same_value(f, m.ops[1], p.ops[3]) for m in mb for p in pd)
        rep.check(ok, "O3", "%s#jcol-agreement" % f.name, "mark_busy_descends and panel_dfs receive the same panel column",
                  "mark_busy_descends and panel_dfs are called with different panel columns (busy marks would never match)", (pd[0].loc if pd else None), f.name)
        # the lbusy array and the farthest-busy column handed on are the ones mark_busy_descends filled
        ok2 = bool(mb) and bool(pd) and bool(pb) and all(f.paths(m.ops[5]) == f.paths(p.ops[8]) for m in mb for p in pd)
        rep.check(ok2, "O3", "%s#lbusy-agreement" % f.name, "panel_dfs reads the lbusy array mark_busy_descends wrote",
                  "panel_dfs is given a different lbusy array than mark_busy_descends filled", (pd[0].loc if pd else None), f.name)
        ok3 = bool(mb) and bool(pd) and all(f.dominates(m, p) for m in mb for p in pd) and all(f.dominates(p, b) for p in pd for b in pb)
        rep.check(ok3, "O3", "%s#order" % f.name, "mark_busy_descends precedes panel_dfs precedes panel_bmod",
                  "busy marking / panel DFS / panel update are not in this order", (pd[0].loc if pd else None), f.name)


def _spin_addr_index(f, o):
    """if operand o is &spin_locks[k] return cast-stripped k"""
    ps = f.paths(o)
    for p in ps:
        if len(p) >= 3 and p[-1][0] == "i" and p[-2][0] == "*" and p[-3][0] == "f" and p[-3][2] == "spin_locks":
            return gep_index(f, o)
    return None


def rule_O4_spin_before_busy_update(mod, rep):
    rep.rule("O4", "in p?gstrf_panel_bmod every read supno[k] whose k comes from bcol or from etree[] is reached from k's definition only through "
             "await(&spin_locks[k]) or the zero edge of a volatile read of spin_locks[k]; the wait climbs until the supernode number changes", floor=8)
    for prec, f in fam(mod, "p?gstrf_panel_bmod"):
        rep.scope([f.name])
        kb = f.pindex("bcol"); ke = f.pindex("etree")
        if kb is None or ke is None:
            rep.brk("ANALYSIS-BROKEN O4: parameters bcol/etree not found in %s" % f.name)
            continue
        n = 0
        for L in f.insts():
            if L.op != "load" or not addr_is_elem_of(f, L, "supno"):
                continue
            k = gep_index(f, L.ops[0])
            if k is None:
                continue
            ps = f.paths(k)
            from_b = any(p == (("A", kb),) for p in ps)
            from_e = any(p == (("A", ke), ("i",), ("*",)) for p in ps)
            if not (from_b or from_e):
                continue
            n += 1
            # traversal in "unchecked" state from def(k)
            start = f.inst[k[1]] if k[0] == "v" else f.entry()
            awaits = [c for c in f.calls("await") if same_val(_spin_addr_index(f, c.ops[0]), k)]
            passing = set()
            for C in f.insts():
                if C.op != "icmp" or C.pred not in ("eq", "ne"):
                    continue
                a, b = strip_casts(f, C.ops[0]), strip_casts(f, C.ops[1])
                for u, v in ((a, b), (b, a)):
                    if u[0] == "v" and f.inst[u[1]].op == "load" and f.inst[u[1]].vol and is_const(v, 0) \
                            and same_val(_spin_addr_index(f, f.inst[u[1]].ops[0]), k):
                        for bid, eq_t, ne_t in eq_edge(f, C):
                            passing.add((bid, eq_t))
            r = f.reach([start], stop=lambda i: i in awaits or (i.i == start.i), dead_edges=passing,
                        include_start=(k[0] != "v"))
            rep.check((bool(awaits) or bool(passing)) and L.i not in r, "O4", "%s#busy-supno-read%d" % (f.name, n),
                      "supno[kcol] of a possibly busy column is read only after its spin flag was seen 0 or awaited",
                      "supno[kcol] of a possibly busy column is read on a path with no wait on spin_locks[kcol]", L.loc, f.name)
        # the update kernels in the pipeline loop depend (data) on a guarded supno read: they take krep/fsupc computed from it
        upd = [c for c in f.calls() if c.callee and c.callee.startswith("p%sgstrf_bmod" % prec)]
        rep.stats["O4.%s.update_calls" % f.name] = len(upd)


def rule_O4c_fresh_rep(mod, rep):
    rep.rule("O4c", "in p?gstrf_panel_bmod the supernode representative stored into segrep[] for a busy supernode is re-read (xsup_end[ksupno]) after every wait on a "
             "further column of the same supernode: with the exit edge 'supno[waited column] != ksupno' removed, no path leads from that read through a wait to the "
             "segrep store without executing the read again", floor=4)
    for prec, f in fam(mod, "p?gstrf_panel_bmod"):
        ks = f.pindex("segrep")
        # uses: stores into segrep[] whose value comes from an xsup_end load, in the pipeline part (value's supernode index is a supno[] load of a busy column)
        n = 0
        for U in f.insts():
            if U.op != "store" or (("A", ks), ("i",)) not in f.addr_paths(U):
                continue
            Ks = [x for x in expr_insts(f, U.ops[0], through_loads=False) if x.op == "load" and addr_is_elem_of(f, x, "xsup_end")]
            if not Ks:
                continue
            K = Ks[0]
            ksup = gep_index(f, K.ops[0])
            if ksup is None or ksup[0] != "v" or f.inst[ksup[1]].op != "load" or not addr_is_elem_of(f, f.inst[ksup[1]], "supno"):
                continue
            # only the pipeline site: ksupno = supno[k] with k from bcol/etree
            kidx = gep_index(f, f.inst[ksup[1]].ops[0])
            kb = f.pindex("bcol"); ke = f.pindex("etree")
            if kidx is None or not any(p == (("A", kb),) or p == (("A", ke), ("i",), ("*",)) for p in f.paths(kidx)):
                continue
            n += 1
            waits = [c for c in f.calls("await")] + [l for l in f.insts() if l.op == "load" and l.vol and addr_is_elem_of(f, l, "spin_locks")]
            removed = set()
            for C in f.insts():
                if C.op == "icmp" and C.pred in ("eq", "ne"):
                    a, b = strip_casts(f, C.ops[0]), strip_casts(f, C.ops[1])
                    for u, v in ((a, b), (b, a)):
                        if same_val(v, ksup) and u[0] == "v" and f.inst[u[1]].op == "load" and addr_is_elem_of(f, f.inst[u[1]], "supno"):
                            for bid, eq_t, ne_t in eq_edge(f, C):
                                removed.add((bid, ne_t))
            bad = None
            r1 = f.reach([K], stop=lambda x: x.i == K.i, dead_edges=removed)
            for W in waits:
                if W.i in r1:
                    r2 = f.reach([W], stop=lambda x: x.i == K.i, dead_edges=removed)
                    if U.i in r2:
                        bad = W
            rep.check(bad is None and bool(removed), "O4c", "%s#busy-rep%d" % (f.name, n), "SUPER_REP of a busy supernode is re-read after each wait inside the supernode",
                      "the representative column of a busy supernode is read at %s, then a further column of the same supernode is awaited at %s, and the stale "
                      "value is used at %s (the supernode may have grown meanwhile)" % (K.loc, bad.loc if bad else "?", U.loc), U.loc, f.name)


def rule_O9b_relaxed_marking(mod, rep):
    rep.rule("O9b", "pxgstrf_mark_busy_descends, relaxed-supernode branch: every column of the busy relaxed supernode is marked: a loop stores jcol into "
             "lbusy[k] for k = *bcol, *bcol+1, ... < *bcol + pan_status[*bcol].size (unit step)", floor=1)
    f = mod.funcs.get("pxgstrf_mark_busy_descends")
    if f is None:
        return
    from .threads import loop_of, loop_bound
    kb = f.pindex("bcol"); kl = f.pindex("lbusy"); kj = f.pindex("jcol")
    ok = False
    why = "no unit-step marking loop over the relaxed supernode's columns"
    for s in f.insts():
        if s.op != "store" or (("A", kl), ("i",)) not in f.addr_paths(s):
            continue
        if not (strip_casts(f, s.ops[0]) == ["a", kj]):
            continue
        lp = loop_of(f, s)
        if not lp:
            continue
        lb = loop_bound(f, *lp)
        if not lb:
            continue
        ph, pred, bound = lb
        if not same_val(gep_index(f, s.ops[1]), ["v", ph.i]):
            continue
        # start = *bcol ; step = +1 ; bound = *bcol + size.  The two marking loops (relaxed / regular supernode) may be merged into one
        # after the if/else: start and bound are then phis of the join block, and the clause is about the values coming from the relaxed branch
        def alts(o):
            o = strip_casts(f, o)
            if o[0] == "v" and f.inst[o[1]].op == "phi" and f.inst[o[1]].bb.id != ph.bb.id:
                q = f.inst[o[1]]
                return [(b, strip_casts(f, x)) for x, b in zip(q.ops, q.inb)]
            return [(None, o)]
        starts = [strip_casts(f, o) for o in ph.ops]
        step_ok = any(o[0] == "v" and f.inst[o[1]].op == "add" and any(is_const(x, 1) for x in f.inst[o[1]].ops) and any(same_val(strip_casts(f, x), ["v", ph.i]) for x in f.inst[o[1]].ops) for o in starts)
        init = [o for o, b in zip(ph.ops, ph.inb) if b not in lp[1]]
        st_ok = b_ok = False
        for (bs, sv) in [a for o in init for a in alts(o)]:
            if not (sv[0] == "v" and f.inst[sv[1]].op == "load" and (("A", kb), ("*",)) in f.paths(sv)):
                continue
            st_ok = True
            for (bb_, bv) in alts(bound):
                if bs is not None and bb_ is not None and bs != bb_:
                    continue
                if bv[0] == "v" and f.inst[bv[1]].op == "add":
                    lds = [x for x in expr_insts(f, bv) if x.op == "load"]
                    if any(addr_has_field(f, x, "size", "pan_status_t") for x in lds) and any((("A", kb),) in f.addr_paths(x) for x in lds):
                        b_ok = True
        if st_ok and step_ok and b_ok and pred == "slt":
            ok = True
        elif st_ok and b_ok:
            why = "marking loop over the relaxed supernode does not advance by one column (start=%s step+1=%s bound=%s)" % (st_ok, step_ok, b_ok)
    rep.check(ok, "O9b", "pxgstrf_mark_busy_descends#relaxed-marking", "all columns bcol..bcol+size-1 of the busy relaxed supernode are marked busy", why, f.file, f.name)


def rule_O5_volatile(mod, rep):
    rep.rule("O5", "every load/store of pxgstrf_shared_t.spin_locks[] and .tasks_remain, and the load in await(), is volatile", floor=20)
    n = 0
    for f in mod.funcs.values():
        for i in f.insts():
            if i.op not in ("load", "store"):
                continue
            hit = None
            if addr_is_elem_of(f, i, "spin_locks", "pxgstrf_shared_t"):
                hit = "spin_locks[]"
            elif addr_is_field_cell(f, i, "tasks_remain", "pxgstrf_shared_t"):
                hit = "tasks_remain"
            if not hit:
                continue
            n += 1
            rep.check(i.vol, "O5", "%s#%s-%s%d" % (f.name, hit, i.op, n), "%s of %s is volatile" % (i.op, hit),
                      "%s of %s is not volatile: the compiler may hoist it out of the wait loop / cache it" % (i.op, hit), i.loc, f.name)
    f = mod.funcs.get("await")
    if f is None:
        rep.brk("ANALYSIS-BROKEN O5: await() not found")
    else:
        rep.scope(["await"])
        lds = [i for i in f.insts() if i.op == "load" and (("A", 0),) in f.addr_paths(i)]
        rep.check(bool(lds) and all(i.vol for i in lds), "O5", "await#status-load", "await() spins on a volatile load of *status",
                  "await() reads *status with a non-volatile load (or not at all)", (lds[0].loc if lds else f.file), "await")
        # the wait loop: the loop exit must be the zero edge of that load
        ok = False
        for i in lds:
            for u in f.uses.get(i.i, []):
                if u.op == "icmp" and u.pred in ("eq", "ne") and any(is_const(o, 0) for o in u.ops):
                    for bid, eq_t, ne_t in eq_edge(f, u):
                        # not-equal (still busy) edge must lead back to the load; equal edge must reach ret without the load
                        back = f.reach([f.blocks[ne_t].insts[0]], include_start=True)
                        ok = ok or (i.i in back)
        rep.check(ok, "O5", "await#loop", "await() loops back to the load while *status != 0",
                  "await() does not loop while *status is non-zero", f.file, "await")


def rule_O9_supernode_extension(mod, rep):
    rep.rule("O9", "pxgstrf_mark_busy_descends (regular-panel branch): the value written back through *bcol and the first column marked busy "
             "originate from xsup[supno[*bcol - 1]]", floor=1)
    f = mod.funcs.get("pxgstrf_mark_busy_descends")
    if f is None:
        rep.brk("ANALYSIS-BROKEN O9: pxgstrf_mark_busy_descends not found")
        return
    rep.scope([f.name])
    kb = f.pindex("bcol"); kl = f.pindex("lbusy")
    sts = [s for s in f.insts() if s.op == "store" and (("A", kb),) in f.addr_paths(s)]

    def is_fsupc_load(X):
        if X.op != "load" or not addr_is_elem_of(f, X, "xsup"):
            return False
        y = gep_index(f, X.ops[0])
        if y is None or y[0] != "v":
            return False
        Y = f.inst[y[1]]
        if Y.op != "load" or not addr_is_elem_of(f, Y, "supno"):
            return False
        z = gep_index(f, Y.ops[0])
        if z is None or z[0] != "v":
            return False
        Z = f.inst[z[1]]
        if Z.op == "sub" and is_const(Z.ops[1], 1):
            base = strip_casts(f, Z.ops[0])
        elif Z.op == "add" and (is_const(Z.ops[1], -1)):
            base = strip_casts(f, Z.ops[0])
        else:
            return False
        return (("A", kb), ("*",)) in f.paths(base)

    for n, S in enumerate(sts):
        src = expr_insts(f, S.ops[0])
        ok = any(is_fsupc_load(X) for X in src)
        rep.check(ok, "O9", "%s#bcol-writeback%d" % (f.name, n),
                  "*bcol := first column of the supernode containing column *bcol-1 (pessimistic extension)",
                  "*bcol written back is not xsup[supno[*bcol-1]]: the still-growing supernode of the busy column is not treated as busy as a whole", S.loc, f.name)
    if not sts:
        rep.fail("O9", "%s#bcol-writeback" % f.name, "no write-back through *bcol found", f.file, f.name)
    # first column marked busy
    marks = [s for s in f.insts() if s.op == "store" and (("A", kl), ("i",)) in f.addr_paths(s)]
    okm = False
    for s in marks:
        idx = gep_index(f, s.ops[1])
        if idx and idx[0] == "v":
            if any(is_fsupc_load(X) for X in expr_insts(f, idx)):
                okm = True
    rep.check(okm, "O9", "%s#first-marked" % f.name, "busy marking starts at xsup[supno[*bcol-1]]",
              "no lbusy[] marking loop starts at the first column of the extended supernode", f.file, f.name)


def rule_state_enum(mod, rep):
    rep.rule("S-ENUM", "pipe_state_t enumerators are ordered DONE < BUSY < CANGO < CANPIPE < UNREADY (the scheduler compares states with > and >=)", floor=1)
    e = mod.enums
    names = ["DONE", "BUSY", "CANGO", "CANPIPE", "UNREADY"]
    vals = [e.get(n) for n in names]
    ok = None not in vals and all(vals[i] < vals[i + 1] for i in range(4))
    rep.check(ok, "S-ENUM", "pipe_state_t", "order %s" % dict(zip(names, vals)), "state enumerators out of order: %s" % dict(zip(names, vals)), "SRC/pxgstrf_synch.h")


# ------------------------------------------------------------------ O6

_PNAMES = {}      # function name -> {param index: canonical array name bound at its call sites} (helpers extracted from the DFS routines)


def _pname(f, k):
    return _PNAMES.get(f.name, {}).get(k) or f.pname(k)


def _bind_helper_names(mod, h):
    """names of the arrays a static helper receives, resolved at its call sites (param of the caller -> its name, Glu field -> field name)"""
    out = {}
    for k in range(len(h.params)):
        names = set()
        for c in mod.callers.get(h.name, []):
            g = c.fn
            if k >= len(c.ops):
                continue
            for p in g.paths(c.ops[k]):
                if len(p) == 1 and p[0][0] == "A":
                    names.add(_pname(g, p[0][1]))
                elif len(p) >= 2 and p[-1][0] == "*" and p[-2][0] == "f":
                    names.add(p[-2][2])
        if len(names) == 1:
            out[k] = names.pop()
    return out


def _canon_index(f, o, depth=0):
    """canonical expression tree of an integer index value over (array field/param element loads, params, constants)"""
    o = strip_casts(f, o)
    if o[0] == "c":
        return ("k", o[1])
    if o[0] == "a":
        return ("p", _pname(f, o[1]))
    if o[0] != "v" or depth > 8:
        return ("?",)
    ins = f.inst[o[1]]
    if ins.op == "load":
        ps = f.addr_paths(ins)
        arr = None
        for p in ps:
            if len(p) >= 2 and p[-1][0] == "i":
                q = p[:-1]
                if q[-1][0] == "*" and len(q) >= 2 and q[-2][0] == "f":
                    arr = q[-2][2]
                elif len(q) == 1 and q[0][0] == "A":
                    arr = _pname(f, q[0][1])
            elif len(p) >= 2 and p[-1][0] == "*" and p[-2][0] == "f":
                arr = p[-2][2]
        idx = gep_index(f, ins.ops[0])
        return ("ld", arr, _canon_index(f, idx, depth + 1) if idx is not None else ("k", 0))
    if ins.op in ("add", "sub", "mul"):
        a = _canon_index(f, ins.ops[0], depth + 1); b = _canon_index(f, ins.ops[1], depth + 1)
        if ins.op == "add":
            return ("add",) + tuple(sorted([a, b], key=repr))
        return (ins.op, a, b)
    if ins.op == "phi":
        return ("phi", ins.i)
    if ins.op == "select":
        return ("sel", _canon_index(f, ins.ops[1], depth + 1), _canon_index(f, ins.ops[2], depth + 1))
    return ("?", ins.op)


def rule_O6_prune_dfs(mod, rep):
    """pruned readers: xdfs := SINGLETON(supno[krep]) ? xlsub_end[krep] : xlsub[krep], maxdfs := xprune[krep];
    writer (pxgstrf_pruneL) permutes lsub[] between the same begin and xprune."""
    rep.rule("O6", "every DFS site that reads a pruned adjacency list takes (begin,end) = (singleton ? xlsub_end[rep] : xlsub[rep], xprune[rep]) guarded by ispruned[rep]; "
             "unpruned reads take (xlsub[fsupc]+rep-fsupc+1, xlsub_end[fsupc]); pxgstrf_pruneL permutes lsub[] only inside the same begin..xprune range "
             "and sets ispruned[] after xprune[]; every DFS routine has at least one such site (in itself or in a static helper)", floor=12)
    base = []
    for pat in ("p?gstrf_panel_dfs", "p?gstrf_column_dfs"):
        base += [f for _, f in fam(mod, pat)]
    if "pxgstrf_super_bnd_dfs" in mod.funcs:
        base.append(mod.funcs["pxgstrf_super_bnd_dfs"])
    # static helpers extracted from a DFS routine (called only from DFS routines) are readers too; their array parameters get the callers' names
    readers = list(base)
    owner = {f.name: f.name for f in base}
    work = list(base)
    while work:
        g = work.pop()
        for c in g.calls():
            h = mod.funcs.get(c.callee or "")
            if h is None or h.name in owner or not h.internal:
                continue
            if all(x.fn.name in owner for x in mod.callers.get(h.name, [])):
                owner[h.name] = owner[g.name]
                _PNAMES[h.name] = _bind_helper_names(mod, h)
                readers.append(h); work.append(h)
    sites_of = {f.name: 0 for f in base}
    for f in readers:
        rep.scope([f.name])
        # sites: branch on ispruned[rep] != 0
        n = 0
        for C in f.insts():
            if C.op != "icmp" or C.pred not in ("eq", "ne") or not any(is_const(o, 0) for o in C.ops):
                continue
            lo = [strip_casts(f, o) for o in C.ops if not is_const(o, 0)]
            if not lo or lo[0][0] != "v":
                continue
            LD = f.inst[lo[0][1]]
            if LD.op != "load":
                continue
            arr = _canon_index(f, lo[0])
            if arr[0] != "ld" or arr[1] != "ispruned":
                continue
            rep_idx = arr[2]
            n += 1
            sites_of[owner[f.name]] += 1
            key = "%s#pruned-site%d" % (f.name, n)
            edges = eq_edge(f, C)
            if not edges:
                continue
            bid, eq_t, ne_t = edges[0]    # ne_t: ispruned != 0 -> pruned branch
            pruned_blocks = _region(f, ne_t, eq_t)
            unpruned_blocks = _region(f, eq_t, ne_t)
            # in the pruned region: loads of xprune[rep], and of xlsub/xlsub_end[rep]; no xlsub[fsupc] arithmetic
            pl = _region_loads(f, pruned_blocks)
            ul = _region_loads(f, unpruned_blocks)
            want_p = {("ld", "xprune", rep_idx), ("ld", "xlsub", rep_idx), ("ld", "xlsub_end", rep_idx)}
            got_p = set(x for x in pl if x[0] == "ld" and x[1] in ("xprune", "xlsub", "xlsub_end"))
            okp = want_p == got_p
            got_u = set(x for x in ul if x[0] == "ld" and x[1] in ("xprune", "xlsub", "xlsub_end"))
            oku = len(got_u) == 2 and all(x[1] in ("xlsub", "xlsub_end") for x in got_u) and len(set(x[2] for x in got_u)) == 1 \
                and not any(x[1] == "xprune" for x in got_u)
            # singleton test in pruned region: compare xsup_end[s]-xsup[s] == 1 (SINGLETON) selects xlsub_end
            oks = _singleton_selects_end(f, pruned_blocks, rep_idx)
            rep.check(okp and oku and oks, "O6", key,
                      "pruned list read through (singleton?xlsub_end:xlsub, xprune)[rep]; unpruned through (xlsub, xlsub_end)[fsupc]",
                      "DFS extent of a (un)pruned list deviates: pruned loads %s, unpruned loads %s, singleton-selects-end=%s" % (sorted(got_p), sorted(got_u), oks),
                      C.loc, f.name)
    for nm, k in sorted(sites_of.items()):
        if k == 0:
            fs = [mod.funcs[x] for x, o_ in owner.items() if o_ == nm and x in mod.funcs]
            reads_xprune = [x for g_ in fs for x in g_.insts() if x.op == "load" and _canon_index(g_, ["v", x.i])[:2] == ("ld", "xprune")]
            if reads_xprune:
                rep.fail("O6", "%s#pruned-site" % nm, "%s reads the pruned extent xprune[] at %s but never tests ispruned[]: a DFS that overlaps with pxgstrf_pruneL on the same "
                         "supernode walks a list that is being permuted" % (nm, reads_xprune[0].loc), reads_xprune[0].loc, nm)
            else:
                rep.brk("ANALYSIS-BROKEN O6: no pruned/unpruned selection site found in %s or its helpers" % nm)
    f = mod.funcs.get("pxgstrf_pruneL")
    if f is None:
        rep.brk("ANALYSIS-BROKEN O6: pxgstrf_pruneL not found")
        return
    rep.scope([f.name])
    sts = [s for s in f.insts() if s.op == "store" and addr_is_elem_of(f, s, "lsub")]
    for n, s in enumerate(sts):
        idx = gep_index(f, s.ops[1])
        # index must be a phi-carried cursor whose roots are xlsub/xlsub_end[irep] (begin) or xprune-1/xlsub_end-1 (end)
        roots = set()
        for x in expr_insts(f, idx, through_loads=False):
            if x.op == "load":
                c = _canon_index(f, ["v", x.i])
                if c[0] == "ld":
                    roots.add(c[1])
        ok = roots and roots <= {"xlsub", "xlsub_end", "xprune"}
        rep.check(ok, "O6", "pxgstrf_pruneL#lsub-store%d" % n, "lsub[] permuted at a cursor derived from %s of the pruned supernode" % sorted(roots),
                  "pxgstrf_pruneL writes lsub[] at an index not derived from the supernode's own xlsub/xlsub_end/xprune extents: %s" % sorted(roots), s.loc, f.name)
    # ispruned[irep] := 1 is preceded by the xprune[irep] store on every path
    isp = [s for s in f.insts() if s.op == "store" and (("A", f.pindex("ispruned")), ("i",)) in f.addr_paths(s)]
    xpr = [s for s in f.insts() if s.op == "store" and (("A", f.pindex("xprune")), ("i",)) in f.addr_paths(s)]
    for n, s in enumerate(isp):
        ok = any(f.dominates(x, s) and same_val(gep_index(f, x.ops[1]), gep_index(f, s.ops[1])) for x in xpr)
        rep.check(ok, "O6", "pxgstrf_pruneL#ispruned-after-xprune%d" % n, "ispruned[irep] is set after xprune[irep]",
                  "ispruned[irep] is published before xprune[irep] is written (a concurrent DFS would use a stale end)", s.loc, f.name)
    if not isp:
        rep.fail("O6", "pxgstrf_pruneL#ispruned", "no store to ispruned[] found", f.file, f.name)


def _region(f, start_bid, other_bid):
    """blocks reachable from start before re-joining blocks also reachable from other (approximate branch region)"""
    def reach_blocks(b0):
        seen = set(); w = [b0]
        while w:
            b = w.pop()
            if b in seen:
                continue
            seen.add(b)
            for s in f.blocks[b].succ:
                w.append(s.id)
        return seen
    ra = reach_blocks(start_bid); rb = reach_blocks(other_bid)
    # region = blocks dominated by start and not dominated-equal by other
    dom = f.dom()
    return set(b for b in ra if start_bid in dom[b] and b not in (rb - ra) and (b == start_bid or other_bid not in dom[b]))


def _region_loads(f, blocks):
    out = []
    for b in blocks:
        for i in f.blocks[b].insts:
            if i.op == "load":
                c = _canon_index(f, ["v", i.i])
                if c[0] == "ld":
                    out.append(c)
    return out


def _singleton_selects_end(f, blocks, rep_idx):
    """inside region: a compare ((xsup_end[s] - xsup[s]) == 1) whose true side loads xlsub_end[rep] and false side xlsub[rep]"""
    for b in blocks:
        for C in f.blocks[b].insts:
            if C.op != "icmp" or C.pred not in ("eq", "ne") or not any(is_const(o, 1) for o in C.ops):
                continue
            other = [o for o in C.ops if not is_const(o, 1)]
            if not other:
                continue
            c = _canon_index(f, other[0])
            if c[0] != "sub" or c[1][0] != "ld" or c[1][1] != "xsup_end" or c[2][0] != "ld" or c[2][1] != "xsup" or c[1][2] != c[2][2]:
                continue
            if c[1][2] != ("ld", "supno", rep_idx):
                continue
            for bid, eq_t, ne_t in eq_edge(f, C):
                tl = _region_loads(f, _region(f, eq_t, ne_t))
                fl = _region_loads(f, _region(f, ne_t, eq_t))
                if ("ld", "xlsub_end", rep_idx) in tl and ("ld", "xlsub", rep_idx) in fl and ("ld", "xlsub", rep_idx) not in tl:
                    return True
    return False


def rule_sched_table(mod, rep):
    pass
