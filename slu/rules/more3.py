"""Round-3 rules."""
from ..util import *
from ..ir import fmt_path, strip_casts, expr_insts, expr_loads, dead_edges
from .more import _Poly, _PRED, _kernel_sites
from .pivot import _cd_closure


def _edge_truth(f, a, s):
    """truth value of the branch condition of block a on the edge a -> s"""
    t = f.blocks[a].insts[-1]
    return s == t.tgt[0]


# ---------------------------------------------------------------------------------------------------------------------------------
# KERN-BASE (C01 C02): the column offset of a kernel operand is counted from the column whose xlusup[] entry is the base of that operand
# ---------------------------------------------------------------------------------------------------------------------------------
def rule_kernel_base(mod, rep):
    from .layout import padd, pfmt
    rep.rule("KERN-BASE", "supernodal update kernels: an operand &lusup[ xlusup[B] + ld*(K - S) + ... ] skips whole columns of the supernode counted from the column B whose "
             "storage start is the base: S and B are the same value (p?gstrf_column_bmod starts at fst_col = max(fsupc, first panel column), the panel kernels at fsupc)", floor=12)
    for f in mod.funcs.values():
        if not (f.name.startswith("p") and "gstrf_" in f.name and "bmod" in f.name):
            continue
        sites = _kernel_sites(mod, f)
        if not sites or not mod.callers.get(f.name):
            continue
        rep.scope([f.name])
        P = _Poly(f)
        n = 0
        for (c, kind, ka, kl, byref) in sites:
            A = strip_casts(f, c.ops[ka])
            if A[0] != "v" or f.inst[A[1]].op != "getelementptr":
                continue
            idx = [s["v"] for s in f.inst[A[1]].gep if s["k"] == "idx"]
            if len(idx) != 1:
                continue
            if byref:
                ldp = strip_casts(f, c.ops[kl])
                st = [s for s in f.insts() if s.op == "store" and strip_casts(f, s.ops[1]) == ldp]
                lds = {tuple(sorted(P.of(s.ops[0]).items())) for s in st}
                if len(lds) != 1:
                    continue
                ld = dict(lds.pop())
            else:
                ld = P.of(c.ops[kl]); ldp = None
            cof = {}
            bases = []
            for (sg, leaf) in P.additive_leaves(idx[0]):
                if leaf[0] == "v" and f.inst[leaf[1]].op == "mul":
                    m = f.inst[leaf[1]]
                    for k in (0, 1):
                        mk = strip_casts(f, m.ops[k])
                        same_cell = ldp is not None and mk[0] == "v" and f.inst[mk[1]].op == "load" and strip_casts(f, f.inst[mk[1]].ops[0]) == ldp
                        if P.of(m.ops[k]) == ld or same_cell:
                            cof = padd(cof, P.of(m.ops[1 - k]), sg)
                            break
                elif leaf[0] == "v" and f.inst[leaf[1]].op == "load" and addr_is_elem_of(f, f.inst[leaf[1]], "xlusup"):
                    bi = gep_index(f, f.inst[leaf[1]].ops[0])
                    if bi is not None:
                        bases.append(P.of(bi))
            if not cof or len(bases) != 1:
                continue
            n += 1
            tot = padd(cof, bases[0])
            ok = all(v >= 0 for v in tot.values())
            rep.check(ok, "KERN-BASE", "%s#%s@%s" % (f.name, c.callee, c.ln), "column offset (%s) is counted from the base column %s" % (pfmt(cof), pfmt(bases[0])),
                      "the operand starts at xlusup[%s] but skips ld*(%s) columns: the offset is counted from another column than the base, every access of this update is shifted"
                      % (pfmt(bases[0]), pfmt(cof)), c.loc, f.name)


# ---------------------------------------------------------------------------------------------------------------------------------
# PRUNE-GUARD (C02 C03): a supernode is pruned by column jcol only if U(irep, jcol) != 0
# ---------------------------------------------------------------------------------------------------------------------------------
def rule_prune_guard(mod, rep):
    rep.rule("PRUNE-GUARD", "pxgstrf_pruneL: the stores that prune supernode irep (xprune[irep], ispruned[irep]) are reached only on the edge repfnz[irep] != EMPTY - segrep[] is the "
             "panel-wide list, the column's own U-segments are those with a first nonzero", floor=2)
    f = mod.funcs.get("pxgstrf_pruneL")
    if f is None:
        rep.brk("ANALYSIS-BROKEN PRUNE-GUARD: pxgstrf_pruneL not found")
        return
    rep.scope([f.name])
    kr = f.pindex("repfnz")
    sts = [s for s in f.insts() if s.op == "store" and any(p[0] in (("A", f.pindex("xprune")), ("A", f.pindex("ispruned"))) for p in f.addr_paths(s))]
    for n, s in enumerate(sts):
        idx = gep_index(f, s.ops[1])
        ok = False
        for (a, sd) in _cd_closure(f, s.bb.id):
            t = f.blocks[a].insts[-1]
            if t.op != "br" or not t.ops or t.ops[0][0] != "v":
                continue
            C = f.inst[t.ops[0][1]]
            if C.op != "icmp" or C.pred not in ("eq", "ne"):
                continue
            ops = [strip_casts(f, o) for o in C.ops]
            for k in (0, 1):
                if is_const(ops[1 - k], -1) and ops[k][0] == "v" and f.inst[ops[k][1]].op == "load" and (("A", kr), ("i",)) in f.addr_paths(f.inst[ops[k][1]]):
                    same = idx is not None and same_val(strip_casts(f, gep_index(f, f.inst[ops[k][1]].ops[0])), strip_casts(f, idx))
                    ne_edge = (C.pred == "ne") == _edge_truth(f, a, sd)
                    if same and ne_edge:
                        ok = True
        rep.check(ok, "PRUNE-GUARD", "pxgstrf_pruneL#prune-store%d" % n, "pruning of irep requires repfnz[irep] != EMPTY",
                  "supernode irep is pruned although the current column has no U-segment there (repfnz[irep] is not tested): later DFS passes lose fill rows", s.loc, f.name)


# ---------------------------------------------------------------------------------------------------------------------------------
# CURSOR-STEP (C13 C19): a strided cursor advances on every iteration of its loop
# ---------------------------------------------------------------------------------------------------------------------------------
def rule_cursor_step(mod, rep, pats=("sp_?gemv", "sp_?gemm", "sp_?trsv"), floor=8):
    from .ext import _owned_helpers
    rep.rule("CURSOR-STEP", "sparse BLAS: a vector cursor that is advanced by an increment parameter (jx += incx) inside a counted loop is advanced on every path through the "
             "iteration - the value arriving at the loop header from inside the loop is always cursor + inc, never the unchanged cursor (a `continue` placed before the increment "
             "leaves x and the column counter out of step)", floor=floor)
    from .threads import loop_bound
    for pat in pats:
        for prec, f0 in fam(mod, pat):
            for f in [f0] + [h for (h, c, g) in _owned_helpers(mod, f0)]:
                rep.scope([f.name])
                for h, body in f.loops():
                    if not loop_bound(f, h, body):
                        continue
                    for ph in f.blocks[h].insts:
                        if ph.op != "phi" or not ph.ty.startswith("i"):
                            continue
                        inloop = [strip_casts(f, o) for o, b in zip(ph.ops, ph.inb) if b in body]
                        def leaves(o, depth=0):
                            if o[0] == "v" and f.inst[o[1]].op == "phi" and f.inst[o[1]].bb.id in body and f.inst[o[1]].i != ph.i and depth < 4:
                                out = []
                                for z in f.inst[o[1]].ops:
                                    out += leaves(strip_casts(f, z), depth + 1)
                                return out
                            return [o]
                        steps = []
                        for o in [l for x in inloop for l in leaves(x)]:
                            if o[0] == "v" and f.inst[o[1]].op == "add" and any(strip_casts(f, x) == ["v", ph.i] for x in f.inst[o[1]].ops) and \
                                    any(strip_casts(f, x)[0] == "a" for x in f.inst[o[1]].ops):
                                steps.append(o)
                        if not steps:
                            continue
                        # also values merged through a phi inside the body (if/continue joins)
                        def resolves_unchanged(o, depth=0):
                            if o == ["v", ph.i]:
                                return True
                            if o[0] == "v" and f.inst[o[1]].op == "phi" and f.inst[o[1]].bb.id in body and depth < 4:
                                return any(resolves_unchanged(strip_casts(f, z), depth + 1) for z in f.inst[o[1]].ops)
                            return False
                        bad = [o for o in inloop if resolves_unchanged(o)]
                        rep.check(not bad, "CURSOR-STEP", "%s#%s@%s" % (f.name, ph.dn or "cursor", f.blocks[h].insts[-1].ln), "cursor advances by its increment on every iteration",
                                  "the cursor '%s' can reach the next iteration unchanged while the loop counter advances: the remaining elements are read from the wrong positions"
                                  % (ph.dn or "?"), f.blocks[h].insts[-1].loc, f.name)


# ---------------------------------------------------------------------------------------------------------------------------------
# MINMAX-SCAN (C11): min and max of one scan are updated independently
# ---------------------------------------------------------------------------------------------------------------------------------
def rule_minmax_scan(mod, rep, pats=("?gsequ",), floor=8):
    rep.rule("MINMAX-SCAN", "?gsequ: in the loops that find the largest and the smallest scale factor, the update of each accumulator is decided by its own comparison only: "
             "the block (or select) that lowers the minimum is not control dependent on the outcome of the comparison with the maximum, and vice versa (an `else if` makes "
             "the first element - always a new maximum - invisible to the minimum)", floor=floor)
    from .ext import _owned_helpers
    for pat in pats:
        for prec, f0 in fam(mod, pat):
          for f in [f0] + [hh for (hh, cc, gg) in _owned_helpers(mod, f0)]:
            rep.scope([f.name])
            for h, body in f.loops():
                hb = f.blocks[h]
                accs = [ph for ph in hb.insts if ph.op == "phi" and ph.ty in ("float", "double")]
                if len(accs) < 2:
                    continue
                # accumulators: header phi whose in-loop value is select/phi between itself and a loaded element under an fcmp with itself
                info = []
                for ph in accs:
                    for o, b in zip(ph.ops, ph.inb):
                        if b not in body:
                            continue
                        o = strip_casts(f, o)
                        if o[0] != "v":
                            continue
                        x = f.inst[o[1]]
                        if x.op == "select":
                            C = f.inst[x.ops[0][1]] if x.ops[0][0] == "v" else None
                            if C is not None and C.op == "fcmp" and any(strip_casts(f, z) == ["v", ph.i] for z in C.ops):
                                info.append((ph, x, "select", C))
                        elif x.op == "phi" and x.bb.id in body:
                            info.append((ph, x, "phi", None))
                if len(info) < 2:
                    continue
                for (ph, x, kind, C) in info:
                    bad = None
                    if kind == "phi":
                        # the update block(s): incoming blocks of x whose value is not the accumulator itself
                        for o, b in zip(x.ops, x.inb):
                            if strip_casts(f, o) == ["v", ph.i]:
                                continue
                            for (a, s) in _cd_closure(f, b):
                                if a not in body:
                                    continue
                                t = f.blocks[a].insts[-1]
                                if t.op == "br" and t.ops and t.ops[0][0] == "v":
                                    CC = f.inst[t.ops[0][1]]
                                    if CC.op == "fcmp":
                                        others = [q for (q, _, _, _) in info if q.i != ph.i and any(strip_casts(f, z) == ["v", q.i] for z in CC.ops)]
                                        if others:
                                            bad = CC
                    rep.check(bad is None, "MINMAX-SCAN", "%s#%s@%s" % (f.name, ph.dn or "acc", hb.insts[-1].ln), "accumulator '%s' is updated under its own comparison only" % (ph.dn or "?"),
                              "the update of '%s' also depends on the comparison at line %s with the other accumulator: elements that update the one are never considered for the other"
                              % (ph.dn or "?", bad.ln if bad else "?"), hb.insts[-1].loc, f.name)


# ---------------------------------------------------------------------------------------------------------------------------------
# SCHED-TAKE / WORKER-LOOP (C04)
# ---------------------------------------------------------------------------------------------------------------------------------
def rule_sched_take(mod, rep):
    e = mod.enums
    rep.rule("SCHED-TAKE", "pxgstrf_scheduler: the finished worker takes its parent panel directly only when the parent's state is one of the not-yet-started states "
             "(CANGO, CANPIPE): the comparison on pan_status[dad].state that guards `jcol = dad`, evaluated on every enumerator, admits neither DONE nor BUSY", floor=1)
    f = mod.funcs.get("pxgstrf_scheduler")
    if f is None:
        rep.brk("ANALYSIS-BROKEN SCHED-TAKE: pxgstrf_scheduler not found")
        return
    rep.scope([f.name])
    names = ["DONE", "BUSY", "CANGO", "CANPIPE", "UNREADY"]
    vals = {n: e[n] for n in names if n in e}
    sites = 0
    for C in f.insts():
        if C.op != "icmp":
            continue
        ops = [strip_casts(f, o) for o in C.ops]
        for k in (0, 1):
            if ops[1 - k][0] == "c" and ops[k][0] == "v" and f.inst[ops[k][1]].op == "load" and addr_has_field(f, f.inst[ops[k][1]], "state", "pan_status_t") \
                    and ops[1 - k][1] in vals.values() and C.pred in ("sgt", "sge", "ugt", "uge", "ne", "slt", "sle", "ult", "ule", "eq"):
                # is this the take-dad test?  its true/false edge leads to a block that neither dequeues nor locks: decide by the ukids == 0 companion test
                cd_ukids = False
                for u in f.uses.get(C.i, []):
                    pass
                blk = C.bb
                comp = any(x.op == "icmp" and any(is_const(o, 0) for o in x.ops) and any(
                    strip_casts(f, o)[0] == "v" and f.inst[strip_casts(f, o)[1]].op == "load" and addr_has_field(f, f.inst[strip_casts(f, o)[1]], "ukids", "pan_status_t") or
                    (strip_casts(f, o)[0] == "v" and f.inst[strip_casts(f, o)[1]].op in ("phi", "add", "sub") ) for o in x.ops)
                    for (a, s) in _cd_closure(f, blk.id) for x in [f.inst[f.blocks[a].insts[-1].ops[0][1]]] if f.blocks[a].insts[-1].op == "br" and f.blocks[a].insts[-1].ops and f.blocks[a].insts[-1].ops[0][0] == "v")
                if not comp:
                    continue
                sites += 1
                pr = _PRED[C.pred]
                K = ops[1 - k][1]
                ev = (lambda v: pr(v, K)) if k == 0 else (lambda v: pr(K, v))
                # the taken edge: the one on which jcol := dad (no dequeue follows): by construction the `true` edge of the conjunction
                allowed = sorted(n for n, v in vals.items() if ev(v))
                ok = set(allowed) <= {"CANGO", "CANPIPE", "UNREADY"} and "CANGO" in allowed and "CANPIPE" in allowed
                rep.check(ok, "SCHED-TAKE", "pxgstrf_scheduler#take-dad", "parent taken only in states %s" % allowed,
                          "the parent panel is taken directly in states %s: a parent that is already DONE (or BUSY) would be handed out a second time" % allowed, C.loc, f.name)
    if sites == 0:
        rep.brk("ANALYSIS-BROKEN SCHED-TAKE: no state test next to the ukids == 0 test found in pxgstrf_scheduler")


def rule_worker_loop(mod, rep):
    rep.rule("WORKER-LOOP", "p?gstrf_thread: the scheduling loop is left through its own test only when tasks_remain <= 0 - the test compares the (volatile) counter with the "
             "constant 0, for every thread alike", floor=4)
    for prec, f in fam(mod, "p?gstrf_thread"):
        rep.scope([f.name])
        sched = list(f.calls("pxgstrf_scheduler"))
        found = False
        for h, body in f.loops():
            if not any(c.bb.id in body for c in sched):
                continue
            t = f.blocks[h].insts[-1]
            if t.op != "br" or not t.ops or t.ops[0][0] != "v":
                continue
            C = f.inst[t.ops[0][1]]
            if C.op != "icmp":
                continue
            ops = [strip_casts(f, o) for o in C.ops]
            for k in (0, 1):
                if ops[k][0] == "v" and f.inst[ops[k][1]].op == "load" and addr_is_field_cell(f, f.inst[ops[k][1]], "tasks_remain", "pxgstrf_shared_t"):
                    found = True
                    other = ops[1 - k]
                    ok = False
                    if other[0] == "c" and C.pred in _PRED:
                        pr = _PRED[C.pred]; K = other[1]
                        ev = (lambda v: pr(v, K)) if k == 0 else (lambda v: pr(K, v))
                        stay_true = t.tgt[0] in body
                        stays = [v for v in (-1, 0, 1, 2, 1000) if ev(v) == stay_true]
                        ok = stays == [1, 2, 1000]
                    rep.check(ok, "WORKER-LOOP", "%s#loop-test" % f.name, "loop continues exactly while tasks_remain > 0",
                              "the worker leaves (or stays in) the scheduling loop on a condition other than tasks_remain > 0: a worker that retires early never reports its last "
                              "panel to the scheduler, the parent is never handed out and the remaining workers poll forever", C.loc, f.name)
        if not found:
            rep.brk("ANALYSIS-BROKEN WORKER-LOOP: scheduling loop test on tasks_remain not found in %s" % f.name)


# ---------------------------------------------------------------------------------------------------------------------------------
# LANGS-ROWS (C19)
# ---------------------------------------------------------------------------------------------------------------------------------
def rule_langs_rows(mod, rep):
    from .threads import loop_bound
    rep.rule("LANGS-ROWS", "?langs, infinity norm: every counted loop that indexes the row-sum array by its counter runs to the number of elements the array was allocated "
             "with (A->nrow)", floor=8)
    for prec, f in fam(mod, "?langs"):
        rep.scope([f.name])
        P = _Poly(f)
        allocs = [c for c in f.calls() if (c.callee or "") in ("superlu_malloc", "intMalloc", "doubleMalloc", "floatMalloc")]
        for c in allocs:
            size = P.of(c.ops[0])
            n = 0
            for h, body in f.loops():
                lb = loop_bound(f, h, body)
                if not lb:
                    continue
                uses = [x for x in f.insts() if x.bb.id in body and x.op in ("load", "store") and
                        any(p[0] == ("C", c.callee, c.i) for p in f.addr_paths(x)) and
                        gep_index(f, x.ops[0] if x.op == "load" else x.ops[1]) is not None and
                        strip_casts(f, gep_index(f, x.ops[0] if x.op == "load" else x.ops[1])) == ["v", lb[0].i]]
                if not uses:
                    continue
                n += 1
                bound = P.of(lb[2])
                # size = bound * element size
                ok = any(all(size.get(k, 0) == v * w for k, v in bound.items()) and len(size) == len(bound) for w in (4, 8, 16))
                rep.check(ok, "LANGS-ROWS", "%s#loop@%s" % (f.name, f.blocks[h].insts[-1].ln), "loop bound equals the allocation count",
                          "a loop over the row sums runs to another bound than the %s elements that were allocated" % fmt_paths(f, f.paths(c.ops[0])) if False else
                          "a loop over the row-sum array runs to a bound different from the count it was allocated with (rectangular A: rows beyond ncol are ignored / read past the block)",
                          f.blocks[h].insts[-1].loc, f.name)


# ---------------------------------------------------------------------------------------------------------------------------------
# W-ZERO (C14 C18): the numeric work arrays start as zeros in both memory modes
# ---------------------------------------------------------------------------------------------------------------------------------
def rule_work_zero(mod, rep):
    rep.rule("W-ZERO", "p?gstrf_SetRWork: dense[] (the sparse accumulator) and tempv[] are filled with zero by the routine itself - the buffer comes from malloc or from the "
             "caller's work space, neither of which is clear", floor=8)
    for prec, f in fam(mod, "p?gstrf_SetRWork"):
        rep.scope([f.name])
        for nm in ("dense", "tempv"):
            k = f.pindex(nm)
            cell = (("A", k), ("*",))
            fills = []
            for c in f.calls():
                cal = c.callee or ""
                if cal.endswith("fill") or cal.startswith("llvm.memset"):
                    ptr = c.ops[0]
                    if any(p == cell for p in f.paths(ptr)):
                        zero = True
                        if cal.endswith("fill"):
                            v = strip_casts(f, c.ops[2]) if len(c.ops) > 2 else None
                            # value operand: constant 0.0, or a load of a local that only ever holds 0 (complex zero struct)
                            zero = v is not None and ((v[0] == "f" and v[1] == 0.0) or v[0] in ("v", "zero", "a"))
                        fills.append(c)
            # dominated return: every return is preceded by a fill
            ok = bool(fills) and all(any(f.dominates(c, r) for c in fills) for r in f.rets())
            rep.check(ok, "W-ZERO", "%s#%s" % (f.name, nm), "%s[] is zero-filled before the routine returns" % nm,
                      "%s[] is handed to the factorization without being cleared: in a caller-supplied work space it holds whatever the buffer contained" % nm, f.file, f.name)


# ---------------------------------------------------------------------------------------------------------------------------------
# FIXUP-SNAP (C09), Q-ORDER (C03), CURSOR-RESET (C08), CREATE-ONLY-FIRST (C17)
# ---------------------------------------------------------------------------------------------------------------------------------
def rule_fixup_snapshot(mod, rep):
    from .threads import loop_bound
    rep.rule("FIXUP-SNAP", "fixupL compacts lsub[] from a snapshot: the copy that fills the snapshot covers all Glu->nextl entries in use (supernode numbers and storage "
             "positions are issued under different locks, so the highest-numbered supernode need not be the last one in storage)", floor=1)
    f = mod.funcs.get("fixupL")
    if f is None:
        rep.brk("ANALYSIS-BROKEN FIXUP-SNAP: fixupL not found")
        return
    rep.scope([f.name])
    allocs = [c for c in f.calls() if (c.callee or "") in ("intMalloc", "superlu_malloc", "intCalloc")]
    n = 0
    for c in allocs:
        for h, body in f.loops():
            lb = loop_bound(f, h, body)
            if not lb:
                continue
            copies = [s for s in f.insts() if s.bb.id in body and s.op == "store" and any(p[0] == ("C", c.callee, c.i) for p in f.addr_paths(s)) and
                      any(addr_is_elem_of(f, l, "lsub") for l in expr_loads(f, s.ops[0]))]
            if not copies:
                continue
            n += 1
            b = strip_casts(f, lb[2])
            ok = b[0] == "v" and f.inst[b[1]].op == "load" and any(p[-1][0] == "f" and p[-1][2] == "nextl" for p in f.addr_paths(f.inst[b[1]]))
            rep.check(ok, "FIXUP-SNAP", "fixupL#snapshot-copy", "snapshot copy runs over Glu->nextl entries",
                      "the snapshot copy stops at %s instead of Glu->nextl: the subscripts of a supernode stored behind that point are compacted from uninitialised memory"
                      % fmt_paths(f, f.paths(lb[2])), copies[0].loc, f.name)
        memc = [x for x in f.calls() if (x.callee or "").startswith("llvm.memcpy") and any(p[0] == ("C", c.callee, c.i) for p in f.paths(x.ops[0]))]
        for x in memc:
            n += 1
            ok = any(any(p[-1][0] == "f" and p[-1][2] == "nextl" for p in f.addr_paths(l)) for l in expr_loads(f, x.ops[2]))
            rep.check(ok, "FIXUP-SNAP", "fixupL#snapshot-copy", "snapshot copy covers Glu->nextl entries", "the snapshot memcpy length is not derived from Glu->nextl", x.loc, f.name)
    if n == 0:
        rep.brk("ANALYSIS-BROKEN FIXUP-SNAP: no snapshot copy of lsub[] found in fixupL")


def rule_queue_order(mod, rep):
    from .threads import loop_bound
    rep.rule("Q-ORDER", "EnqueueRelaxSnode: the relaxed supernodes enter the task queue in column order - the value stored at queue[tail++] in iteration rs is "
             "pxgstrf_relax[rs].fcol with rs counting up by one (pxgstrf_mark_busy_descends relies on a busy relaxed supernode being its parent's youngest child)", floor=1)
    f = mod.funcs.get("EnqueueRelaxSnode")
    if f is None:
        rep.brk("ANALYSIS-BROKEN Q-ORDER: EnqueueRelaxSnode not found")
        return
    rep.scope([f.name])
    n = 0
    # enqueue events: a store into queue[] here, or a call of a helper (Enqueue) whose summary stores one of its scalar arguments into queue[]
    from ..summ import store_summary
    events = [(s, strip_casts(f, s.ops[0])) for s in f.insts() if s.op == "store" and addr_is_elem_of(f, s, "queue")]
    for c in f.calls():
        g = mod.funcs.get(c.callee or "")
        if g is None:
            continue
        for (k, sfx, roots, unknown) in (store_summary(mod, g) or []):
            if any(isinstance(st, tuple) and len(st) >= 3 and st[0] == "f" and st[2] == "queue" for st in sfx):
                for (k2, sfx2) in roots:
                    if not sfx2 and k2 < len(c.ops):
                        events.append((c, strip_casts(f, c.ops[k2])))
    for (s, v) in events:
        n += 1
        ok = False
        if v[0] == "v" and f.inst[v[1]].op == "load":
            L = f.inst[v[1]]
            a0 = strip_casts(f, L.ops[0])
            g0 = f.inst[a0[1]] if a0[0] == "v" else None
            first_field = g0 is not None and g0.op == "getelementptr" and g0.gep and g0.gep[-1].get("k") == "fld" and g0.gep[-1].get("i") == 0
            # (the struct {fcol, size} is merged by llvm-link with other two-int structs, so the field is identified by its position)
            if first_field and any(p[0] == ("A", f.pindex("pxgstrf_relax")) for p in f.addr_paths(L)):
                # index of the relax[] element = the counter of the enclosing unit-step loop
                a = strip_casts(f, L.ops[0])
                g = f.inst[a[1]] if a[0] == "v" else None
                base = g
                idxv = None
                while base is not None and base.op == "getelementptr":
                    for st in base.gep:
                        if st["k"] == "idx" and not (st["v"][0] == "c" and st["v"][1] == 0):
                            idxv = strip_casts(f, st["v"])
                    nb = strip_casts(f, base.ops[0])
                    base = f.inst[nb[1]] if nb[0] == "v" else None
                encl = [(h, body) for h, body in f.loops() if s.bb.id in body]
                for h, body in encl:
                    lb = loop_bound(f, h, body)
                    if lb and idxv == ["v", lb[0].i] and len(encl) == 1:
                        step = [strip_casts(f, o) for o, b in zip(lb[0].ops, lb[0].inb) if b in body]
                        # executed in every iteration: not control dependent on anything but the loop test
                        cds = [(a, t_) for (a, t_) in f.control_deps().get(s.bb.id, ()) if a in body and a != h]
                        if any(o[0] == "v" and f.inst[o[1]].op == "add" and any(is_const(z, 1) for z in f.inst[o[1]].ops) for o in step) and not cds:
                            ok = True
        rep.check(ok, "Q-ORDER", "EnqueueRelaxSnode#enqueue%d" % n, "queue receives pxgstrf_relax[rs].fcol for rs = 1, 2, ...",
                  "the initial task queue is not filled once per relaxed supernode in increasing column order (single unit-step pass, unconditional)", s.loc, f.name)
    if n == 0:
        rep.brk("ANALYSIS-BROKEN Q-ORDER: no store into the queue in EnqueueRelaxSnode")


def rule_cursor_reset(mod, rep):
    rep.rule("CURSOR-RESET", "p?gstrf_thread_init: the fill cursors of the (static) Glu - nsuper, nextl, nextu, nextlu - are reset on every call, first factorization and "
             "refactorization alike: each reset store dominates the p?gstrf_MemInit call", floor=16)
    for prec, f in fam(mod, "p?gstrf_thread_init"):
        rep.scope([f.name])
        mi = list(f.calls("p%sgstrf_MemInit" % prec))
        if not mi:
            rep.brk("ANALYSIS-BROKEN CURSOR-RESET: MemInit call not found in %s" % f.name)
            continue
        for fld, val in (("nsuper", -1), ("nextl", 0), ("nextu", 0), ("nextlu", 0)):
            sts = [s for s in f.insts() if s.op == "store" and is_const(s.ops[0], val) and any(p[-1][0] == "f" and p[-1][2] == fld and p[-1][1] == "GlobalLU_t" for p in f.addr_paths(s))]
            ok = any(f.dominates(s, mi[0]) for s in sts)
            rep.check(ok, "CURSOR-RESET", "%s#Glu.%s" % (f.name, fld), "Glu.%s := %d on every path to MemInit" % (fld, val),
                      "Glu.%s is not reset on every call (a refactorization appends behind the previous factors until the fixed capacity is exhausted)" % fld,
                      sts[0].loc if sts else f.file, f.name)


def rule_create_only_first(mod, rep):
    e = mod.enums
    rep.rule("CREATE-1ST", "p?gstrf_thread_finalize: new L/U store headers are created only when refact != YES - from the edge on which `refact == YES` holds no "
             "?Create_*_Permuted call is reachable (the caller's existing headers would be overwritten and lost)", floor=4)
    for prec, f in fam(mod, "p?gstrf_thread_finalize"):
        rep.scope([f.name])
        creates = [c for c in f.calls() if "Create_" in (c.callee or "")]
        tests = []
        for C in f.insts():
            if C.op == "icmp" and C.pred in ("eq", "ne") and any(is_const(o, e.get("YES", 1)) for o in C.ops):
                lo = [strip_casts(f, o) for o in C.ops if o[0] == "v"]
                if lo and f.inst[lo[0][1]].op == "load" and any(p[-1][0] == "f" and p[-1][2] == "refact" for p in f.addr_paths(f.inst[lo[0][1]])):
                    tests.append(C)
        if not creates or not tests:
            rep.brk("ANALYSIS-BROKEN CREATE-1ST: creates %d, refact tests %d in %s" % (len(creates), len(tests), f.name))
            continue
        bad = None
        for C in tests:
            for blk, t_true, t_false in branch_edges_on(f, C):
                yes_tgt = t_true if C.pred == "eq" else t_false
                r = f.reach([f.blocks[yes_tgt].insts[0]], include_start=True)
                for c in creates:
                    if c.i in r:
                        bad = c
        rep.check(bad is None, "CREATE-1ST", "%s#create" % f.name, "no store header is created on the refact == YES side",
                  "%s is reachable although refact == YES: the headers of the factors being refactored are replaced and the old ones leak" % (bad.callee if bad else ""),
                  bad.loc if bad else f.file, f.name)


# ---------------------------------------------------------------------------------------------------------------------------------
# U-FWD (C02 C16): the pivot threshold reaches the pivoting routine unchanged
# ---------------------------------------------------------------------------------------------------------------------------------
def rule_threshold_forward(mod, rep):
    rep.rule("U-FWD", "p?gstrf_thread hands options->diag_pivot_thresh to p?gstrf_pivotL and p?gstrf_factor_snode as it is: the argument is the loaded option value, not a "
             "value re-mapped on the way (u = 0 selects diagonal pivoting in symmetric mode and must arrive as 0)", floor=8)
    for prec, f in fam(mod, "p?gstrf_thread"):
        rep.scope([f.name])
        for cal, k in (("p%sgstrf_pivotL" % prec, 2), ("p%sgstrf_factor_snode" % prec, 3)):
            for n, c in enumerate(f.calls(cal)):
                v = strip_casts(f, c.ops[k])
                ok = v[0] == "v" and f.inst[v[1]].op == "load" and any(p[-1][0] == "f" and p[-1][2] == "diag_pivot_thresh" for p in f.addr_paths(f.inst[v[1]]))
                # single/float builds convert: fptrunc/fpext of the load is still the value itself
                if not ok and v[0] == "v" and f.inst[v[1]].op in ("fptrunc", "fpext"):
                    w = strip_casts(f, f.inst[v[1]].ops[0])
                    ok = w[0] == "v" and f.inst[w[1]].op == "load" and any(p[-1][0] == "f" and p[-1][2] == "diag_pivot_thresh" for p in f.addr_paths(f.inst[w[1]]))
                rep.check(ok, "U-FWD", "%s#%s@%d" % (f.name, cal, n), "threshold argument is options->diag_pivot_thresh",
                          "the threshold handed to %s is %s, not the option value itself: some user values are replaced before they reach the pivoting rule" %
                          (cal, "a %s" % f.inst[v[1]].op if v[0] == "v" else "a constant"), c.loc, f.name)


# ---------------------------------------------------------------------------------------------------------------------------------
# ETREE-W (C10 C16): every column gets a parent
# ---------------------------------------------------------------------------------------------------------------------------------
def rule_etree_mustwrite(mod, rep):
    from .threads import loop_bound
    rep.rule("ETREE-W", "sp_coletree / sp_symetree: the main loop assigns parent[col] for every column - the store parent[col] := n (root by default) is executed in every "
             "iteration of the column loop (the caller's array is not initialised)", floor=2)
    for name in ("sp_coletree", "sp_symetree"):
        f = mod.funcs.get(name)
        if f is None:
            rep.brk("ANALYSIS-BROKEN ETREE-W: %s not found" % name)
            continue
        rep.scope([f.name])
        kp = f.pindex("parent")
        found = False
        for h, body in f.loops():
            lb = loop_bound(f, h, body)
            if not lb:
                continue
            sts = [s for s in f.insts() if s.bb.id in body and s.op == "store" and (("A", kp), ("i",)) in f.addr_paths(s)
                   and gep_index(f, s.ops[1]) is not None and strip_casts(f, gep_index(f, s.ops[1])) == ["v", lb[0].i]]
            if not sts:
                continue
            # outermost loop that owns the store
            if any(s.bb.id in b2 and len(b2) > len(body) for h2, b2 in f.loops() for s in sts):
                continue
            found = True
            uncond = [s for s in sts if not [(a, t) for (a, t) in f.control_deps().get(s.bb.id, ()) if a in body and a != h]]
            rep.check(bool(uncond), "ETREE-W", "%s#parent[col]" % f.name, "parent[col] is assigned in every iteration",
                      "parent[col] is assigned only under a condition: for the other columns the caller's uninitialised etree[] entry survives (postorder may never terminate, "
                      "column counts are under-predicted)", sts[0].loc, f.name)
        if not found:
            rep.brk("ANALYSIS-BROKEN ETREE-W: no store parent[col] indexed by the column counter in %s" % name)


# ---------------------------------------------------------------------------------------------------------------------------------
# SNODE-SHAPE (C06 C05): a relaxed supernode that has fewer rows than columns is not handed to the dense kernels as it is
# ---------------------------------------------------------------------------------------------------------------------------------
def rule_snode_shape(mod, rep):
    rep.rule("SNODE-SHAPE", "every dense kernel of the factorization takes nrow = nsupr - nsupc >= 0 for granted (rows below the diagonal block, row list at least as long as the "
             "column count). A relaxed supernode is built from the union of the rows of its columns, which can be smaller than its width for a structurally rank-deficient "
             "input; p?gstrf_factor_snode / p?gstrf_snode_dfs therefore have to compare the number of rows found with the number of columns (and pad, split or stop) "
             "before the supernode becomes visible to the update kernels", floor=4)
    for prec, f in fam(mod, "p?gstrf_factor_snode"):
        fs = [f] + [mod.funcs[n] for n in ("p%sgstrf_snode_dfs" % prec,) if n in mod.funcs]
        rep.scope([x.name for x in fs])
        found = None
        for g in fs:
            for C in g.insts():
                if C.op != "icmp":
                    continue
                def tree(o, depth=0):
                    """instructions of the pure arithmetic expression of o (no phi: a loop index is not a count)"""
                    o = strip_casts(g, o)
                    if o[0] != "v" or depth > 8:
                        return [], o[0] == "a" and [o] or []
                    x = g.inst[o[1]]
                    if x.op == "phi":
                        return None, None
                    if x.op == "load":
                        return [x], []
                    if x.op in ("add", "sub"):
                        ins, prm = [x], []
                        for z in x.ops:
                            a_, b_ = tree(z, depth + 1)
                            if a_ is None:
                                return None, None
                            ins += a_; prm += b_
                        return ins, prm
                    return [x], []
                sides = []
                for o in C.ops:
                    ins, prm = tree(o)
                    if ins is None:
                        sides.append(None); continue
                    is_rows = any(x.op == "sub" for x in ins) and any(x.op == "load" and addr_is_elem_of(g, x, "xlsub_end") for x in ins) and any(x.op == "load" and addr_is_elem_of(g, x, "xlsub") for x in ins)
                    is_cols = any(x.op == "load" and addr_has_field(g, x, "size", "pan_status_t") for x in ins) or \
                        (any(x.op == "sub" for x in ins) and {g.pname(z[1]) for z in prm} >= {"kcol", "jcol"})
                    sides.append("rows" if is_rows and not is_cols else ("cols" if is_cols and not is_rows else "?"))
                if sorted(x or "?" for x in sides) == ["cols", "rows"]:
                    found = C
        rep.check(found is not None, "SNODE-SHAPE", "%s#rows>=cols" % f.name, "row count and column count of the relaxed supernode are compared at %s" % (found.loc if found else ""),
                  "no comparison of the relaxed supernode's row count with its width: for a supernode with fewer rows than columns the update kernels read the row list past its "
                  "end and write past lusup[] (nrow = nsupr - nsupc < 0)", f.file, f.name)
