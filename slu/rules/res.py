"""RES engine (C17): path-sensitive resource typestate per function.

A resource is acquired at an allocation call (result pointer) or at a constructor call (object named by a
pointer argument).  From the acquisition every CFG path is explored with (a) FEAS-dead edges removed,
(b) a small set of branch facts so that 'allocated under if (c) ... freed under if (c)' is followed
consistently, (c) the set of local cells currently holding the pointer.  A path ends well when the
resource is released, returned, stored into caller-visible / heap memory (ownership transfer), handed to
a callee that retains or frees it, or is known to be NULL; it ends in a LEAK when a return is reached."""
from ..util import *
from ..ir import strip_casts, fmt_path, dead_edges
from .. import effects
from . import kinds

ALLOCS = {"superlu_malloc", "intMalloc", "intCalloc", "floatMalloc", "floatCalloc", "doubleMalloc", "doubleCalloc", "complexMalloc", "complexCalloc",
          "doublecomplexMalloc", "doublecomplexCalloc", "malloc", "calloc", "mxCallocInt", "fopen", "TreePostorder"}
# ?user_malloc is a bump allocation inside the caller's own work[] buffer, not a heap resource: not tracked here
FREES = {"superlu_free", "free", "fclose"}

# constructor-type acquisitions: callee -> (index of the pointer argument naming the object, [(release callee, arg index)])
CONSTRUCTORS = {
    "StatAlloc": (4, [("StatFree", 0)]),
    "sp_colorder": (3, [("Destroy_CompCol_Permuted", 0), ("pxgstrf_finalize", 1)]),
}
for _p in "sdcz":
    CONSTRUCTORS["p%sgstrf_init" % _p] = (14, [("pxgstrf_finalize", 1)])
    CONSTRUCTORS["p%sgstrf_thread_init" % _p] = (4, [("p%sgstrf_thread_finalize" % _p, 1)])
    CONSTRUCTORS["%sCreate_CompCol_Matrix" % _p] = (0, [("Destroy_SuperMatrix_Store", 0), ("Destroy_CompCol_Matrix", 0)])

# constructors that undo their own set-up and report failure through an int cell: (index of the pointer argument to that cell)
FAILS_THROUGH = {}
for _p in "sdcz":
    FAILS_THROUGH["p%sgstrf_thread_init" % _p] = 6

MAXFACTS = 20
MAXSTATES = 60000


class Escapes(object):
    """may-retain summary: function g may store its pointer parameter k (the pointer value itself) into memory that outlives the call, or free it"""
    def __init__(self, mod):
        self.mod = mod
        self.retain = {}
        self.frees = {}
        self._compute()

    def _compute(self):
        mod = self.mod
        for f in mod.funcs.values():
            self.retain[f.name] = set(); self.frees[f.name] = set()
        changed = True
        rounds = 0
        while changed and rounds < 12:
            changed = False
            rounds += 1
            for f in mod.funcs.values():
                r = self.retain[f.name]; fr = self.frees[f.name]
                n0 = len(r) + len(fr)
                for i in f.insts():
                    if i.op == "store" and f.is_ptr(i.ops[0]):
                        for p in f.paths(i.ops[0]):
                            if len(p) == 1 and p[0][0] == "A":
                                for q in f.addr_paths(i):
                                    if q[0][0] in ("A", "G", "C"):
                                        r.add(p[0][1])
                    elif i.op == "ret" and i.ops and f.is_ptr(i.ops[0]):
                        for p in f.paths(i.ops[0]):
                            if len(p) == 1 and p[0][0] == "A":
                                r.add(p[0][1])
                    elif i.op == "call" and i.callee:
                        for k, o in enumerate(i.ops):
                            if not f.is_ptr(o):
                                continue
                            for p in f.paths(o):
                                if len(p) == 1 and p[0][0] == "A":
                                    if i.callee in FREES and k == 0:
                                        fr.add(p[0][1])
                                    elif i.callee in mod.funcs:
                                        if k in self.retain[i.callee]:
                                            r.add(p[0][1])
                                        if k in self.frees[i.callee]:
                                            fr.add(p[0][1])
                if len(r) + len(fr) != n0:
                    changed = True


def out_allocs(mod):
    """g -> set of parameter indices k such that g stores a fresh allocation through *param_k on every path to return (producer out-parameters)"""
    if hasattr(mod, "_out_allocs"):
        return mod._out_allocs
    out = {}
    for g in mod.funcs.values():
        for k in range(len(g.params)):
            sts = [s for s in g.insts() if s.op == "store" and g.addr_paths(s) == frozenset([(("A", k),)]) and
                   any(p[0][0] == "C" and p[0][1] in ALLOCS and len(p) == 1 for p in g.paths(s.ops[0]))]
            if not sts:
                continue
            r = g.reach([g.entry()], stop=lambda x: x in sts, include_start=True)
            if not any(g.inst[x].op == "ret" for x in r):
                out.setdefault(g.name, set()).add(k)
    mod._out_allocs = out
    return out


def auto_constructors(mod):
    """constructors found in the code: g stores a fresh allocation into a field of *param_k (g(&obj, ...) leaves obj owning heap memory); the matching
    releases are the functions that free the pointer loaded from the same field of one of their parameters.  g -> (k, [(release, arg)])"""
    if hasattr(mod, "_auto_ctor"):
        return mod._auto_ctor
    made = {}      # g -> (k, set of (T, field))
    for g in mod.funcs.values():
        for s in g.insts():
            if s.op != "store" or not any(p[0][0] == "C" and p[0][1] in ALLOCS and len(p) == 1 for p in g.paths(s.ops[0])):
                continue
            for q in g.addr_paths(s):
                if len(q) == 2 and q[0][0] == "A" and q[1][0] == "f":
                    k = q[0][1]
                    if g.name in made and made[g.name][0] != k:
                        continue
                    made.setdefault(g.name, (k, set()))[1].add((q[1][1], q[1][2]))
    frees = {}     # (T, field) -> [(h, j)]
    for h in mod.funcs.values():
        for c in h.calls():
            if (c.callee or "") in FREES and c.ops:
                for p in h.paths(c.ops[0]):
                    if len(p) == 3 and p[0][0] == "A" and p[1][0] == "f" and p[2] == ("*",):
                        frees.setdefault((p[1][1], p[1][2]), []).append((h.name, p[0][1]))
    out = {}
    for gname, (k, flds) in made.items():
        rel = sorted({x for fl in flds for x in frees.get(fl, [])})
        if rel:
            out[gname] = (k, rel)
    mod._auto_ctor = out
    return out


_esc = {}


def escapes(mod):
    if id(mod) not in _esc:
        _esc[id(mod)] = Escapes(mod)
    return _esc[id(mod)]


def _canon_op(f, o):
    o = strip_casts(f, o)
    if o[0] == "c":
        return ("k", o[1])
    if o[0] == "null":
        return ("k", 0)
    if o[0] == "f":
        return ("kf", o[1])
    if o[0] == "a":
        return ("a", o[1])
    if o[0] == "v":
        x = f.inst[o[1]]
        if x.op == "load":
            return ("ld", frozenset(f.addr_paths(x)))
        return ("v", o[1])
    return ("o", repr(o))


def _canon_cond(f, o):
    """(key, negated) for a branch condition operand"""
    o = strip_casts(f, o)
    if o[0] != "v":
        return None
    C = f.inst[o[1]]
    if C.op in ("icmp", "fcmp"):
        a, b = _canon_op(f, C.ops[0]), _canon_op(f, C.ops[1])
        pred = C.pred
        neg = False
        if pred == "ne":
            pred, neg = "eq", True
        if pred == "eq" and repr(a) > repr(b):
            a, b = b, a
        return ((C.op, pred, a, b), neg)
    if C.op == "xor" and any(is_const(x, 1) or (x[0] == "c" and x[1] == -1) for x in C.ops):
        other = [x for x in C.ops if not (x[0] == "c")]
        if other:
            r = _canon_cond(f, other[0])
            if r:
                return (r[0], not r[1])
    return (("v", o[1]), False)


def _switch_keys(f, t):
    """[(key, target block)] of a switch: the key of case K is the key `icmp eq value, K` would get"""
    a = _canon_op(f, t.ops[0])
    out = []
    for cv, tb in t.cases:
        b = ("k", cv)
        x, y = (a, b) if repr(a) <= repr(b) else (b, a)
        out.append((("icmp", "eq", x, y), tb))
    return out


class ResAnalysis(object):
    def __init__(self, mod):
        self.mod = mod
        self.E = effects.get(mod)
        self.esc = escapes(mod)
        self.stats = {"sites": 0, "paths_ok": 0, "states": 0, "truncated": 0}
        self.truncated_sites = []

    def acquisitions(self, f):
        out = []
        for c in f.calls():
            cal = c.callee or ""
            if cal in ALLOCS:
                out.append((c, (("C", cal, c.i),), "result of %s()" % cal, None))
            elif cal in out_allocs(self.mod):
                for k in sorted(out_allocs(self.mod)[cal]):
                    if k < len(c.ops):
                        ps = f.paths(c.ops[k])
                        if len(ps) == 1 and list(ps)[0][0][0] == "L" and len(list(ps)[0]) == 1:
                            cell = list(ps)[0]
                            out.append((c, cell + (("*",),), "array returned by %s() through its parameter %d (%s)" % (cal, k + 1, fmt_path(cell, f)), None))
            elif cal in CONSTRUCTORS or cal in auto_constructors(self.mod):
                k, rel = CONSTRUCTORS[cal] if cal in CONSTRUCTORS else auto_constructors(self.mod)[cal]
                if k < len(c.ops):
                    ps = f.paths(c.ops[k])
                    if len(ps) == 1:
                        p = list(ps)[0]
                        if p[0][0] == "L" or p[0][0] == "C":
                            out.append((c, p, "object %s set up by %s()" % (fmt_path(p, f), cal), rel))
        return out

    def leaks(self, f):
        """list of (acquisition call, description, exit instruction, note)"""
        dead = dead_edges(f) | kinds.dead_error_edges(self.mod, f)
        res = []
        for site, P0, desc, rel in self.acquisitions(f):
            self.stats["sites"] += 1
            bad = self._explore(f, site, P0, rel, dead)
            for ex, note in bad:
                res.append((site, desc, ex, note))
        return res

    # ------------------------------------------------------------------
    def _matches(self, f, o, P0, holders):
        if o[0] not in ("v", "a", "ce", "g"):
            return False
        for p in f.paths(o):
            if p == P0:
                return True
            if len(p) >= 2 and p[-1] == ("*",) and p[:-1] in holders:
                return True
            # element / field of the held object is not the object itself
        return False

    def _explore(self, f, site, P0, rel, dead):
        mod = self.mod
        # explore from the function entry so that branch facts are consistent when the acquisition is reached;
        # only conditions that are tested more than once in the function are remembered
        if not hasattr(f, "_res_multi"):
            cnt = {}
            for bb in f.blocks:
                t = bb.insts[-1]
                if t.op == "br" and t.ops:
                    cc = _canon_cond(f, t.ops[0])
                    if cc is not None:
                        cnt[cc[0]] = cnt.get(cc[0], 0) + 1
                elif t.op == "switch":
                    for k_, tb_ in _switch_keys(f, t):
                        cnt[k_] = cnt.get(k_, 0) + 1
            f._res_multi = set(k for k, n in cnt.items() if n > 1)
        # ... and only those that decide whether the acquisition or one of its possible releases executes
        from .pivot import _cd_closure
        rel_blocks = set([site.bb.id])
        for i in f.insts():
            if i.op == "call":
                cal = i.callee or ""
                cand = cal in FREES or (rel is not None and any(cal == rc for rc, ra in rel)) or cal in mod.funcs
                if cand and any(o[0] in ("v", "a") and f.is_ptr(o) and any(p == P0 or p[0][0] == "L" for p in f.paths(o)) for o in i.ops):
                    rel_blocks.add(i.bb.id)
            elif i.op == "store" and f.is_ptr(i.ops[0]) and any(p == P0 for p in f.paths(i.ops[0])):
                rel_blocks.add(i.bb.id)
            elif i.op == "ret" and i.ops and any(p == P0 for p in f.paths(i.ops[0])):
                rel_blocks.add(i.bb.id)
        keys = set()
        for rb in rel_blocks:
            for (a, sid) in _cd_closure(f, rb):
                t = f.blocks[a].insts[-1]
                if t.op == "br" and t.ops:
                    cc = _canon_cond(f, t.ops[0])
                    if cc is not None:
                        keys.add(cc[0])
                elif t.op == "switch":
                    for k_, tb_ in _switch_keys(f, t):
                        keys.add(k_)
        multi = f._res_multi & keys
        start = (0, 0, frozenset(), frozenset(), 0, False)
        seen = set()
        work = [start]
        leaks = {}
        nstates = 0
        while work:
            bid, pos, facts, holders, prevb, live = work.pop()
            key = (bid, pos, facts, holders, prevb if (f.blocks[bid].insts[-1].op == "ret" or f.blocks[bid].insts[0].op == "phi") else -1, live)
            if key in seen:
                continue
            seen.add(key)
            nstates += 1
            if nstates > MAXSTATES:
                self.stats["truncated"] += 1
                self.truncated_sites.append("%s:%s" % (f.name, site.loc))
                break
            b = f.blocks[bid]
            ended = False
            facts_m = set(facts)
            holders_m = set(holders)
            for ins in b.insts[pos:]:
                op = ins.op
                if ins is site:
                    if live:
                        # the acquisition is executed again (next iteration of a loop) while the previous instance is still owned here: it is overwritten
                        leaks.setdefault(ins.i, (ins, "acquired again while the previous instance is still held"))
                        ended = True; break
                    live = True
                    holders_m = set()
                    continue
                if not live:
                    if op == "call" and (ins.callee or "") in mod.noreturn:
                        ended = True; break
                    if op == "call" and (ins.callee or "") in mod.funcs and facts_m:
                        wr = self.E._translate(f, ins, self.E.W[ins.callee])
                        if wr:
                            facts_m = set(x for x in facts_m if not _fact_touched(x, wr))
                    if op == "store" and facts_m:
                        qs = f.addr_paths(ins)
                        facts_m = set(x for x in facts_m if not _fact_loads(x, qs))
                    if op in ("ret", "unreachable"):
                        ended = True; break
                    if op in ("br", "switch"):
                        break
                    continue
                if op == "call":
                    cal = ins.callee or ""
                    if cal.startswith("llvm.dbg") or cal.startswith("llvm.lifetime"):
                        continue
                    if cal in mod.noreturn:
                        ended = True; break
                    hit = [k for k, o in enumerate(ins.ops) if self._matches(f, o, P0, holders_m)]
                    if rel is not None:
                        if any(cal == rc and ra in hit for rc, ra in rel):
                            ended = True; break
                    else:
                        if cal in FREES and 0 in hit:
                            ended = True; break
                        if cal in mod.funcs and any(k in self.esc.retain[cal] or k in self.esc.frees[cal] for k in hit):
                            ended = True; break
                        if cal not in mod.funcs and cal not in FREES and hit and cal not in effects.EXT_WRITES and not cal.startswith("llvm."):
                            # unknown external receiving the pointer: assume it may keep it
                            ended = True; break
                        if cal == "pthread_create" and hit:
                            ended = True; break
                    # invalidate facts the callee may write
                    if cal in mod.funcs and facts_m:
                        wr = self.E._translate(f, ins, self.E.W[cal])
                        if wr:
                            facts_m = set(x for x in facts_m if not _fact_touched(x, wr))
                elif op == "store":
                    if rel is None and self._matches(f, ins.ops[0], P0, holders_m) and f.is_ptr(ins.ops[0]):
                        qs = f.addr_paths(ins)
                        if any(q[0][0] in ("A", "G", "C") for q in qs):
                            ended = True; break
                        for q in qs:
                            if q[0][0] == "L":
                                holders_m.add(q)
                    else:
                        # overwriting a holder cell drops it
                        qs = f.addr_paths(ins)
                        for q in list(holders_m):
                            if q in qs and len(qs) == 1:
                                holders_m.discard(q)
                    if facts_m:
                        qs = f.addr_paths(ins)
                        facts_m = set(x for x in facts_m if not _fact_loads(x, qs))
                elif op == "ret":
                    if rel is None and ins.ops and self._matches(f, ins.ops[0], P0, holders_m):
                        ended = True; break
                    # identify the exit by the branch that jumps to the (merged) return block
                    pb = f.blocks[prevb]
                    ex = pb.insts[-1] if (pb is not b and len(b.insts) <= 3) else ins
                    leaks.setdefault(ex.i, (ex, ""))
                    ended = True; break
                elif op == "unreachable":
                    ended = True; break
                elif op == "br" or op == "switch":
                    break
            if ended:
                continue
            t = b.insts[-1]
            nf = frozenset(facts_m); nh = frozenset(holders_m)
            if t.op == "br" and t.ops and t.ops[0][0] == "v" and pos == 0 and f.inst[t.ops[0][1]].op == "phi" and f.inst[t.ops[0][1]].bb is b and \
                    any(pb == prevb and o[0] == "c" for o, pb in zip(f.inst[t.ops[0][1]].ops, f.inst[t.ops[0][1]].inb)):
                # short-circuit condition: a phi of constants is decided by the incoming edge
                ph = f.inst[t.ops[0][1]]
                cv = [o for o, pb in zip(ph.ops, ph.inb) if pb == prevb][0]
                tg = t.tgt[0] if cv[1] != 0 else t.tgt[1]
                if (bid, tg) not in dead:
                    work.append((tg, 0, nf, nh, bid, live))
            elif t.op == "br" and t.ops:
                # null test of the resource
                cc = _canon_cond(f, t.ops[0])
                tgt_t, tgt_f = t.tgt
                null_edge = self._null_edge(f, t, P0, holders_m) if live else None
                if live and null_edge is None and (site.callee or "") in FAILS_THROUGH:
                    null_edge = self._fail_edge(f, t, site)
                for tg, val in ((tgt_t, True), (tgt_f, False)):
                    if (bid, tg) in dead:
                        continue
                    if null_edge is not None and null_edge == val:
                        continue     # on this edge the resource is NULL: nothing to release
                    if cc is not None:
                        keyc, neg = cc
                        want = (val != neg)
                        prev = [v for (k, v) in nf if k == keyc]
                        if prev:
                            if prev[0] != want:
                                continue
                            work.append((tg, 0, nf, nh, bid, live))
                        else:
                            if len(nf) < MAXFACTS and keyc in multi:
                                work.append((tg, 0, nf | {(keyc, want)}, nh, bid, live))
                            else:
                                work.append((tg, 0, nf, nh, bid, live))
                    else:
                        work.append((tg, 0, nf, nh, bid, live))
            elif t.op == "switch":
                sk = _switch_keys(f, t)
                for s in b.succ:
                    if (bid, s.id) in dead:
                        continue
                    # facts on this edge: case K -> (key_K, True); default -> every (key_K, False)
                    mine = [(k_, True) for k_, tb_ in sk if tb_ == s.id]
                    if s.id == t.default and not mine:
                        mine = [(k_, False) for k_, tb_ in sk]
                    elif len(mine) > 1:
                        mine = []           # several cases share the target: no single fact
                    elif mine:
                        mine = mine + [(k_, False) for k_, tb_ in sk if k_ != mine[0][0]]
                    cur = dict(nf)
                    if any(k_ in cur and cur[k_] != v_ for k_, v_ in mine):
                        continue
                    add = frozenset((k_, v_) for k_, v_ in mine if k_ in multi and k_ not in cur)
                    nf2 = nf | add if len(nf) + len(add) <= MAXFACTS else nf
                    work.append((s.id, 0, nf2, nh, bid, live))
            else:
                for s in b.succ:
                    if (bid, s.id) in dead:
                        continue
                    work.append((s.id, 0, nf, nh, bid, live))
        self.stats["states"] += nstates
        return list(leaks.values())

    def _fail_edge(self, f, br, site):
        """True/False = the edge on which the failure cell of a self-cleaning constructor is non-zero (nothing is held there)"""
        k = FAILS_THROUGH[site.callee]
        cell = f.paths(site.ops[k])
        o = strip_casts(f, br.ops[0])
        if o[0] != "v":
            return None
        C = f.inst[o[1]]
        if C.op != "icmp" or C.pred not in ("eq", "ne"):
            return None
        a, b = C.ops
        for x, y in ((a, b), (b, a)):
            x = strip_casts(f, x)
            if is_const(y, 0) and x[0] == "v" and f.inst[x[1]].op == "load" and f.addr_paths(f.inst[x[1]]) == cell:
                # no write to the cell between the constructor call and this load
                return C.pred == "ne"
        return None

    def _null_edge(self, f, br, P0, holders):
        """True/False = the branch edge on which the resource pointer is NULL; None if the branch is not a null test of it"""
        o = strip_casts(f, br.ops[0])
        if o[0] != "v":
            return None
        C = f.inst[o[1]]
        neg = False
        # !p pattern: xor (icmp ne p, null), true
        while C.op == "xor":
            oth = [x for x in C.ops if x[0] == "v"]
            if not oth:
                return None
            C = f.inst[oth[0][1]]
            neg = not neg
        if C.op != "icmp" or C.pred not in ("eq", "ne"):
            return None
        a, b = C.ops
        for x, y in ((a, b), (b, a)):
            if (y[0] == "null" or is_const(y, 0)) and self._matches(f, x, P0, holders):
                isnull_when_true = (C.pred == "eq")
                return isnull_when_true != neg
        return None


def _trackable(keyc):
    """facts worth remembering: comparisons over loads / SSA values / constants (not over fresh call results)"""
    return True


def _fact_loads(fact, paths):
    (k, v) = fact
    def has(x):
        if isinstance(x, tuple):
            if x and x[0] == "ld":
                return bool(x[1] & paths)
            return any(has(y) for y in x if isinstance(y, tuple))
        return False
    return has(k)


def _fact_touched(fact, writes):
    (k, v) = fact
    def has(x):
        if isinstance(x, tuple):
            if x and x[0] == "ld":
                for p in x[1]:
                    for w in writes:
                        if w[0] == "A" and p[0] == ("A", w[1]):
                            suf = tuple(s for s in w[2] if s != ("**",))
                            if p[1:1 + len(suf)] == suf or suf[:len(p) - 1] == p[1:]:
                                return True
                        if w[0] == "G" and p[0] == ("G", w[1]):
                            return True
                        if w[0] == "?":
                            return True
                return False
            return any(has(y) for y in x if isinstance(y, tuple))
        return False
    return has(k)


def rule_no_leaks(mod, rep, entry_points):
    rep.rule("RES", "every allocation (superlu_malloc/typed wrappers/malloc/?user_malloc/fopen/TreePostorder result) and every constructor-type acquisition "
             "(StatAlloc, sp_colorder's AC, p?gstrf_init, p?gstrf_thread_init, ?Create_CompCol_Matrix on a local/heap header) made in a function reachable from "
             "the public entry points is released, returned, stored into caller-visible or heap memory, or handed to a retaining/freeing callee on every feasible "
             "path to every return (path-sensitive on branch facts and NULL tests; abort exits exempt)", floor=250)
    scope = mod.transitive_callees(entry_points)
    ra = ResAnalysis(mod)
    n = 0
    for name in sorted(scope):
        f = mod.funcs.get(name)
        if f is None:
            continue
        acq = ra.acquisitions(f)
        if not acq:
            continue
        rep.scope([name])
        lk = ra.leaks(f)
        bysite = {}
        for site, desc, ex, note in lk:
            bysite.setdefault(site.i, []).append((site, desc, ex))
        ordn = {}
        for site, P0, desc, rel in acq:
            cal = site.callee
            ordn[cal] = ordn.get(cal, 0) + 1
            key = "%s#%s@%d" % (name, cal, ordn[cal])
            if site.i in bysite:
                exits = sorted(set(ex.loc for _, _, ex in bysite[site.i]))
                rep.fail("RES", key, "%s acquired at %s is still owned at the return(s) %s" % (desc, site.loc, ", ".join(exits[:4])), site.loc, name)
            else:
                rep.ok("RES", key, "%s: released / transferred on every feasible path" % desc, site.loc, name)
            n += 1
    rep.stats["RES"] = ra.stats
    for t in ra.truncated_sites:
        rep.brk("ANALYSIS-BROKEN RES: path exploration truncated at %s" % t)
    return n


def rule_failed_constructor_cleanup(mod, rep):
    rep.rule("RES-FAIL", "p?gstrf_thread_init: on the path where p?gstrf_MemInit reports a workspace query or a failure (*info != 0) every allocation that had been stored "
             "into pxgstrf_shared is released again (ParallelFinalize + superlu_free of each array, expander table reset) before NULL is returned - this is what lets "
             "p?gstrf return without p?gstrf_thread_finalize on that path", floor=4)
    for prec, f in fam(mod, "p?gstrf_thread_init"):
        rep.scope([f.name])
        ki = f.pindex("info"); ks = f.pindex("pxgstrf_shared")
        mi = list(f.calls("p%sgstrf_MemInit" % prec))
        why = []
        if not mi:
            why.append("MemInit call not found")
        else:
            # the failing edge: branch on load(*info) != 0 after the MemInit store
            fail_targets = []
            for b in f.blocks:
                t = b.insts[-1]
                if t.op == "br" and t.ops and t.ops[0][0] == "v":
                    C = f.inst[t.ops[0][1]]
                    if C.op == "icmp" and C.pred in ("ne", "eq") and any(is_const(o, 0) or (o[0] == "f" and o[1] == 0.0) for o in C.ops):
                        l = [strip_casts(f, o) for o in C.ops if o[0] == "v"]
                        if l and l[0][0] == "v" and f.inst[l[0][1]].op == "load" and (("A", ki),) in f.addr_paths(f.inst[l[0][1]]) and f.dominates(mi[0], C):
                            fail_targets.append(t.tgt[0] if C.pred == "ne" else t.tgt[1])
            if not fail_targets:
                why.append("no test of *info after MemInit")
            escaped = []
            for c in f.calls():
                if c.callee in ALLOCS:
                    for s in f.insts():
                        if s.op == "store" and any(p == (("C", c.callee, c.i),) for p in f.paths(s.ops[0])) and any(q[0] == ("A", ks) for q in f.addr_paths(s)):
                            escaped.append(c)
            for ft in fail_targets:
                start = f.blocks[ft].insts[0]
                pf = list(f.calls("ParallelFinalize"))
                r = f.reach([start], stop=lambda x: x in pf, include_start=True)
                if any(f.inst[x].op == "ret" for x in r):
                    why.append("failure return without ParallelFinalize")
                for c in escaped:
                    fr = [x for x in f.calls("superlu_free") if any(p == (("C", c.callee, c.i),) for p in f.paths(x.ops[0]))]
                    r = f.reach([start], stop=lambda x: x in fr, include_start=True)
                    if any(f.inst[x].op == "ret" for x in r):
                        why.append("failure return without freeing the %s result of line %d" % (c.callee, c.ln))
        rep.check(not why, "RES-FAIL", "%s#failure-cleanup" % f.name, "set-up undone on the failure path", "; ".join(sorted(set(why))), mi[0].loc if mi else f.file, f.name)
