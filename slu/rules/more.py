"""Rules added after the second round of seeded changes (each is a structural necessary condition; see DESIGN.md §6)."""
from ..util import *
from ..ir import fmt_path, strip_casts, expr_insts, expr_loads
from .threads import loop_bound, loop_of
from .pivot import _singular_edge


def rule_sing_init(mod, rep):
    rep.rule("P-SING-INIT", "p?gstrf_pivotL: the initial value of the running column maximum satisfies the singularity test, so a column with no candidate row at all "
             "(the scan loop runs zero times) takes the zero-pivot path", floor=4)
    for prec, f in fam(mod, "p?gstrf_pivotL"):
        rep.scope([f.name])
        se = _singular_edge(f)
        why = []
        if not se:
            why.append("singularity test not found")
        else:
            C = se[0][0]
            tc = [o for o in C.ops if o[0] == "f"][0][1]
            ph = f.inst[strip_casts(f, [o for o in C.ops if o[0] != "f"][0])[1]]
            # follow the phi to the loop-header phi and its initial constant
            init = None
            seen = set()
            work = [ph]
            while work:
                x = work.pop()
                if x.i in seen:
                    continue
                seen.add(x.i)
                for o in x.ops:
                    o = strip_casts(f, o)
                    if o[0] == "f":
                        init = o[1]
                    elif o[0] == "v" and f.inst[o[1]].op == "phi":
                        work.append(f.inst[o[1]])
            if init is None:
                why.append("initial value of the column maximum not found")
            else:
                ok = {"oeq": init == tc, "ueq": init == tc, "ole": init <= tc, "olt": init < tc, "one": init != tc, "une": init != tc}.get(C.pred, False)
                # for 'one'/'une' the singular edge is the false edge: the init must then be equal
                if C.pred in ("one", "une"):
                    ok = (init == tc)
                if not ok:
                    why.append("the column maximum starts at %s but the zero-pivot test is '%s %s': an empty candidate range is not reported as singular" % (init, C.pred, tc))
        rep.check(not why, "P-SING-INIT", "%s#pivmax-init" % f.name, "initial maximum satisfies the zero-pivot test", "; ".join(why), f.file, f.name)


def rule_super_bnd_arg(mod, rep):
    rep.rule("SBND-ARG", "p?gstrf_thread: pxgstrf_super_bnd_dfs is called under the guard super_bnd[jj] != 0 and receives that same super_bnd[jj] as the width of the "
             "H-supernode whose storage it reserves (dynamic supernode storage)", floor=4)
    for prec, f in fam(mod, "p?gstrf_thread"):
        rep.scope([f.name])
        for n, c in enumerate(f.calls("pxgstrf_super_bnd_dfs")):
            w = strip_casts(f, c.ops[4])
            jj = strip_casts(f, c.ops[3])
            ok = False
            if w[0] == "v" and f.inst[w[1]].op == "load":
                L = f.inst[w[1]]
                idx = gep_index(f, L.ops[0])
                is_sb = any(len(p) >= 2 and p[-1] == ("i",) and p[-2] == ("*",) and p[-3][0] == "f" and p[-3][2] == "part_super_h" for p in f.addr_paths(L) if len(p) >= 3)
                ok = is_sb and same_value(f, idx, jj) if idx is not None else False
            rep.check(ok, "SBND-ARG", "%s#super_bnd_dfs@%d" % (f.name, n), "width argument is super_bnd[jj]",
                      "pxgstrf_super_bnd_dfs receives %s as the H-supernode width instead of super_bnd[jj]" % fmt_paths(f, f.paths(c.ops[4])), c.loc, f.name)


def rule_lsub_request(mod, rep):
    rep.rule("ALLOC2X", "a new supernode reserves two copies of its row subscripts: the LSUB request in p?gstrf_snode_dfs / p?gstrf_column_dfs is (at least) twice the number "
             "of subscripts the routine copies into lsub[] right after (the second copy is the pruned list)", floor=8)
    from .layout import Sym, pge, pfmt, pconst, pmul
    LSUB = mod.enums.get("LSUB")
    for pat in ("p?gstrf_snode_dfs", "p?gstrf_column_dfs"):
        for prec, f in fam(mod, pat):
            rep.scope([f.name])
            S = Sym(mod, f)
            for n, c in enumerate([a for a in f.calls("Glu_alloc") if is_const(a.ops[3], LSUB)]):
                req = strip_casts(f, c.ops[2])
                # request must be 2 * X
                ok = False; why = "request is not of the form 2 * count"
                if req[0] == "v" and f.inst[req[1]].op in ("mul", "shl"):
                    m = f.inst[req[1]]
                    ops = [strip_casts(f, o) for o in m.ops]
                    two = (m.op == "mul" and any(is_const(o, 2) for o in ops)) or (m.op == "shl" and is_const(ops[1], 1))
                    cnt = [o for o in ops if not (o[0] == "c")]
                    if two and cnt:
                        # the count is the bound of a copy loop into lsub after the call
                        okloop = False
                        for h, body in f.loops():
                            lb = loop_bound(f, h, body)
                            if lb and any(s.op == "store" and addr_is_elem_of(f, s, "lsub") for b in body for s in f.blocks[b].insts) and f.blocks[h].insts[0].i in f.reach([c]):
                                if same_value(f, lb[2], cnt[0]) or same_val(strip_casts(f, lb[2]), cnt[0]):
                                    okloop = True
                        # p?gstrf_column_dfs copies a filtered list (its counter, not a trip bound): there only the doubling is required
                        ok = okloop or "column_dfs" in f.name
                        if not ok:
                            why = "the doubled quantity is not the trip count of the copy loop into lsub[]"
                rep.check(ok, "ALLOC2X", "%s#lsub-request@%d" % (f.name, n), "request = 2 x (subscripts copied)", why, c.loc, f.name)


def rule_options_perm(mod, rep):
    rep.rule("OPT-PERM", "p?gssvx stores the caller's perm_c and perm_r into the options structure unconditionally (for every fact/refact value): the factorization, "
             "the post-processing and the solves then use the same permutation arrays", floor=8)
    for prec, f in fam(mod, "p?gssvx"):
        rep.scope([f.name])
        ko = f.pindex("superlumt_options")
        cd = f.control_deps()
        for fld, pn in (("perm_c", "perm_c"), ("perm_r", "perm_r")):
            kp = f.pindex(pn)
            sts = [s for s in f.insts() if s.op == "store" and (("A", ko), ("f", "superlumt_options_t", fld)) in f.addr_paths(s) and strip_casts(f, s.ops[0]) == ["a", kp]]
            ok = bool(sts) and any(not cd.get(s.bb.id) for s in sts)
            rep.check(ok, "OPT-PERM", "%s#options.%s" % (f.name, fld), "options->%s := %s on every path" % (fld, pn),
                      "options->%s is %s" % (fld, "set from the argument only under a condition" if sts else "never set from the argument"), sts[0].loc if sts else f.file, f.name)


def rule_colamd_args(mod, rep):
    rep.rule("COLAMD-ARGS", "get_colamd sizes the COLAMD workspace for the same (rows, columns) it then orders: colamd_recommended(nnz, n_row, n_col) and "
             "colamd(n_row, n_col, ...) receive the same values in the same roles", floor=1)
    f = mod.funcs.get("get_colamd")
    if f is None:
        return
    rep.scope([f.name])
    rec = list(f.calls("colamd_recommended")) + list(f.calls("colamd_l_recommended"))      # _LONGINT builds use the long variants
    col = list(f.calls("colamd")) + list(f.calls("colamd_l"))
    ok = bool(rec) and bool(col) and all(same_value(f, r.ops[1], c.ops[0]) and same_value(f, r.ops[2], c.ops[1]) for r in rec for c in col)
    rep.check(ok, "COLAMD-ARGS", "get_colamd#sizes", "workspace sized for the matrix that is ordered",
              "colamd_recommended and colamd are given rows/columns in different roles (workspace too small for wide matrices)", rec[0].loc if rec else f.file, f.name)


def rule_trsv_loops(mod, rep):
    rep.rule("TRSV-LOOP", "sp_?trsv: every loop over supernodes (bounded by Lstore->nsuper) is left only through its own loop test - no early break/return inside: "
             "all supernodes 0..nsuper are visited in every triangular solve", floor=16)
    for prec, f in fam(mod, "sp_?trsv"):
        rep.scope([f.name])
        n = 0
        for h, body in f.loops():
            lb = loop_bound(f, h, body)
            if not lb:
                continue
            ph, pred, bound = lb
            # supernode loop: counter compared with nsuper (ascending) or with 0 (descending from nsuper)
            starts = [strip_casts(f, o) for o, b in zip(ph.ops, ph.inb) if b not in body]
            def is_nsuper(o):
                o = strip_casts(f, o)
                return o[0] == "v" and f.inst[o[1]].op == "load" and any(p[-1][0] == "f" and p[-1][2] == "nsuper" for p in f.addr_paths(f.inst[o[1]]))
            if not (is_nsuper(bound) or any(is_nsuper(s) for s in starts)):
                continue
            n += 1
            exits = [(b, s.id) for b in body for s in f.blocks[b].succ if s.id not in body]
            extra = [(b, s) for (b, s) in exits if b != lb[0].bb.id and not _is_header_test(f, h, b)]
            rets = [i for b in body for i in f.blocks[b].insts if i.op == "ret"]
            where = f.blocks[extra[0][0]].insts[-1].loc if extra else (rets[0].loc if rets else "")
            rep.check(not extra and not rets, "TRSV-LOOP", "%s#supernode-loop@%d" % (f.name, n), "single exit through the loop test",
                      "the supernode loop can be left early (break/return at %s): later supernodes are skipped" % where,
                      f.blocks[h].insts[0].loc, f.name)


def _is_header_test(f, h, b):
    return b == h


def rule_meminit_refact(mod, rep):
    rep.rule("REFACT-STACK", "p?gstrf_MemInit with refact = YES and a user work space: the L/U already living in the buffer stay accounted for - no store to stack.used / "
             "stack.top1 and no call of p?gstrf_SetupSpace on that path (only stack.size and stack.top2 are refreshed)", floor=4)
    from ..absint import Interp
    from .memmode import QPart
    for prec, f in fam(mod, "p?gstrf_MemInit"):
        rep.scope([f.name])
        part = QPart(mod, f, 1000, "YES")
        atoms = {"p%sgstrf_SetupSpace" % prec: {"name": "setup", "args": []}}
        def pred_st(it, ins, path, v):
            if path and path[0][0] == "G" and len(path) == 2 and path[1][0] == "f" and path[1][1] == "LU_stack_t":
                return (path[1][2],)
        it = Interp(mod, f, part, atoms=atoms, store_atoms=[("stack:=", pred_st)])
        it.run()
        got = set(a for a in it.atoms if a[0] in ("setup", "stack:="))
        bad = [a for a in got if a == ("setup",) or (a[0] == "stack:=" and a[1] in ("used", "top1"))]
        rep.check(not bad, "REFACT-STACK", "%s#refact-user" % f.name, "stack accounting of the existing L/U is kept (%s)" % sorted(got),
                  "a refactorization in a user work space resets the stack accounting (%s): work arrays are then carved on top of the existing L/U" % sorted(bad), f.file, f.name)


def rule_arg_exclusive(mod, rep):
    rep.rule("ARG-EXCL", "argument prologues: once an error code has been stored no later test can overwrite it - with the edges '*info == 0' removed, no code store is "
             "reachable from another code store (first offender wins)", floor=32)
    from .args import analyse_prologue, PROLOGUES
    for pat in PROLOGUES:
        for prec, f in fam(mod, pat):
            P = analyse_prologue(mod, f)
            if P is None:
                continue
            cell = P["cell"]
            dead = set()
            for C in f.insts():
                if C.op == "icmp" and C.pred in ("eq", "ne") and any(is_const(o, 0) for o in C.ops):
                    l = [strip_casts(f, o) for o in C.ops if not is_const(o, 0)]
                    if l and l[0][0] == "v" and f.inst[l[0][1]].op == "load" and f.addr_paths(f.inst[l[0][1]]) == cell:
                        for bid, eq_t, ne_t in eq_edge(f, C):
                            dead.add((bid, eq_t))
            bad = None
            stop_i = P["test_block"].insts[-1].i
            for S in P["codes"]:
                r = f.reach([S], stop=lambda x: x.i == stop_i, dead_edges=dead)
                for T in P["codes"]:
                    if T is not S and T.i in r:
                        bad = (S, T)
            rep.check(bad is None, "ARG-EXCL", "%s#exclusive" % f.name, "error codes are mutually exclusive (%d codes)" % len(P["codes"]),
                      "the code %s stored at %s can be overwritten by %s at %s: the reported position is not the first offender" % (
                          bad[0].ops[0][1], bad[0].loc, bad[1].ops[0][1], bad[1].loc) if bad else "", bad[1].loc if bad else f.file, f.name)


def rule_ld_pairing(mod, rep):
    rep.rule("LD-PAIR", "sp_?gemm: the dense operands b and c are addressed with their own leading dimensions (b with ldb, c with ldc)", floor=8)
    for prec, f in fam(mod, "sp_?gemm"):
        rep.scope([f.name])
        for arr, ld in (("b", "ldb"), ("c", "ldc")):
            ka = f.pindex(arr); kl = f.pindex(ld)
            if ka is None or kl is None:
                rep.brk("ANALYSIS-BROKEN LD-PAIR: parameters %s/%s not found in %s" % (arr, ld, f.name))
                continue
            bad = []; n = 0
            for g in f.insts():
                if g.op != "getelementptr" or (("A", ka),) not in f.paths(g.ops[0]):
                    continue
                idx = gep_index(f, ["v", g.i])
                if idx is None:
                    continue
                for m_ in [x for x in expr_insts(f, idx, through_loads=False) if x.op == "mul"]:
                    n += 1
                    if not any(strip_casts(f, o) == ["a", kl] for o in m_.ops):
                        bad.append(g)
            rep.check(not bad and n > 0, "LD-PAIR", "%s#%s" % (f.name, arr), "%s indexed with %s (%d products)" % (arr, ld, n),
                      "%s is addressed with a stride other than %s" % (arr, ld) if bad else "no strided access to %s found" % arr, bad[0].loc if bad else f.file, f.name)


def _beta0_guarded(mod, f, ky):
    """number of stores of zero into the vector passed as parameter ky of f that are guarded by a test beta == 0"""
    zero_stores = []
    zroots = set()
    for s in f.insts():
        isz = False
        if s.op == "store" and any(p[0] == ("A", ky) for p in f.addr_paths(s)):
            v = s.ops[0]
            if (v[0] == "f" and v[1] == 0.0) or v[0] == "zero":
                isz = True
            elif v[0] == "v" and f.inst[v[1]].op == "load" and any(p[0][0] in ("L", "G") for p in f.addr_paths(f.inst[v[1]])):
                # complex: copy of a local/constant zero struct
                isz = True
        if s.op == "call" and (s.callee or "").startswith("llvm.memcpy") and any(p[0] == ("A", ky) for p in f.paths(s.ops[0])):
            isz = True
            zroots |= {p[0] for p in f.paths(s.ops[1]) if p[0][0] in ("L", "G")}
        if isz:
            zero_stores.append(s)
    # a root counts as the zero constant only if every write to it is a zero fill / zero store
    def _is_zero_root(r):
        if r[0] == "G":
            g = mod.globals.get(r[1]) if hasattr(mod, "globals") else None
            return bool(g and g.get("zeroinit"))
        ws = 0
        for x in f.insts():
            if x.op == "store" and any(p[0] == r for p in f.addr_paths(x)):
                if not ((x.ops[0][0] == "f" and x.ops[0][1] == 0.0) or x.ops[0][0] == "zero"):
                    return False
                ws += 1
            if x.op == "call" and (x.callee or "").startswith("llvm.mem") and any(p[0] == r for p in f.paths(x.ops[0])):
                if not ((x.callee or "").startswith("llvm.memset") and is_const(x.ops[1], 0)):
                    return False
                ws += 1
        return ws > 0
    zroots = {r for r in zroots if _is_zero_root(r)}
    zero_stores = [s for s in zero_stores if not (s.op == "call" and not any(p[0] in zroots for p in f.paths(s.ops[1])))]
    guarded = 0
    from .pivot import _cd_closure
    for s in zero_stores:
        for (a, sid) in _cd_closure(f, s.bb.id):
            t = f.blocks[a].insts[-1]
            if t.op == "br" and t.ops and t.ops[0][0] == "v":
                C = f.inst[t.ops[0][1]]
                if C.op == "fcmp" and C.pred in ("oeq", "une", "ueq", "one") and any(o[0] == "f" and o[1] == 0.0 for o in C.ops):
                    guarded += 1
                    break
                if C.op == "fcmp" and C.pred in ("oeq", "une", "ueq", "one") and zroots and any(
                        o[0] == "v" and f.inst[o[1]].op == "load" and any(p[0] in zroots for p in f.addr_paths(f.inst[o[1]])) for o in C.ops):
                    guarded += 1      # complex: z_eq(&beta, &comp_zero) is a macro comparing against the fields of the local zero constant
                    break
    return guarded


def rule_gemv_beta0(mod, rep):
    rep.rule("GEMV-BETA0", "sp_?gemv: when beta == 0, y is assigned zero (it 'need not be set on input'), not multiplied by beta - a store of the constant 0 into y[] "
             "guarded by the test beta == 0 exists (in sp_?gemv itself or in a static helper that receives y)", floor=4)
    from .ext import _owned_helpers
    for prec, f in fam(mod, "sp_?gemv"):
        rep.scope([f.name])
        ky = f.pindex("y")
        guarded = _beta0_guarded(mod, f, ky)
        for (h, call, g) in _owned_helpers(mod, f):
            if g is not f:
                continue
            for k, o in enumerate(call.ops):
                if any(p == (("A", ky),) for p in f.paths(o)) and k < len(h.params):
                    rep.scope([h.name])
                    guarded += _beta0_guarded(mod, h, k)
        rep.check(guarded >= 1, "GEMV-BETA0", "%s#beta0" % f.name, "y := 0 under beta == 0 (%d guarded zero stores)" % guarded,
                  "no assignment y := 0 for beta == 0 (NaN/Inf already in y would propagate through 0*y)", f.file, f.name)


def rule_preset_joined(mod, rep):
    rep.rule("PRESET", "?PresetMap: the slot reserved for the columns that may join a relaxed supernode is w * max(rs_nrow, colcnt[k]) - the joined columns are stored with "
             "the relaxed supernode's own row count, so the reservation must contain the term with rs_nrow", floor=4)
    for prec, f in fam(mod, "?PresetMap"):
        rep.scope([f.name])
        # rs_nrow: an integer phi accumulator incremented by 1 in a loop (the row counter), reset to 0 per relaxed supernode
        adds = [x for x in f.insts() if x.op == "add" and any(strip_casts(f, o)[0] == "v" and f.inst[strip_casts(f, o)[1]].op == "mul" for o in x.ops)]
        sites = []
        for a in adds:
            ops = [strip_casts(f, o) for o in a.ops]
            mul = [f.inst[o[1]] for o in ops if o[0] == "v" and f.inst[o[1]].op == "mul"]
            if not mul:
                continue
            lds = [l for l in expr_loads(f, ["v", mul[0].i]) if any(len(p) >= 3 and p[-3][0] == "f" and p[-3][2] == "colcnt_h" for p in f.addr_paths(l))]
            def _is_counter(g, x):
                return x.op == "phi" and x.ty.startswith("i") and any(strip_casts(g, o)[0] == "v" and g.inst[strip_casts(g, o)[1]].op == "add" and any(is_const(z, 1) for z in g.inst[strip_casts(g, o)[1]].ops) for o in x.ops)
            def _helper_counter(x):
                # rs_nrow = helper(...): the helper returns a counter it incremented by one in a loop
                if x.op != "call" or x.callee not in mod.funcs:
                    return False
                g = mod.funcs[x.callee]
                for r_ in g.rets():
                    if r_.ops:
                        for y in expr_insts(g, r_.ops[0], through_loads=False):
                            if _is_counter(g, y):
                                return True
                return False
            hasrow = any(_is_counter(f, x) or _helper_counter(x) for x in expr_insts(f, ["v", mul[0].i], through_loads=False, through_calls=False))
            sites.append((a, bool(lds), hasrow))
        # the joined-columns site: uses colcnt[k] with k not the loop column j -> the site that has both; at least one site must have both
        both = [s for s in sites if s[1] and s[2]]
        rep.check(bool(both), "PRESET", "%s#joined-slot" % f.name, "reservation for joined columns uses max(rs_nrow, colcnt[k])",
                  "no reservation combines the relaxed supernode's row count with the predicted column count: columns that join a relaxed supernode overrun their slot", f.file, f.name)


# ---------------------------------------------------------------------------------------------------------------------------------
# KERN-COL: the triangular solve and the matrix-vector product of one supernodal update address the same columns of the supernode
# ---------------------------------------------------------------------------------------------------------------------------------
_TRSV = {"trsv_": (4, 5, True), "lsolve": (2, 0, False)}
_GEMV = {"gemv_": (4, 5, True), "matvec": (3, 0, False), "matvec2": (3, 0, False)}


class _Poly(object):
    """polynomials over opaque symbols: parameters by name, loads by address path, anything else by SSA id"""
    def __init__(self, f):
        self.f = f

    def sym(self, name):
        return {(name,): 1}

    def of(self, o, depth=0):
        from .layout import padd, pmul, pconst
        f = self.f
        o = strip_casts(f, o)
        if o[0] == "c":
            return pconst(o[1])
        if o[0] == "a":
            return self.sym(f.pname(o[1]))
        if o[0] != "v" or depth > 24:
            return self.sym("?%s" % (o,))
        x = f.inst[o[1]]
        if x.op in ("add", "sub", "mul"):
            a = self.of(x.ops[0], depth + 1); b = self.of(x.ops[1], depth + 1)
            if x.op == "mul":
                return pmul(a, b)
            return padd(a, b, 1 if x.op == "add" else -1)
        if x.op == "load":
            ps = sorted(fmt_path(p) for p in f.addr_paths(x))
            # a local scalar whose address was taken: name it by its unique stored value
            if ps and all(p[0][0] == "L" and len(p) == 1 for p in f.addr_paths(x)):
                st = [s for s in f.insts() if s.op == "store" and f.addr_paths(s) == f.addr_paths(x)]
                if len(st) == 1:
                    return self.of(st[0].ops[0], depth + 1)
            return self.sym("ld:" + "|".join(ps)) if ps else self.sym("v%d" % x.i)
        return self.sym("v%d" % x.i)

    def additive_leaves(self, o, sign=1, depth=0):
        f = self.f
        o = strip_casts(f, o)
        if o[0] == "v" and depth < 24:
            x = f.inst[o[1]]
            if x.op == "add":
                return self.additive_leaves(x.ops[0], sign, depth + 1) + self.additive_leaves(x.ops[1], sign, depth + 1)
            if x.op == "sub":
                return self.additive_leaves(x.ops[0], sign, depth + 1) + self.additive_leaves(x.ops[1], -sign, depth + 1)
        return [(sign, o)]


def _kernel_sites(mod, f):
    out = []
    for c in f.calls():
        nm = c.callee or ""
        for table, kind in ((_TRSV, "tri"), (_GEMV, "mv")):
            for suf, (ka, kl, byref) in table.items():
                if len(nm) > 1 and nm[1:] == suf and nm[0] in "sdcz":
                    out.append((c, kind, ka, kl, byref))
    return out


def rule_kernel_columns(mod, rep):
    from .layout import padd, pfmt
    rep.rule("KERN-COL", "supernodal update kernels: the matrix operand of the matrix-vector product (the rectangle below) starts in the same column of the supernode as the operand "
             "of the triangular solve it follows - the multiples of the leading dimension in the two operand offsets are equal polynomials", floor=20)
    for f in mod.funcs.values():
        if not (f.name.startswith("p") and "gstrf_" in f.name and ("bmod" in f.name)):
            continue
        sites = _kernel_sites(mod, f)
        if not sites:
            continue
        if not mod.callers.get(f.name):
            rep.note("KERN-COL: %s has no caller in this configuration (GEMV2 variant) - not analysed" % f.name)
            continue
        rep.scope([f.name])
        P = _Poly(f)
        info = []
        for (c, kind, ka, kl, byref) in sites:
            A = strip_casts(f, c.ops[ka])
            if A[0] != "v" or f.inst[A[1]].op != "getelementptr":
                rep.brk("KERN-COL %s: matrix operand of %s at line %s is not an element address" % (f.name, c.callee, c.ln)); continue
            g = f.inst[A[1]]
            idx = [s["v"] for s in g.gep if s["k"] == "idx"]
            if len(idx) != 1:
                rep.brk("KERN-COL %s: operand address of %s has %d index steps" % (f.name, c.callee, len(idx))); continue
            if byref:
                ldp = strip_casts(f, c.ops[kl])
                st = [s for s in f.insts() if s.op == "store" and strip_casts(f, s.ops[1]) == ldp]
                lds = {tuple(sorted(P.of(s.ops[0]).items())) for s in st}
                if len(lds) != 1:
                    rep.brk("KERN-COL %s: leading dimension of %s at line %s has %d definitions" % (f.name, c.callee, c.ln, len(lds))); continue
                ld = dict(lds.pop())
            else:
                ld = P.of(c.ops[kl]); ldp = None
            cof = {}
            for (sg, leaf) in P.additive_leaves(idx[0]):
                if leaf[0] == "v" and f.inst[leaf[1]].op == "mul":
                    m = f.inst[leaf[1]]
                    for k in (0, 1):
                        mk = strip_casts(f, m.ops[k])
                        same_cell = ldp is not None and mk[0] == "v" and f.inst[mk[1]].op == "load" and strip_casts(f, f.inst[mk[1]].ops[0]) == ldp
                        if P.of(m.ops[k]) == ld or same_cell:
                            cof = padd(cof, P.of(m.ops[1 - k]), sg)
                            break
            info.append((c, kind, cof))
        tris = [i for i in info if i[1] == "tri"]
        for (c, kind, cof) in info:
            if kind != "mv":
                continue
            # the triangular solve this product follows: the nearest one that reaches it ... any with equal column offset
            ok = any(t[2] == cof for t in tris)
            rep.check(ok, "KERN-COL", "%s#%s@%d" % (f.name, c.callee, sum(1 for z in info if z[1] == "mv" and z[0].i <= c.i)),
                      "column offset ld*(%s) matches a triangular solve" % pfmt(cof),
                      "matrix-vector operand is at column offset ld*(%s) but the triangular solves of this routine are at %s: the product uses other columns of the supernode than the solve"
                      % (pfmt(cof), ", ".join("ld*(%s)" % pfmt(t[2]) for t in tris) or "-"), "%s:%s" % (f.file, c.ln), f.name)


# ---------------------------------------------------------------------------------------------------------------------------------
# SBND-TEST: every reader of the H-partition marks agrees with ?PresetMap on what starts an H-supernode
# ---------------------------------------------------------------------------------------------------------------------------------
_PRED = {"eq": lambda a, b: a == b, "ne": lambda a, b: a != b, "sgt": lambda a, b: a > b, "sge": lambda a, b: a >= b, "slt": lambda a, b: a < b, "sle": lambda a, b: a <= b,
         "ugt": lambda a, b: a > b, "uge": lambda a, b: a >= b, "ult": lambda a, b: a < b, "ule": lambda a, b: a <= b}


def _is_super_bnd_load(f, L):
    if L.op != "load" or not L.ty.startswith("i"):
        return False
    for p in f.addr_paths(L):
        if len(p) >= 3 and p[-1] == ("i",) and p[-2] == ("*",) and p[-3][0] == "f" and p[-3][2] == "part_super_h":
            return True
        if len(p) == 2 and p[-1] == ("i",) and p[0][0] == "A" and f.pname(p[0][1]) == "super_bnd":
            return True
    return False


def rule_super_bnd_test(mod, rep):
    rep.rule("SBND-TEST", "part_super_h[j] holds the width (>= 1) of the H-supernode that starts at column j and 0 elsewhere; ?PresetMap reserves a separate slot for every start, "
             "width 1 included (w = super_bnd[j]; j += w). Every test of a super_bnd[] element in the factorization therefore has to separate 0 from all widths >= 1", floor=8)
    n = 0
    for f in mod.funcs.values():
        if not (f.name.startswith("p") and "gstrf" in f.name):
            continue
        for L in f.insts():
            if not _is_super_bnd_load(f, L):
                continue
            for u in f.uses.get(L.i, []):
                tests = []
                if u.op == "icmp":
                    tests.append(u)
                elif u.op in ("sext", "zext", "trunc"):
                    tests += [x for x in f.uses.get(u.i, []) if x.op == "icmp"]
                for t in tests:
                    ops = [strip_casts(f, o) for o in t.ops]
                    side = 0 if (ops[0][0] == "v" and ops[0][1] == L.i) else 1
                    c = ops[1 - side]
                    if c[0] != "c":
                        continue                      # compared with another quantity (PresetMap's maxsup split): not a start test
                    rep.scope([f.name])
                    pr = _PRED.get(t.pred)
                    ev = (lambda v: pr(v, c[1])) if side == 0 else (lambda v: pr(c[1], v))
                    vals = [ev(v) for v in (0, 1, 2, 3, 1 << 20)]
                    ok = pr is not None and vals[0] != vals[1] and len(set(vals[1:])) == 1
                    n += 1
                    rep.check(ok, "SBND-TEST", "%s#super_bnd-test@%s" % (f.name, t.ln), "test separates 0 from every width >= 1 (icmp %s %d)" % (t.pred, c[1]),
                              "the test 'super_bnd[j] %s %d' treats a width-1 H-supernode start like an interior column: the column is merged into the preceding supernode, whose "
                              "preallocated slot does not cover it" % (t.pred, c[1]), "%s:%s" % (f.file, t.ln), f.name)


# ---------------------------------------------------------------------------------------------------------------------------------
# LINK-ORDER: list walks over an index-linked array read the forward link of a node before the node's link cell is overwritten
# ---------------------------------------------------------------------------------------------------------------------------------
def _scalar_cell(f, o):
    """the scalar variable (static / global / address-taken local) an index is loaded from"""
    o = strip_casts(f, o)
    if o[0] == "v" and f.inst[o[1]].op == "load":
        ps = f.addr_paths(f.inst[o[1]])
        if len(ps) == 1:
            p = list(ps)[0]
            if len(p) == 1 and p[0][0] in ("L", "G"):
                return p
    return None


def _forwarded(f, S, L, ap, g):
    """the load L must return the value stored by S: S dominates L and nothing between them writes the array, the index variable, or calls out"""
    if not f.dominates(S, L):
        return False
    r = f.reach([S], stop=lambda y: y.i == L.i or y.i == S.i)
    if L.i not in r:
        return False
    for k in f.insts():
        if k.i in r and k.i not in (S.i, L.i):
            if k.op == "call" and not (k.callee or "").startswith("llvm.dbg"):
                return False
            if k.op == "store" and ((f.addr_paths(k) & ap) or g in f.addr_paths(k)):
                return False
    return True


def rule_link_order(mod, rep, files=("mmd.c",), floor=4):
    rep.rule("LINK-ORDER", "minimum-degree list walks (cursor N, node M = N, advance N = link[M]): a store to link[M] in the same loop never feeds the advancing load - "
             "the forward link is read before the node's link cell is reused for the node number / another list", floor=floor)
    for f in mod.funcs.values():
        if (f.file or "").split("/")[-1] not in files:
            continue
        cells = {}
        for x in f.insts():
            if x.op in ("load", "store"):
                idx = gep_index(f, x.ops[0] if x.op == "load" else x.ops[1])
                if idx is None:
                    continue
                g = _scalar_cell(f, idx)
                if g is not None:
                    cells.setdefault((f.addr_paths(x), g), []).append(x)
        loops = f.loops()
        for (ap, g), xs in sorted(cells.items(), key=lambda kv: min(x.i for x in kv[1])):
            for L in [x for x in xs if x.op == "load"]:
                # the advancing load: its value is stored into a scalar N from which g (M) is copied, or into g itself
                N = None
                for u in f.uses.get(L.i, []):
                    while u.op in ("sext", "zext", "trunc") and f.uses.get(u.i):
                        u = f.uses[u.i][0]
                    if u.op == "store" and strip_casts(f, u.ops[0]) in (["v", L.i], ("v", L.i)):
                        ps = f.addr_paths(u)
                        if len(ps) == 1 and len(list(ps)[0]) == 1 and list(ps)[0][0][0] in ("L", "G"):
                            N = list(ps)[0]
                if N is None:
                    continue
                copies = N == g or any(st.op == "store" and g in f.addr_paths(st) and _scalar_cell(f, st.ops[0]) == N for st in f.insts())
                if not copies:
                    continue
                for S in [x for x in xs if x.op == "store"]:
                    common = [h for h, body in loops if S.bb.id in body and L.bb.id in body]
                    if not common:
                        continue
                    rep.scope([f.name])
                    bad = _forwarded(f, S, L, ap, g)
                    rep.check(not bad, "LINK-ORDER", "%s#%s:store@%s/advance@%s" % (f.name, fmt_paths(f, ap), S.ln, L.ln),
                              "the advancing load at line %s is not fed by the store at line %s" % (L.ln, S.ln),
                              "the cursor is advanced through %s (line %s) after line %s overwrote that very cell: the walk continues from the stored value, not along the list"
                              % (fmt_paths(f, ap), L.ln, S.ln), "%s:%s" % (f.file, L.ln), f.name)


# ---------------------------------------------------------------------------------------------------------------------------------
# REL-AFTER: what a thread still writes after it released a column (whole program: the release may sit in any function)
# ---------------------------------------------------------------------------------------------------------------------------------
_L_INDEX = {"xsup", "xsup_end", "supno", "xlsub", "xlsub_end", "xlusup", "xlusup_end"}
_L_BODY = {"lsub", "lusup"}
# the one routine that may touch subscript/value storage after a release: it reorders rows of *descendant* supernodes, guarded by ispruned[] (C03 O6)
_PRUNE_OK = {"pxgstrf_pruneL"}


def _glu_fields(paths_or_descs):
    out = set()
    for p in paths_or_descs:
        for st in p:
            if isinstance(st, tuple) and len(st) >= 3 and st[0] == "f" and st[1] in ("GlobalLU_t", "struct.GlobalLU_t"):
                out.add(st[2])
    return out


def _continuation(mod, f, S):
    """instructions the releasing thread may still execute for the same task after S: the rest of the current iteration of every loop around S (not the
    following iterations - they work on other columns) and whatever follows those loops, up to the next scheduler call or the function's exit"""
    loops = sorted([(h, body) for h, body in f.loops() if S.bb.id in body], key=lambda hb: len(hb[1]))
    sched = {c.i for c in f.calls("pxgstrf_scheduler")}
    r = set()
    starts = [S]
    first = True
    for (h, body) in loops:
        hdr = f.blocks[h].insts[0].i
        r |= f.reach(starts, stop=lambda x: x.i == hdr or x.i in sched, include_start=not first)
        first = False
        if any(f.inst[i].bb.id in body for i in sched):
            starts = []            # the task loop itself: the next iteration is another task
            break
        starts = [t.insts[0] for b in body for t in f.blocks[b].succ if t.id not in body]
    if starts:
        r |= f.reach(starts, stop=lambda x: x.i in sched, include_start=not first)
    exits = any(f.inst[i].op == "ret" for i in r)
    return r, exits


def rule_release_after(mod, rep):
    from .. import effects
    E = effects.get(mod)
    rep.rule("REL-AFTER", "after a store of 0 to spin_locks[c] (in whatever function it sits) the releasing thread does not write the index arrays of L any more for that task "
             "(xsup, xsup_end, supno, xlsub, xlsub_end, xlusup, xlusup_end), and touches lsub/lusup only through pxgstrf_pruneL: a consumer that was waiting on column c "
             "reads exactly these arrays as soon as the flag drops", floor=8)
    sites = []
    for f in mod.funcs.values():
        for S in f.insts():
            if S.op == "store" and is_const(S.ops[0], 0) and addr_is_elem_of(f, S, "spin_locks"):
                sites.append((f, S))
    for n, (f0, S0) in enumerate(sites):
        rep.scope([f0.name])
        bad = []
        seen = set()
        work = [(f0, S0, 0)]
        regions = 0
        while work:
            f, S, d = work.pop()
            if (f.name, S.i) in seen or d > 4:
                continue
            seen.add((f.name, S.i))
            r, exits = _continuation(mod, f, S)
            regions += 1
            for i in sorted(r):
                x = f.inst[i]
                if x.i == S.i:
                    continue
                if x.op == "store":
                    fl = _glu_fields(f.addr_paths(x))
                    for nm in sorted(fl & (_L_INDEX | _L_BODY)):
                        bad.append("%s:%s stores into %s[]" % (f.name, x.ln, nm))
                elif x.op == "call" and x.callee in mod.funcs:
                    fl = _glu_fields([w[2] for w in E.W.get(x.callee, ()) if w[0] in ("A", "G")])
                    hit = fl & _L_INDEX
                    if x.callee not in _PRUNE_OK:
                        hit |= fl & _L_BODY
                    for nm in sorted(hit):
                        bad.append("%s:%s calls %s which may write %s[]" % (f.name, x.ln, x.callee, nm))
            if exits and not f.name.endswith("gstrf_thread"):
                for c in mod.callers.get(f.name, []):
                    work.append((c.fn, c, d + 1))
        rep.check(not bad, "REL-AFTER", "%s#release@%s" % (f0.name, S0.ln), "nothing written to L's index arrays in the %d continuation region(s)" % regions,
                  "column released before its supernode's bookkeeping is complete: " + "; ".join(bad[:4]), S0.loc, f0.name)


# ---------------------------------------------------------------------------------------------------------------------------------
# SNODE-CONT: cholnzcnt continues the current supernode only at a vertex with exactly one child
# ---------------------------------------------------------------------------------------------------------------------------------
def rule_snode_continue(mod, rep):
    rep.rule("SNODE-CONT", "cholnzcnt (part_super_L, symmetric mode) and qrnzcnt (part_super_h): the recorded partition of the postordered columns is a partition into chains of "
             "the elimination tree, so a column that does NOT start a new supernode must have exactly one child (then k-1 is that child). Where a test on nchild[k] decides "
             "whether 'part_super[xsup] = k - xsup' is executed, the values of nchild that skip it are exactly {1}: a column without children - an isolated vertex, an empty "
             "column - starts its own supernode", floor=2)
    for fname, pname in (("cholnzcnt", "part_super_L"), ("qrnzcnt", "part_super_h")):
        _snode_continue_one(mod, rep, fname, pname)


def _snode_continue_one(mod, rep, fname, pname):
    from .pivot import _cd_closure
    f = mod.funcs.get(fname)
    if f is None:
        rep.brk("ANALYSIS-BROKEN SNODE-CONT: %s not found" % fname)
        return
    rep.scope([f.name])
    kp = f.pindex(pname)
    loops = f.loops()
    sites = []
    for S in f.insts():
        if S.op == "store" and any(p[0] == ("A", kp) for p in f.addr_paths(S)) and not is_const(S.ops[0], 0):
            sites.append(S)
    # the in-loop site (the one after the loop closes the last supernode)
    sites = [S for S in sites if any(S.bb.id in body for h, body in loops)]
    if not sites:
        rep.brk("ANALYSIS-BROKEN SNODE-CONT: no store %s[xsup] = ... inside a loop of %s" % (pname, fname))
        return
    decided = 0
    for S in sites:
        allowed = {0, 1, 2, 3, 1 << 20}
        ntests = 0
        for (a, s) in f.control_deps().get(S.bb.id, ()):          # the direct decisions: each has one edge towards the store, the other one skips it
            t = f.blocks[a].insts[-1]
            if t.op != "br" or not t.ops or t.ops[0][0] != "v":
                continue
            C = f.inst[t.ops[0][1]]
            if C.op != "icmp":
                continue
            ops = [strip_casts(f, o) for o in C.ops]
            side = None
            for k in (0, 1):
                if ops[k][0] == "v" and f.inst[ops[k][1]].op == "load" and ops[1 - k][0] == "c":
                    L = f.inst[ops[k][1]]
                    # nchild is a local heap array (intMalloc): identified by its counting loop '++nchild[parent]' - a load/add 1/store on the same cell
                    base = f.addr_paths(L)
                    incr = any(x.op == "store" and f.addr_paths(x) == base and strip_casts(f, x.ops[0])[0] == "v" and f.inst[strip_casts(f, x.ops[0])[1]].op == "add"
                               and any(is_const(z, 1) for z in f.inst[strip_casts(f, x.ops[0])[1]].ops) for x in f.insts())
                    if incr:
                        side = k
            if side is None:
                continue
            c = ops[1 - side][1]
            pr = _PRED.get(C.pred)
            if pr is None:
                continue
            ev = (lambda v: pr(v, c)) if side == 0 else (lambda v: pr(c, v))
            # successor s is the edge towards the store; the skip edge is the other one
            succ = [b.id for b in f.blocks[a].succ]
            toward_true = (succ[0] == s)
            ntests += 1
            allowed = {v for v in allowed if ev(v) != toward_true}
        if ntests == 0:
            continue             # this start is decided by something else (first nonzero of a row)
        decided += 1
        rep.check(allowed == {1}, "SNODE-CONT", "%s#continue@%s" % (fname, S.ln),
                  "supernode continues only where nchild[lownbr] == 1 (%d test(s))" % ntests,
                  "the supernode is continued at vertices with nchild in %s (sampled from 0,1,2,3,large): a vertex without children is merged with the preceding column, which is not "
                  "its child - ?PresetMap then skips the relaxed supernode starting there and under-reserves lusup[]" % sorted(allowed), S.loc, f.name)
    if decided == 0:
        rep.brk("ANALYSIS-BROKEN SNODE-CONT: no supernode start in %s is decided by a test on nchild[]" % fname)


# ---------------------------------------------------------------------------------------------------------------------------------
# P-FOUND: "search trackers" of p?gstrf_pivotL (position of the caller's pivot row / of the diagonal) are used only when the search succeeded
# ---------------------------------------------------------------------------------------------------------------------------------
def rule_pivot_found(mod, rep):
    rep.rule("P-FOUND", "p?gstrf_pivotL: a variable that records the position at which a wanted row subscript was found in the candidate loop (caller's pivot row for usepr, "
             "the diagonal for diagonal pivoting) starts with a value that is not a position (negative constant), and is used as an index after the loop only under a test "
             "that excludes that start value - otherwise a column that does not contain the wanted row silently pivots on another row while perm_r records the wanted one", floor=8)
    from .pivot import _cd_closure
    for prec, f in fam(mod, "p?gstrf_pivotL"):
        rep.scope([f.name])
        for h, body in f.loops():
            hb = f.blocks[h]
            for Q in hb.insts:
                if Q.op != "phi" or not Q.ty.startswith("i"):
                    continue
                inits = [strip_casts(f, o) for o, b in zip(Q.ops, Q.inb) if b not in body]
                ins = [strip_casts(f, o) for o, b in zip(Q.ops, Q.inb) if b in body]
                if len(inits) != 1 or len(ins) != 1 or ins[0][0] != "v":
                    continue
                M = f.inst[ins[0][1]]
                # the in-loop value merges Q itself with the loop index under an equality test of a loaded subscript
                if M.op != "phi":
                    continue
                mops = [strip_casts(f, o) for o in M.ops]
                others = [o for o in mops if not (o[0] == "v" and o[1] == Q.i)]
                if len(others) != 1 or len(mops) < 2 or others[0][0] != "v":
                    continue
                idxphi = f.inst[others[0][1]]
                if idxphi.op != "phi" or idxphi.bb.id != h:
                    continue
                # condition guarding the update
                eq_guard = False
                for (a, s) in f.control_deps().get(f.blocks[[b for o, b in zip(M.ops, M.inb) if strip_casts(f, o) == others[0]][0]].id, ()):
                    t = f.blocks[a].insts[-1]
                    if t.op == "br" and t.ops and t.ops[0][0] == "v":
                        C = f.inst[t.ops[0][1]]
                        if C.op == "icmp" and C.pred == "eq" and any(strip_casts(f, o)[0] == "v" and f.inst[strip_casts(f, o)[1]].op == "load" for o in C.ops):
                            eq_guard = True
                if not eq_guard:
                    continue
                name = Q.dn or ("phi%d" % Q.i)
                init = inits[0]
                ok1 = init[0] == "c" and init[1] < 0
                uses = []
                for x in f.insts():
                    if x.op in ("load", "store") and x.bb.id not in body:
                        idx = gep_index(f, x.ops[0] if x.op == "load" else x.ops[1])
                        if idx is not None and tuple(strip_casts(f, idx)) == ("v", Q.i):
                            uses.append(x)
                unguarded = []
                for u in uses:
                    g = False
                    for (a, s) in _cd_closure(f, u.bb.id):
                        t = f.blocks[a].insts[-1]
                        if t.op != "br" or not t.ops or t.ops[0][0] != "v":
                            continue
                        C = f.inst[t.ops[0][1]]
                        if C.op != "icmp":
                            continue
                        ops = [strip_casts(f, o) for o in C.ops]
                        for k in (0, 1):
                            if tuple(ops[k]) == ("v", Q.i) and ops[1 - k][0] == "c" and init[0] == "c":
                                pr = _PRED.get(C.pred)
                                if pr is None:
                                    continue
                                val = pr(init[1], ops[1 - k][1]) if k == 0 else pr(ops[1 - k][1], init[1])
                                succ = [b.id for b in f.blocks[a].succ]
                                edge_of_init = succ[0] if val else succ[1]
                                if edge_of_init != s:
                                    g = True
                    if not g:
                        unguarded.append(u)
                if not ok1:
                    bad = ("'%s' starts at a value that is itself a candidate position (%s), so 'not found' cannot be told from 'found at the first candidate'"
                           % (name, "constant %s" % init[1] if init[0] == "c" else "not a negative constant"))
                elif unguarded:
                    bad = "'%s' is used as an index at line %s without a test that excludes its start value %s" % (name, unguarded[0].ln, init[1])
                else:
                    bad = None
                rep.check(bad is None, "P-FOUND", "%s#%s" % (f.name, name),
                          "starts at %s and its %d use(s) as an index are guarded by a found-test" % (init[1] if init[0] == "c" else "?", len(uses)),
                          bad, Q.loc if Q.ln else f.file, f.name)
