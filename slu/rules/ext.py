"""EXT (C09/C19): extent discipline of SCP/NCP operands; strided-vector start offsets; reads of uninitialised work arrays;
BIND: export/import agreement of the Glu <-> L/U field bindings (C08)."""
import itertools
from ..util import *
from ..ir import fmt_path, strip_casts, expr_insts, expr_loads
from ..absint import Partition, Interp, TOP

BEG_FIELDS = {("SCPformat", "nzval_colbeg"): "nzval_colend", ("SCPformat", "rowind_colbeg"): "rowind_colend", ("SCPformat", "sup_to_colbeg"): "sup_to_colend",
              ("NCPformat", "colbeg"): "colend"}


class CharPart(Partition):
    pass


def rule_extents(mod, rep, patterns=("?gstrs", "sp_?trsv", "?PivotGrowth", "?gsrfs", "?gscon", "superlu_?QuerySpace", "sp_?gemv", "sp_?gemm", "?langs")):
    rep.rule("EXT", "permuted formats are not contiguous: the end of column / supernode j in an SCP or NCP operand is read from the matching *_colend[j] / sup_to_colend[s] array; "
             "a read of a *_colbeg / sup_to_colbeg array at index+1 (taken as the end of j) is a violation when the code is reachable under the routine's own argument "
             "checks, and a latent note when it sits behind a prologue that rejects the option", floor=16)
    n_ext = 0
    for pat in patterns:
        for prec, f in fam(mod, pat):
            rep.scope([f.name])
            offenders = []
            for L in f.insts():
                if L.op != "load":
                    continue
                hit = None
                for p in f.addr_paths(L):
                    if len(p) >= 3 and p[-1] == ("i",) and p[-2] == ("*",) and p[-3][0] == "f" and (p[-3][1], p[-3][2]) in BEG_FIELDS:
                        hit = (p[-3][1], p[-3][2])
                    if len(p) >= 3 and p[-1] == ("i",) and p[-2] == ("*",) and p[-3][0] == "f" and (p[-3][1], p[-3][2]) in [(a, b) for (a, _), b in BEG_FIELDS.items()]:
                        n_ext += 1
                if not hit:
                    continue
                n_ext += 1
                idx = gep_index(f, L.ops[0])
                plus1 = False
                if idx is not None and idx[0] == "v":
                    x = f.inst[idx[1]]
                    if x.op == "add" and any(is_const(o, 1) for o in x.ops):
                        plus1 = True
                if not plus1:
                    continue
                # a use that only feeds the flop statistics (solve_ops) is harmless
                uses = f.uses.get(L.i, [])
                feeds_addr_or_bound = _feeds_control_or_address(f, L)
                if feeds_addr_or_bound:
                    offenders.append((L, hit))
            if not offenders:
                continue
            # reachability under the routine's own prologue: interpret with each accepted trans character
            reach = set()
            kt = f.pindex("trans")
            acc = []
            if kt is not None and f.params[kt]["ty"] == "i8*":
                from .args import accepted_trans
                acc = sorted(accepted_trans(mod, f, "chr"))
                for ch in acc:
                    part = CharPart(trans=ch)
                    part.cells[(("A", kt),)] = ("c", ord(ch))
                    it = Interp(mod, f, part)
                    it.run()
                    reach |= it.reached_blocks
            else:
                reach = set(b.id for b in f.blocks)
            for n, (L, hit) in enumerate(offenders):
                if L.bb.id in reach:
                    rep.fail("EXT", "%s#%s[j+1]@%d" % (f.name, hit[1], n), "%s[j+1] is used as the end of column/supernode j of a permuted (non-contiguous) format; the end is %s[j]" % (hit[1], BEG_FIELDS[hit]), L.loc, f.name)
                else:
                    rep.note("EXT latent: %s reads %s[j+1] at %s in code its prologue makes unreachable (accepted trans: %s)" % (f.name, hit[1], L.loc, acc))
            if not any(L.bb.id in reach for L, _ in offenders):
                rep.ok("EXT", "%s#extents" % f.name, "no reachable [j+1] extent read (%d latent in dead code)" % len(offenders), f.file, f.name)
    # one obligation per extent read counted
    rep.stats["EXT.extent_reads"] = n_ext
    for pat in patterns:
        for prec, f in fam(mod, pat):
            cnt = 0
            for L in f.insts():
                if L.op == "load" and any(len(p) >= 3 and p[-1] == ("i",) and p[-3][0] == "f" and p[-3][1] in ("SCPformat", "NCPformat") for p in f.addr_paths(L)):
                    cnt += 1
            if cnt:
                rep.ok("EXT", "%s#reads" % f.name, "%d SCP/NCP extent/array reads inspected" % cnt, f.file, f.name)


def _feeds_control_or_address(f, L, limit=60):
    """the loaded value reaches a branch condition, a GEP index, or a call argument other than through a store to the ops statistics"""
    seen = set(); work = [L.i]
    while work and len(seen) < limit:
        i = work.pop()
        if i in seen:
            continue
        seen.add(i)
        for u in f.uses.get(i, []):
            if u.op in ("icmp",):
                return True
            if u.op == "getelementptr" and any(st["k"] == "idx" and st["v"][0] == "v" and st["v"][1] == i for st in u.gep):
                return True
            if u.op == "call" and not (u.callee or "").startswith("llvm."):
                return True
            if u.op == "store":
                continue
            if u.op in ("add", "sub", "mul", "sext", "zext", "trunc", "phi", "sitofp", "fadd", "fmul"):
                # float arithmetic = statistics
                if u.op in ("sitofp", "fadd", "fmul"):
                    continue
                work.append(u.i)
    return False


def _owned_helpers(mod, f):
    """internal functions called (transitively) from f and from nowhere else: blocks of f that were moved into static helpers; yields (helper, call site in its caller, caller)"""
    out = []
    owned = {f.name}
    work = [f]
    while work:
        g = work.pop()
        for c in g.calls():
            h = mod.funcs.get(c.callee or "")
            if h is None or not h.internal or h.name in owned:
                continue
            if all(x.fn.name in owned for x in mod.callers.get(h.name, [])):
                owned.add(h.name)
                out.append((h, c, g))
                work.append(h)
    return out


def rule_gemv_offsets(mod, rep):
    rep.rule("VEC-OFF", "sp_?gemv: a strided cursor that starts at k = -(len-1)*inc for a negative increment walks a loop whose trip count is that same len "
             "(the start offset of y is computed from y's own length); loops moved into a static helper are followed through the call", floor=4)
    from .threads import loop_bound

    def lens_of(g, start):
        lens = []
        for x in expr_insts(g, start):
            if x.op == "mul":
                for y in x.ops:
                    y = strip_casts(g, y)
                    if y[0] == "v" and g.inst[y[1]].op == "sub" and is_const(g.inst[y[1]].ops[0], 0):
                        y = strip_casts(g, g.inst[y[1]].ops[1])      # unary minus
                    if y[0] == "v" and g.inst[y[1]].op == "sub" and is_const(g.inst[y[1]].ops[1], 1):
                        lens.append(strip_casts(g, g.inst[y[1]].ops[0]))
        return lens

    def cursors(g):
        out = []
        for h, body in g.loops():
            lb = loop_bound(g, h, body)
            if not lb:
                continue
            bound = strip_casts(g, lb[2])
            for ph in g.blocks[h].insts:
                if ph.op != "phi" or ph.i == lb[0].i or not ph.ty.startswith("i"):
                    continue
                step_param = None; start = None
                for o, b in zip(ph.ops, ph.inb):
                    o = strip_casts(g, o)
                    if b in body and o[0] == "v" and g.inst[o[1]].op == "add":
                        for x in g.inst[o[1]].ops:
                            x = strip_casts(g, x)
                            if x[0] == "a":
                                step_param = x[1]
                    elif b not in body:
                        start = o
                if step_param is not None and start is not None:
                    out.append((ph, start, bound))
        return out

    for prec, f in fam(mod, "sp_?gemv"):
        rep.scope([f.name])
        n = 0
        bad = []
        for (ph, start, bound) in cursors(f):
            if bound[0] != "v" or f.inst[bound[1]].op != "phi":
                continue
            lens = lens_of(f, start)
            if not lens:
                continue
            n += 1
            if not all(same_val(l, bound) for l in lens):
                bad.append(ph)
        for (h, call, g) in _owned_helpers(mod, f):
            if g is not f:
                continue            # one level is what extraction produces
            rep.scope([h.name])
            for (ph, start, bound) in cursors(h):
                lens = lens_of(h, start)
                if lens:
                    # the helper computes the start itself from its own parameters
                    n += 1
                    if not all(same_val(l, bound) for l in lens):
                        bad.append(ph)
                    continue
                if start[0] == "a" and bound[0] == "a" and start[1] < len(call.ops) and bound[1] < len(call.ops):
                    cs = strip_casts(f, call.ops[start[1]]); cb = strip_casts(f, call.ops[bound[1]])
                    lens = lens_of(f, cs)
                    if not lens:
                        continue
                    n += 1
                    if not all(same_val(l, cb) for l in lens):
                        bad.append(ph)
        rep.check(not bad and n > 0, "VEC-OFF", "%s#start-offsets" % f.name, "%d strided cursors start at -(len-1)*inc with their own loop length" % n,
                  "a strided vector cursor starts at an offset computed from the other vector's length" if bad else "no strided cursor found", bad[0].loc if bad else f.file, f.name)


NONZEROING = {"intMalloc", "floatMalloc", "doubleMalloc", "complexMalloc", "doublecomplexMalloc", "superlu_malloc", "malloc"}


def rule_uninit_reads(mod, rep, patterns):
    rep.rule("UNINIT", "an array obtained from a non-zeroing allocator (intMalloc, ?Malloc, superlu_malloc) is not read before some store into it or a call receiving it "
             "(counters and markers must come from the zeroing variants)", floor=10)
    for pat in patterns:
        fs = fam(mod, pat) if "?" in pat else ([("", mod.funcs[pat])] if pat in mod.funcs else [])
        for prec, f in fs:
            rep.scope([f.name])
            for c in f.calls():
                if c.callee not in NONZEROING:
                    continue
                P0 = (("C", c.callee, c.i),)
                def touches(o):
                    return o[0] == "v" and any(p[:1] == P0 for p in f.paths(o))
                def self_dep(st):
                    return any(touches(l.ops[0]) for l in expr_loads(f, st.ops[0]))
                inits = [i for i in f.insts() if (i.op == "store" and touches(i.ops[1]) and not self_dep(i)) or
                         (i.op == "call" and i is not c and not (i.callee or "").startswith("llvm.dbg") and any(touches(o) and f.is_ptr(o) for o in i.ops))]
                ii = set(x.i for x in inits)
                for h, body in f.loops():
                    if any(x.bb.id in body for x in inits if x.op == "store"):
                        ii.add(f.blocks[h].insts[0].i)      # an initialising loop over 0..n-1 (zero trips only for an empty array)
                r = f.reach([c], stop=lambda x: x.i in ii)
                early = [f.inst[x] for x in r if f.inst[x].op == "load" and touches(f.inst[x].ops[0]) and any(p[:1] == P0 and len(p) > 1 for p in f.addr_paths(f.inst[x]))]
                key = "%s#%s@%d" % (f.name, c.callee, c.ln)
                rep.check(not early, "UNINIT", key, "first access to the array is a store / hand-over",
                          "elements of the %s() result are read at %s before anything was stored into the array (uninitialised memory; use the zeroing allocator)" % (c.callee, early[0].loc if early else "?"),
                          early[0].loc if early else c.loc, f.name)


def rule_bind_export_import(mod, rep):
    rep.rule("BIND", "the Glu <-> L/U binding used when re-entering a factorization (p?gstrf_MemInit, refact branch: Glu field <- L/U Store field) is the inverse of the binding "
             "used when exporting (p?gstrf_thread_finalize -> ?Create_SuperNode_Permuted / ?Create_CompCol_Permuted: Store field <- Glu field), for all 13 arrays", floor=52)
    for prec in "sdcz":
        fin = mod.funcs.get("p%sgstrf_thread_finalize" % prec); mi = mod.funcs.get("p%sgstrf_MemInit" % prec)
        cL = mod.funcs.get("%sCreate_SuperNode_Permuted" % prec); cU = mod.funcs.get("%sCreate_CompCol_Permuted" % prec)
        if not (fin and mi and cL and cU):
            rep.brk("ANALYSIS-BROKEN BIND: routines of precision %s not found" % prec)
            continue
        rep.scope([fin.name, mi.name, cL.name, cU.name])
        export = {}      # (matrix, field) -> Glu field
        for cons, mat in ((cL, "L"), (cU, "U")):
            pf = {}      # param index -> Store field
            for s in cons.insts():
                if s.op == "store" and cons.is_ptr(s.ops[0]):
                    v = strip_casts(cons, s.ops[0])
                    if v[0] == "a":
                        for p in cons.addr_paths(s):
                            if p[-1][0] == "f" and p[-1][1] in ("SCPformat", "NCPformat"):
                                pf[v[1]] = p[-1][2]
            for c in fin.calls(cons.name):
                for k, fld in pf.items():
                    for p in fin.paths(c.ops[k]):
                        if len(p) >= 2 and p[-1] == ("*",) and p[-2][0] == "f" and p[-2][1] == "GlobalLU_t":
                            export[(mat, fld)] = p[-2][2]
        imp = {}
        kL = mi.pindex("L"); kU = mi.pindex("U"); kG = mi.pindex("Glu")
        for s in mi.insts():
            if s.op != "store":
                continue
            for q in mi.addr_paths(s):
                if q[0] == ("A", kG) and len(q) == 2 and q[1][0] == "f":
                    for p in mi.paths(s.ops[0]):
                        if p[0] in (("A", kL), ("A", kU)) and p[-1] == ("*",) and p[-2][0] == "f" and p[-2][1] in ("SCPformat", "NCPformat"):
                            imp[q[1][2]] = ("L" if p[0] == ("A", kL) else "U", p[-2][2])
        for (mat, fld), g in sorted(export.items()):
            got = imp.get(g)
            rep.check(got == (mat, fld), "BIND", "p%sgstrf#%s.%s<->Glu.%s" % (prec, mat, fld, g), "exported as %s->%s, re-imported from the same field" % (mat, fld),
                      "Glu->%s is exported to %s->Store->%s but re-imported from %s on refactorization" % (g, mat, fld, ("%s->Store->%s" % got) if got else "nothing"), mi.file, mi.name)
        if len(export) < 13:
            rep.fail("BIND", "p%sgstrf#export-count" % prec, "only %d of 13 array bindings recognised in the export" % len(export), fin.file, fin.name)
