"""Rules added in round 5 (fresh unconstrained seeded changes): ZERO-SKIP, INV-FILL, ABS-MODULUS, TRSV-NOSKIP, ..."""
from ..util import *
from ..ir import fmt_path, strip_casts, expr_insts, expr_loads, dead_edges
from .more import _Poly, _PRED
from .pivot import _cd_closure

_FP = {"oeq": lambda a, b: a == b, "ueq": lambda a, b: a == b, "one": lambda a, b: a != b, "une": lambda a, b: a != b,
       "ogt": lambda a, b: a > b, "ugt": lambda a, b: a > b, "oge": lambda a, b: a >= b, "uge": lambda a, b: a >= b,
       "olt": lambda a, b: a < b, "ult": lambda a, b: a < b, "ole": lambda a, b: a <= b, "ule": lambda a, b: a <= b}


def _fconst(o):
    """value of a floating constant operand, or None"""
    if o[0] == "f":
        try:
            return float(o[1])
        except Exception:
            return None
    if o[0] == "c":
        return float(o[1])
    return None


def _edge_excludes_zero(f, a, s, subj_pred):
    """does taking edge (a -> s) imply subject != 0 ?  The branch must be an fcmp with a subject operand; the other operand is a constant or an
    unknown non-negative quantity (sampled at 0 and 1)."""
    t = f.blocks[a].insts[-1]
    if t.op != "br" or not t.ops or t.ops[0][0] != "v" or len(t.tgt) != 2 or t.tgt[0] == t.tgt[1]:
        return False
    C = f.inst[t.ops[0][1]]
    neg = False
    while C.op == "xor" and any(is_const(z, 1) or z == ["c", True] for z in C.ops):
        nx = [z for z in C.ops if z[0] == "v"]
        if not nx:
            return False
        C = f.inst[nx[0][1]]; neg = not neg
    if C.op != "fcmp" or C.pred not in _FP:
        return False
    truth = (s == t.tgt[0]) != neg
    for k in (0, 1):
        if subj_pred(C.ops[k]):
            oth = C.ops[1 - k]
            cv = _fconst(strip_casts(f, oth))
            samples = [cv] if cv is not None else [0.0, 1.0]
            vals = [(_FP[C.pred](0.0, v) if k == 0 else _FP[C.pred](v, 0.0)) for v in samples]
            if all(v != truth for v in vals):
                return True
    return False


def rule_zero_skip(mod, rep):
    rep.rule("ZERO-SKIP", "a zero term is skipped, not divided: (a) ?langs, Frobenius norm: every division of the scaled sum of squares is control dependent on a comparison that "
             "excludes |a(i,j)| == 0 (with scale == 0 a zero entry would evaluate 0/0); (b) ?gsrfs, backward error: every quotient of the berr loop is control dependent on a "
             "comparison that excludes a zero denominator row (|op(A)||X|+|B|)(i) == 0 - such a row is satisfied exactly and contributes nothing", floor=16)
    # (a) ?langs
    for prec, f in fam(mod, "?langs"):
        rep.scope([f.name])
        n = 0
        for h, body in f.loops():
            divs = [x for b in body for x in f.blocks[b].insts if x.op == "fdiv"]
            if not divs:
                continue
            def is_abs(o):
                o = strip_casts(f, o)
                return o[0] == "v" and f.inst[o[1]].op == "call" and (f.inst[o[1]].callee or "").startswith(("llvm.fabs", "fabs"))
            for d in divs:
                if any(b2 < body and d.bb.id in b2 for h2, b2 in f.loops()):
                    continue          # reported with the innermost loop
                n += 1
                ok = any(a in body and _edge_excludes_zero(f, a, s, is_abs) for (a, s) in _cd_closure(f, d.bb.id))
                rep.check(ok, "ZERO-SKIP", "%s#fro@%s" % (f.name, d.ln), "division is made only for a non-zero entry",
                          "a division of the scaled sum of squares is reachable for an entry equal to zero: with scale still 0 the term is 0/0 and the norm is NaN", d.loc, f.name)
        if n == 0:
            rep.brk("ANALYSIS-BROKEN ZERO-SKIP: no division in a loop of %s" % f.name)
    # (b) ?gsrfs
    for prec, f in fam(mod, "?gsrfs"):
        rep.scope([f.name])
        n = 0
        for h, body in f.loops():
            if any(b2 < body for h2, b2 in f.loops()):
                continue
            divs = [x for b in body for x in f.blocks[b].insts if x.op == "fdiv"]
            if not divs:
                continue
            # the berr loop: denominators read a heap-allocated local work array (rwork)
            def heap_loads(o):
                return [l for l in expr_loads(f, o) if all(p and p[0][0] == "C" for p in f.addr_paths(l)) and f.addr_paths(l)]
            subj_paths = set()
            for d in divs:
                for l in heap_loads(d.ops[1]):
                    subj_paths.add(tuple(sorted(f.addr_paths(l))))
            if not subj_paths:
                continue
            def is_subj(o):
                o = strip_casts(f, o)
                return o[0] == "v" and f.inst[o[1]].op == "load" and tuple(sorted(f.addr_paths(f.inst[o[1]]))) in subj_paths
            for d in divs:
                n += 1
                ok = any(a in body and _edge_excludes_zero(f, a, s, is_subj) for (a, s) in _cd_closure(f, d.bb.id))
                rep.check(ok, "ZERO-SKIP", "%s#berr@%s" % (f.name, d.ln), "quotient is formed only for a non-zero denominator row",
                          "a quotient of the backward-error loop is formed for a row whose denominator (|op(A)||X|+|B|)(i) is exactly zero: berr is reported as 1 (or NaN) for a "
                          "solution that satisfies the row exactly", d.loc, f.name)
        if n == 0:
            rep.brk("ANALYSIS-BROKEN ZERO-SKIP: berr loop of %s not found" % f.name)


# ---------------------------------------------------------------------------------------------------------------------------------
# INV-FILL (C06 C10 C08): an inverse permutation built by scatter is built over the whole allocation
# ---------------------------------------------------------------------------------------------------------------------------------
_ALLOCS = ("intMalloc", "intCalloc", "superlu_malloc", "int32Malloc", "int32Calloc")


def rule_inverse_fill(mod, rep, floor=4):
    from .threads import loop_bound
    from .layout import padd, pfmt
    rep.rule("INV-FILL", "an inverse permutation that is built by scatter (inv[perm[j]] = j in a counted loop) into an array the routine allocated itself is built over the dimension "
             "the array was allocated for: the loop starts at 0 and every symbolic quantity of its trip count occurs in the allocated element count (a scatter over some other, "
             "smaller quantity - a prefix of the columns - leaves arbitrary positions of inv[] uninitialised, and they are read by position later)", floor=floor)
    for f in mod.funcs.values():
        if not f.blocks:
            continue
        P = None
        for h, body in f.loops():
            lb = loop_bound(f, h, body)
            if not lb or lb[1] not in ("slt", "ult", "sle", "ule", "ne"):
                continue
            ph = lb[0]
            for b in body:
                for s in f.blocks[b].insts:
                    if s.op != "store" or strip_casts(f, s.ops[0]) != ["v", ph.i]:
                        continue
                    idx = gep_index(f, s.ops[1])
                    if idx is None:
                        continue
                    idx = strip_casts(f, idx)
                    if idx[0] != "v" or f.inst[idx[1]].op != "load":
                        continue
                    L = f.inst[idx[1]]
                    li = gep_index(f, L.ops[0])
                    if li is None or strip_casts(f, li) != ["v", ph.i]:
                        continue
                    # destination: an allocation of this routine
                    roots = {p[0] for p in f.addr_paths(s) if p}
                    if not roots or not all(r[0] == "C" and r[1] in _ALLOCS for r in roots) or len(roots) != 1:
                        continue
                    r = list(roots)[0]
                    call = [c for c in f.calls(r[1]) if c.i == r[2]]
                    if len(call) != 1:
                        continue
                    P = P or _Poly(f)
                    cnt = P.of(call[0].ops[0])
                    if r[1] == "superlu_malloc":
                        # bytes -> elements of int_t
                        im = mod.funcs.get("intMalloc")
                        esz = 8 if (im is not None and im.params and im.params[0].get("ty") == "i64") else 4
                        if any(v % esz for v in cnt.values()):
                            continue
                        cnt = {k: v // esz for k, v in cnt.items()}
                    init = [o for o, b2 in zip(ph.ops, ph.inb) if b2 not in body]
                    bound = P.of(lb[2])
                    if lb[1] in ("sle", "ule"):
                        from .layout import pconst
                        bound = padd(bound, pconst(1), 1)
                    # the allocation may be a larger scratch area (n+1, 3n+2 ints): what must agree is the dimension - every symbol of the trip count is a
                    # symbol of the allocated count, with a coefficient that does not exceed it
                    bs = {k: v for k, v in bound.items() if k}; cs = {k: v for k, v in cnt.items() if k}
                    ok = len(init) == 1 and is_const(strip_casts(f, init[0]), 0) and bool(bs) and all(k in cs and 0 < v <= cs[k] for k, v in bs.items())
                    rep.scope([f.name])
                    rep.check(ok, "INV-FILL", "%s#%s@%s" % (f.name, r[1], r[2]), "scatter covers the allocation (%s entries)" % pfmt(cnt),
                              "the scatter inv[perm[j]] = j runs over j < %s but the array has %s entries: positions whose pre-image lies beyond the loop stay uninitialised"
                              % (pfmt(P.of(lb[2])), pfmt(cnt)), s.loc, f.name)


# ---------------------------------------------------------------------------------------------------------------------------------
# ABS-MODULUS (C12): the complex 1-norm helpers sum true moduli
# ---------------------------------------------------------------------------------------------------------------------------------
_ABS1_BLAS = ("scasum_", "dzasum_", "icamax_", "izamax_", "scabs1_", "dcabs1_")


def rule_abs_modulus(mod, rep):
    rep.rule("ABS-MODULUS", "scsum1_ / dzsum1_ (used by clacon_ / zlacon_): the value returned is built only from 0, floating additions and results of c_abs / z_abs (the true modulus); "
             "no routine of the library calls the |re|+|im| reductions of the BLAS (scasum_, dzasum_, icamax_, izamax_), whose results differ from the 1-norm of a complex "
             "vector by up to sqrt(2)", floor=2)
    for name, absf in (("scsum1_", "c_abs"), ("dzsum1_", "z_abs")):
        f = mod.funcs.get(name)
        if f is None or not f.blocks:
            rep.brk("ANALYSIS-BROKEN ABS-MODULUS: %s not found" % name)
            continue
        rep.scope([f.name])
        bad = []
        seen = set()
        work = [r.ops[0] for r in f.insts() if r.op == "ret" and r.ops]
        nabs = 0
        while work:
            o = strip_casts(f, work.pop())
            if o[0] != "v" or o[1] in seen:
                continue
            seen.add(o[1])
            x = f.inst[o[1]]
            if x.op in ("phi", "fadd", "select"):
                work += [z for z in (x.ops if x.op != "select" else x.ops[1:])]
            elif x.op == "call" and (x.callee or "") == absf:
                nabs += 1
            elif x.op == "load" and strip_casts(f, x.ops[0])[0] == "g":
                # f2c keeps the accumulator in a function-static: follow every store to it
                g = strip_casts(f, x.ops[0])
                work += [st.ops[0] for st in f.insts() if st.op == "store" and strip_casts(f, st.ops[1]) == g]
            elif x.op == "call" and (x.callee or "").startswith("llvm.fmuladd"):
                bad.append(x)
            else:
                bad.append(x)
        rep.check(not bad and nabs > 0, "ABS-MODULUS", "%s#sum" % name, "sum of %s() results (%d call sites)" % (absf, nabs),
                  "the returned sum is not built from %s() results only (%s at %s)" % (absf, (bad[0].op + " " + (bad[0].callee or "")) if bad else "no modulus call", bad[0].loc if bad else "-"),
                  bad[0].loc if bad else f.file, f.name)
    for f in mod.funcs.values():
        for c in f.calls():
            if (c.callee or "") in _ABS1_BLAS:
                rep.scope([f.name])
                rep.check(False, "ABS-MODULUS", "%s#%s@%s" % (f.name, c.callee, c.ln), "", "%s() sums |re|+|im|, not the modulus: estimates based on it are off by up to sqrt(2)" % c.callee, c.loc, f.name)


# ---------------------------------------------------------------------------------------------------------------------------------
# TRSV-DENSE (C19 C01): the triangular solves do not branch on numerical values
# ---------------------------------------------------------------------------------------------------------------------------------
def rule_trsv_dense(mod, rep):
    from .ext import _owned_helpers
    rep.rule("TRSV-DENSE", "sp_?trsv (and its static helpers): no branch is decided by a floating-point comparison - the block solve and the update of every supernode are applied "
             "whatever the values in x are (a `skip if x[first column] == 0` shortcut is wrong for a supernode with more than one column: the other columns still "
             "contribute)", floor=4)
    for prec, f0 in fam(mod, "sp_?trsv"):
        fs = [f0] + [h for (h, c, g) in _owned_helpers(mod, f0)]
        rep.scope([x.name for x in fs])
        bad = []
        for f in fs:
            for t in f.insts():
                if t.op == "br" and t.ops and t.ops[0][0] == "v":
                    for x in expr_insts(f, t.ops[0]):
                        if x.op == "fcmp":
                            bad.append(x)
        rep.check(not bad, "TRSV-DENSE", "%s#no-value-branch" % f0.name, "no floating-point comparison decides a branch",
                  "a branch depends on a floating-point comparison (%s): part of the solve is skipped for particular values of x" % (bad[0].loc if bad else ""),
                  bad[0].loc if bad else f0.file, f0.name)


# ---------------------------------------------------------------------------------------------------------------------------------
# GSTRS-PERM (C07 C01): direction of the four permutations of ?gstrs
# ---------------------------------------------------------------------------------------------------------------------------------
def rule_gstrs_perm(mod, rep):
    rep.rule("GSTRS-PERM", "?gstrs applies Pr before and Pc' after a non-transposed solve, Pc' before and Pr after a transposed one, each in the documented direction "
             "(perm[i] = j: row / column i is in position j): before the solve soln[perm[k]] := rhs[k] (scatter), after it soln[k] := rhs[perm[k]] (gather); per branch of the "
             "test trans == NOTRANS the set of (direction, permutation) pairs is {scatter perm_r, gather perm_c} resp. {scatter perm_c, gather perm_r}", floor=8)
    for prec, f in fam(mod, "?gstrs"):
        rep.scope([f.name])
        kt = f.pindex("trans"); kr = f.pindex("perm_r"); kc = f.pindex("perm_c")
        nm = {kr: "perm_r", kc: "perm_c"}
        NOTRANS = mod.enums.get("NOTRANS", 0)
        got = {True: [], False: []}

        def copies(g):
            """element copies in g whose destination index or source index is perm[k]: (kind, how the permutation is named in g, instruction)"""
            out = []
            for st in g.insts():
                if st.op == "store":
                    dst = st.ops[1]
                    v = strip_casts(g, st.ops[0])
                    src = g.inst[v[1]].ops[0] if v[0] == "v" and g.inst[v[1]].op == "load" else None
                elif st.op == "call" and (st.callee or "").startswith("llvm.memcpy"):
                    dst, src = st.ops[0], st.ops[1]
                else:
                    continue
                idx = gep_index(g, dst)
                if idx is None:
                    continue
                def perm_of(o):
                    o = strip_casts(g, o)
                    if o[0] == "v" and g.inst[o[1]].op == "load":
                        for p in g.addr_paths(g.inst[o[1]]):
                            if p and p[0][0] == "A" and len(p) == 2 and p[1] == ("i",):
                                return p[0][1]
                    return None
                droots = {p[0] for p in g.paths(dst) if p}
                pn = perm_of(idx)
                if pn is not None:
                    out.append(("scatter", pn, droots, st))
                elif src is not None:
                    li = gep_index(g, src)
                    pn = perm_of(li) if li is not None else None
                    if pn is not None:
                        out.append(("gather", pn, droots, st))
            return out

        def branch_of(bid):
            br = None
            for (a, s2) in _cd_closure(f, bid):
                t = f.blocks[a].insts[-1]
                if t.op == "br" and t.ops and t.ops[0][0] == "v":
                    C = f.inst[t.ops[0][1]]
                    if C.op == "icmp" and C.pred in ("eq", "ne") and any(strip_casts(f, z) == ["a", kt] for z in C.ops) and any(is_const(z, NOTRANS) for z in C.ops):
                        br = (s2 == t.tgt[0]) == (C.pred == "eq")
            return br

        events = []
        for kind, pn, droots, st in copies(f):
            if pn in nm and droots and all(r[0] == "C" for r in droots):       # soln[] is the routine's own allocation
                events.append(((kind, nm[pn]), st))
        for c in f.calls():
            h = mod.funcs.get(c.callee or "")
            if h is None or not h.internal or not h.blocks:
                continue
            for kind, pn, droots, st in copies(h):
                if pn >= len(c.ops):
                    continue
                pa = strip_casts(f, c.ops[pn])
                # destination: a parameter of the helper that receives the routine's own allocation
                dok = droots and all(r[0] == "A" and r[1] < len(c.ops) and all(q and q[0][0] == "C" for q in f.paths(c.ops[r[1]])) for r in droots)
                if pa[0] == "a" and pa[1] in nm and dok:
                    events.append(((kind, nm[pa[1]]), c))
        for kind, st in events:
            br = branch_of(st.bb.id)
            if br is None:
                rep.check(False, "GSTRS-PERM", "%s#perm@%s" % (f.name, st.ln), "", "a permutation of the right-hand side is applied outside the trans == NOTRANS branches", st.loc, f.name)
                continue
            got[br].append((kind, st))
        want = {True: {("scatter", "perm_r"), ("gather", "perm_c")}, False: {("scatter", "perm_c"), ("gather", "perm_r")}}
        for br in (True, False):
            g = {k for k, st in got[br]}
            lab = "NOTRANS" if br else "TRANS"
            site = got[br][0][1].loc if got[br] else f.file
            badst = [st for k, st in got[br] if k not in want[br]]
            rep.check(g == want[br] and len(got[br]) == 2, "GSTRS-PERM", "%s#%s" % (f.name, lab), "permutations %s" % sorted(g),
                      "the %s branch applies %s, documented: %s" % (lab, sorted(k for k, st in got[br]), sorted(want[br])), badst[0].loc if badst else site, f.name)


# ---------------------------------------------------------------------------------------------------------------------------------
# BUSY-WALK (C03 C01): the pipeline is followed along the elimination tree
# ---------------------------------------------------------------------------------------------------------------------------------
def rule_busy_walk(mod, rep):
    from .threads import loop_bound
    rep.rule("BUSY-WALK", "pxgstrf_mark_busy_descends and p?gstrf_panel_bmod: a loop that runs from a busy descendant up to the current panel (its exit test compares the loop "
             "variable with the panel's leading column jcol) moves to the parent in the elimination tree - every value the loop variable takes for the next iteration is read "
             "from etree[]: columns between the busy chain and jcol that belong to finished sibling subtrees are neither marked busy nor waited for", floor=5)
    fs = [("x", mod.funcs.get("pxgstrf_mark_busy_descends"))] + list(fam(mod, "p?gstrf_panel_bmod"))
    for prec, f in fs:
        if f is None:
            rep.brk("ANALYSIS-BROKEN BUSY-WALK: pxgstrf_mark_busy_descends not found")
            continue
        rep.scope([f.name])
        kj = f.pindex("jcol"); ke = f.pindex("etree")
        n = 0
        for h, body in f.loops():
            # exit tests of this loop against jcol
            phs = set()
            for b in body:
                t = f.blocks[b].insts[-1]
                if t.op != "br" or not t.ops or t.ops[0][0] != "v" or all(x in body for x in t.tgt):
                    continue
                C = f.inst[t.ops[0][1]]
                if C.op != "icmp":
                    continue
                ops = [strip_casts(f, o) for o in C.ops]
                for k in (0, 1):
                    if ops[1 - k] == ["a", kj] and ops[k][0] == "v":
                        # the compared value: a header phi, or a value that feeds one (kcol = etree[kcol]; if (kcol >= jcol) break)
                        for ph in f.blocks[h].insts:
                            if ph.op == "phi" and (ops[k] == ["v", ph.i] or any(strip_casts(f, o) == ops[k] for o, pb in zip(ph.ops, ph.inb) if pb in body)):
                                phs.add(ph.i)
            for pi in sorted(phs):
                ph = f.inst[pi]
                n += 1
                nxt = []
                seen = set(); work = [o for o, pb in zip(ph.ops, ph.inb) if pb in body]
                while work:
                    o = strip_casts(f, work.pop())
                    if o[0] == "v" and o[1] in seen:
                        continue
                    if o[0] == "v":
                        seen.add(o[1])
                        x = f.inst[o[1]]
                        if x.op == "phi" and x.bb.id in body and x.i != ph.i:
                            work += list(x.ops); continue
                        if x.i == ph.i:
                            continue
                    nxt.append(o)
                ok = bool(nxt) and all(o[0] == "v" and f.inst[o[1]].op == "load" and any(p and p[0] == ("A", ke) for p in f.addr_paths(f.inst[o[1]])) for o in nxt)
                rep.check(ok, "BUSY-WALK", "%s#%s@%s" % (f.name, ph.dn or "k", f.blocks[h].insts[-1].ln), "the walk towards jcol follows etree[]",
                          "a loop that runs up to the panel's leading column does not move along the elimination tree (next value is not read from etree[]): finished sibling "
                          "subtrees between the busy chain and the panel are treated as busy", f.blocks[h].insts[-1].loc, f.name)
        if n == 0:
            rep.brk("ANALYSIS-BROKEN BUSY-WALK: no walk towards jcol found in %s" % f.name)


# ---------------------------------------------------------------------------------------------------------------------------------
# SNODE-TEST (C01 C02 C05 C09): the two numeric tests that let column j join the supernode of j-1
# ---------------------------------------------------------------------------------------------------------------------------------
def _peval(poly, env):
    tot = 0
    for mono, c in poly.items():
        v = c
        for s in mono:
            v *= env[s]
        tot += v
    return tot


def rule_snode_tests(mod, rep):
    rep.rule("SNODE-TEST", "p?gstrf_column_dfs: (a) the size test against sp_ienv(3) separates `jcol - fsupc == maxsuper - 1` (column may join: the supernode reaches maxsuper "
             "columns) from `== maxsuper` and `== maxsuper + 1` (must start a new supernode; the work arrays of the update kernels are laid out for at most maxsuper columns); "
             "(b) the structure test separates `no_lsub == size(j-1) - 1` from both `<` and `>` (a T2 supernode needs the identical row set, a subset loses fill after "
             "pruning) - evaluated on the predicates with sample values", floor=8)
    for prec, f in fam(mod, "p?gstrf_column_dfs"):
        rep.scope([f.name])
        P = _Poly(f)
        na = nb = 0
        for C in f.insts():
            if C.op != "icmp" or C.pred not in _PRED:
                continue
            pl, pr = P.of(C.ops[0]), P.of(C.ops[1])
            syms = set(s for m in list(pl) + list(pr) for s in m)
            ienv = [s for s in syms if s.startswith("v") and s[1:].isdigit() and f.inst[int(s[1:])].op == "call" and (f.inst[int(s[1:])].callee or "") == "sp_ienv"]
            lend = [s for s in syms if s.startswith("ld:") and "xlsub_end" in s]
            lbeg = [s for s in syms if s.startswith("ld:") and "xlsub^" in s.replace("xlsub_end", "#")]
            if len(ienv) == 1 and "jcol" in syms:
                others = [s for s in syms if s not in (ienv[0], "jcol")]
                if len(others) != 1:
                    continue
                na += 1
                def T(delta):
                    env = {ienv[0]: 100, others[0]: 10, "jcol": 110 + delta}
                    return _PRED[C.pred](_peval(pl, env), _peval(pr, env))
                ok = T(-1) != T(0) and T(0) == T(1)
                rep.check(ok, "SNODE-TEST", "%s#maxsuper" % f.name, "the size test switches exactly at jcol - fsupc == maxsuper",
                          "the size test does not switch at jcol - fsupc == maxsuper (values at maxsuper-1, maxsuper, maxsuper+1: %s): a supernode can grow to maxsuper+1 columns, "
                          "one more than the kernels' scratch layout (TriTmp[maxsuper] | MatvecTmp) provides for" % [T(-1), T(0), T(1)], C.loc, f.name)
            elif lend and lbeg and not ienv:
                others = [s for s in syms if s not in lend and s not in lbeg]
                if len(others) != 1 or len(lend) != 1 or len(lbeg) != 1:
                    continue
                nb += 1
                def T2(x):
                    env = {lend[0]: 50, lbeg[0]: 20, others[0]: 30 + x}      # size(j-1) = 30
                    return _PRED[C.pred](_peval(pl, env), _peval(pr, env))
                ok = T2(-1) != T2(-2) and T2(-1) != T2(0) and T2(-2) == T2(0)
                rep.check(ok, "SNODE-TEST", "%s#T2" % f.name, "the structure test accepts only no_lsub == size(j-1) - 1",
                          "the structure test does not single out no_lsub == size(j-1) - 1 (values at size-2, size-1, size: %s): a column whose row set is a strict subset joins the "
                          "supernode" % [T2(-2), T2(-1), T2(0)], C.loc, f.name)
        if na == 0 and nb == 0:
            rep.brk("ANALYSIS-BROKEN SNODE-TEST: tests not found in %s (size %d, structure %d)" % (f.name, na, nb))
        elif na == 0:
            rep.fail("SNODE-TEST", "%s#maxsuper" % f.name, "p?gstrf_column_dfs compares no column offset jcol - fsupc with sp_ienv(3): nothing stops a supernode of L at maxsuper columns "
                     "(super_bnd[] counts from the start of a piece of H, not of the supernode: a relaxed supernode plus the piece that follows can exceed it), and the update kernels' "
                     "scratch layout TriTmp[maxsuper] | MatvecTmp overlaps for wider supernodes", f.file, f.name)
        elif nb == 0:
            rep.fail("SNODE-TEST", "%s#T2" % f.name, "p?gstrf_column_dfs has no test of no_lsub against the row count of the previous column: a column joins the supernode whatever "
                     "its structure", f.file, f.name)


# ---------------------------------------------------------------------------------------------------------------------------------
# ROW-CURSOR (C01 C19): the row-subscript cursor of a supernode restarts for every column
# ---------------------------------------------------------------------------------------------------------------------------------
def rule_row_cursor(mod, rep, pats=("sp_?trsv", "?gstrs"), floor=4):
    from .ext import _owned_helpers
    rep.rule("ROW-CURSOR", "sp_?trsv: all columns of a supernode share one row-subscript list; a cursor that walks Lstore->rowind[] in an inner loop over the entries of one column "
             "enters that loop with a value that does not change from one column to the next (it is not carried over from the previous column's loop through a variable of "
             "the column loop)", floor=floor)
    for pat in pats:
        for prec, f0 in fam(mod, pat):
            for f in [f0] + [h for (h, c, g) in _owned_helpers(mod, f0)]:
                rep.scope([f.name])
                loops = f.loops()
                for L in f.insts():
                    if L.op != "load" or not any(p and any(seg[0] == "f" and seg[2] == "rowind" for seg in p) for p in f.addr_paths(L.ops[0] if False else L)):
                        continue
                    idx = gep_index(f, L.ops[0])
                    if idx is None:
                        continue
                    idx = strip_casts(f, idx)
                    if idx[0] != "v" or f.inst[idx[1]].op != "phi":
                        continue
                    ph = f.inst[idx[1]]
                    l1 = [(h, b) for h, b in loops if h == ph.bb.id]
                    if not l1:
                        continue
                    h1, b1 = l1[0]
                    outer = sorted([(h, b) for h, b in loops if b1 < b], key=lambda hb: len(hb[1]))
                    if not outer:
                        continue
                    h2, b2 = outer[0]
                    hdr2 = {x.i for x in f.blocks[h2].insts if x.op == "phi"}
                    enter = [o for o, pb in zip(ph.ops, ph.inb) if pb not in b1]
                    carried = [x for o in enter for x in expr_insts(f, o) if x.i in hdr2]
                    # a cursor that IS the outer loop's own induction variable is fine only when the inner loop's other induction restarts too - not the case here
                    rep.check(not carried, "ROW-CURSOR", "%s#%s@%s" % (f.name, ph.dn or "cursor", L.ln), "the row-subscript cursor restarts for every column",
                              "the cursor into the supernode's row subscripts is carried over from the previous column (it enters the inner loop through a variable of the column loop): "
                              "from the second column on, subscripts beyond the supernode's list are read", L.loc, f.name)


# ---------------------------------------------------------------------------------------------------------------------------------
# TRANSPOSE, UNION-ALL (C10 C16): getata / at_plus_a build T = A' and use all of it
# ---------------------------------------------------------------------------------------------------------------------------------
def rule_transpose(mod, rep):
    rep.rule("TRANSPOSE", "getata / at_plus_a: (a) the transposition T = A' stores, at the cursor marker[row] of each entry (row, j) of A, the column number j - the variable of the "
             "enclosing loop over the columns - not the row; (b) every loop that writes or reads t_rowind[] is executed unconditionally: the only branches it is control "
             "dependent on are the bound tests of the loops around it (a data-dependent shortcut such as `A looks symmetric` leaves entries of A' out of A'+A / A'A, and "
             "the elimination tree and column counts computed from it are too small)", floor=8)
    def reach_static(f0):
        out = [f0]; seen = {f0.name}; work = [f0]
        while work:
            g = work.pop()
            for c in g.calls():
                h = mod.funcs.get(c.callee or "")
                if h is not None and h.internal and h.blocks and h.name not in seen and (h.file or "") == (f0.file or ""):
                    seen.add(h.name); out.append(h); work.append(h)
        return out

    def tsites_of(f):
        out = []
        for st in f.insts():
            if st.op != "store":
                continue
            idx = gep_index(f, st.ops[1])
            if idx is None:
                continue
            idx = strip_casts(f, idx)
            if idx[0] != "v" or f.inst[idx[1]].op != "load":
                continue
            M = f.inst[idx[1]]
            mi = gep_index(f, M.ops[0])
            if mi is None:
                continue
            mi = strip_casts(f, mi)
            # marker[] indexed by a row subscript read from a caller-supplied array (rowind)
            if not (mi[0] == "v" and f.inst[mi[1]].op == "load" and any(p and p[0][0] == "A" for p in f.addr_paths(f.inst[mi[1]]))):
                continue
            # destination: an allocation of the routine, or (in a helper) an array handed in by it
            if not all(p and p[0][0] in ("C", "A") for p in f.addr_paths(st)):
                continue
            if any(p and p[0][0] == "A" for p in f.addr_paths(st)) and not f.internal:
                continue
            out.append(st)
        return out

    for name in ("getata", "at_plus_a"):
        f0 = mod.funcs.get(name)
        if f0 is None or not f0.blocks:
            rep.brk("ANALYSIS-BROKEN TRANSPOSE: %s not found" % name)
            continue
        found = False
        for f in reach_static(f0):
            rep.scope([f.name])
            loops = f.loops()
            tsites = tsites_of(f)
            if not tsites:
                continue
            found = True
            troots = set()
            for st in tsites:
                troots |= {p[0] for p in f.addr_paths(st)}
                inl = sorted([(h, b) for h, b in loops if st.bb.id in b], key=lambda hb: len(hb[1]))
                v = strip_casts(f, st.ops[0])
                ok = len(inl) >= 2 and v[0] == "v" and f.inst[v[1]].op == "phi" and any(f.inst[v[1]].bb.id == h for h, b in inl[1:])
                rep.check(ok, "TRANSPOSE", "%s#store@%s" % (f.name, st.ln), "the transposed entry records the column of A",
                          "the value stored into t_rowind[] is not the column variable of the enclosing loop: T is not the transpose of A", st.loc, f.name)
            _transpose_loops(f, loops, troots, rep)
        # the passes of the routine itself over the t_rowind it allocated (when the transposition lives in a helper the array is the one handed to it)
        if found and not tsites_of(f0):
            loops0 = f0.loops()
            troots0 = set()
            for c in f0.calls():
                h = mod.funcs.get(c.callee or "")
                if h is not None and h.internal and tsites_of(h):
                    for st in tsites_of(h):
                        for p in h.addr_paths(st):
                            if p and p[0][0] == "A" and p[0][1] < len(c.ops):
                                troots0 |= {q[0] for q in f0.paths(c.ops[p[0][1]]) if q}
            _transpose_loops(f0, loops0, troots0, rep)
        if not found:
            rep.brk("ANALYSIS-BROKEN TRANSPOSE: transposing store not found in %s (or its static helpers)" % name)


def _transpose_loops(f, loops, troots, rep):
    name = f.name
    if True:
        # (b) loops touching t_rowind are unconditional
        for h, body in loops:
            touch = [x for b in body for x in f.blocks[b].insts if x.op in ("load", "store") and any(p and p[0] in troots for p in f.addr_paths(x))]
            if not touch or any(b2 < body and any(x.bb.id in b2 for x in touch) for h2, b2 in loops):
                continue
            bad = None
            for (a, s) in _cd_closure(f, h):
                t = f.blocks[a].insts[-1]
                if t.op != "br" or not t.ops or t.ops[0][0] != "v":
                    continue
                # a loop bound test: the branch leaves (or stays in) a loop whose header phi it compares
                isloop = False
                for h2, b2 in loops:
                    if a in b2 and not all(x in b2 for x in t.tgt):
                        C = f.inst[t.ops[0][1]]
                        if C.op == "icmp" and any(strip_casts(f, o)[0] == "v" and f.inst[strip_casts(f, o)[1]].op == "phi" and f.inst[strip_casts(f, o)[1]].bb.id == h2 for o in C.ops):
                            isloop = True
                if not isloop:
                    bad = t
            rep.check(bad is None, "TRANSPOSE", "%s#loop@%s" % (name, f.blocks[h].insts[-1].ln), "the pass over T is unconditional",
                      "a pass over t_rowind[] is executed only under a condition that is not a loop bound (%s): part of A' can be left out of the structure handed to the ordering "
                      "and the symbolic routines" % (bad.loc if bad else ""), bad.loc if bad else f.file, f.name)


# ---------------------------------------------------------------------------------------------------------------------------------
# ALIGN-DIR (C05 C14): the alignment fix-up moves a block inside what was just allocated
# ---------------------------------------------------------------------------------------------------------------------------------
_TSZ = {"double": 8, "float": 4, "i8": 1, "i16": 2, "i32": 4, "i64": 8}


def _elem_size(ty):
    b = (ty or "").rstrip("*")
    if (ty or "").count("*") > 1:
        return 8
    if b in _TSZ:
        return _TSZ[b]
    if "doublecomplex" in b:
        return 16
    if "complex" in b:
        return 8
    return None


def rule_align_dir(mod, rep):
    rep.rule("ALIGN-DIR", "user work space: a block obtained from ?user_malloc(bytes, HEAD) grows upwards from the returned address, one obtained with TAIL ends where the "
             "previous tail block begins; when the address is not 8-byte aligned the fix-up must move it into the block's own slack - up (by < 8 bytes) at the head, down "
             "(by < 8 bytes) at the tail. The pointer arithmetic of each fix-up (the expression containing `& ~7`) is evaluated for the seven misaligned residues: the result is "
             "aligned and lies within 8 bytes on the correct side of the original address", floor=8)
    n = 0
    for f in mod.funcs.values():
        if not f.blocks:
            continue
        um = [c for c in f.calls() if (c.callee or "")[1:] == "user_malloc" and (c.callee or "")[:1] in "sdcz"]
        if not um:
            continue
        masks = [x for x in f.insts() if x.op == "and" and any(is_const(o, -8) for o in x.ops)]
        if not masks:
            continue

        def base_of(o, blk_pos):
            """('call', inst) or ('cell', addr operand) the pointer comes from"""
            o = strip_casts(f, o)
            if o[0] == "v":
                x = f.inst[o[1]]
                if x.op == "call":
                    return ("call", x)
                if x.op == "load":
                    return ("cell", tuple(strip_casts(f, x.ops[0])))
            return None

        def ev(o, p, at, depth=0):
            """concrete value of operand o when the base pointer has address p; `at` = instruction where the value is used (for store forwarding)"""
            if depth > 30:
                return None
            if o[0] == "c":
                return o[1]
            if o[0] != "v":
                return None
            x = f.inst[o[1]]
            if x.op in ("ptrtoint", "inttoptr", "bitcast", "sext", "zext", "trunc"):
                return ev(x.ops[0], p, x, depth + 1)
            if x.op in ("add", "sub", "and", "or", "mul"):
                a = ev(x.ops[0], p, x, depth + 1); b = ev(x.ops[1], p, x, depth + 1)
                if a is None or b is None:
                    return None
                return {"add": a + b, "sub": a - b, "and": a & b, "or": a | b, "mul": a * b}[x.op]
            if x.op == "getelementptr" and x.gep and all(g.get("k") == "idx" and g["v"][0] == "c" for g in x.gep) and len(x.gep) == 1:
                a = ev(x.ops[0], p, x, depth + 1); es = _elem_size(x.ty)
                if a is None or es is None:
                    return None
                return a + x.gep[0]["v"][1] * es
            if x.op == "call":
                return p if (x.callee or "")[1:] == "user_malloc" else None
            if x.op == "load":
                # forward the latest store to the same cell in the same block; the first read of the cell is the base pointer
                cell = strip_casts(f, x.ops[0])
                prev = None
                for y in x.bb.insts[:x.pos]:
                    if y.op == "store" and strip_casts(f, y.ops[1]) == cell:
                        prev = y
                    elif y.op == "call" and not (y.callee or "").startswith("llvm."):
                        prev = None if prev is None else prev
                if prev is not None:
                    return ev(prev.ops[0], p, prev, depth + 1)
                return p
            return None

        for m in masks:
            # the final value of the fix-up: last store of an expression containing the mask into a cell in this block, or the mask's pointer value itself
            blk = m.bb
            finals = []
            for y in blk.insts:
                if y.op == "store" and f.is_ptr(y.ops[0]):
                    if any(z.i == m.i for z in expr_insts(f, y.ops[0])) or (finals and strip_casts(f, y.ops[1]) == strip_casts(f, finals[-1].ops[1])):
                        finals.append(y)
            if finals:
                cellop = strip_casts(f, finals[-1].ops[1])
                last = [y for y in finals if strip_casts(f, y.ops[1]) == cellop][-1]
                val = last.ops[0]; site = last
                # direction: the ?user_malloc whose result was stored into this cell
                src = [c for c in um if any(s.op == "store" and strip_casts(f, s.ops[1]) == cellop and any(z.i == c.i for z in expr_insts(f, s.ops[0])) for s in f.insts())]
            else:
                ip = [x for x in blk.insts if x.op == "inttoptr" and strip_casts(f, x.ops[0]) == ["v", m.i]]
                if not ip:
                    continue
                cur = ip[0]
                moved = True
                while moved:
                    moved = False
                    for x in blk.insts:
                        if x.pos > cur.pos and x.op in ("bitcast", "getelementptr") and x.ops[0] == ["v", cur.i] and \
                                (x.op == "bitcast" or (x.gep and all(g_.get("k") == "idx" and g_["v"][0] == "c" for g_ in x.gep))):
                            cur = x; moved = True; break
                val = ["v", cur.i]; site = cur
                src = [c for c in um if any(z.i == c.i for z in expr_insts(f, val))]
            if len(src) != 1 or src[0].ops[1][0] != "c":
                rep.note("ALIGN-DIR: fix-up at %s: origin of the pointer not identified" % m.loc)
                continue
            tail = src[0].ops[1][1] != 0
            n += 1
            res = []
            for r in range(1, 8):
                p = 4096 + r
                res.append((p, ev(val, p, site)))
            if any(v is None for p, v in res):
                rep.check(False, "ALIGN-DIR", "%s#fixup@%s" % (f.name, m.ln), "", "the alignment fix-up could not be evaluated", m.loc, f.name)
                continue
            if tail:
                ok = all(v % 8 == 0 and p - 8 < v <= p for p, v in res)
            else:
                ok = all(v % 8 == 0 and p <= v < p + 8 for p, v in res)
            rep.scope([f.name])
            rep.check(ok, "ALIGN-DIR", "%s#fixup@%s" % (f.name, m.ln), "the %s block is realigned %s within 8 bytes" % ("tail" if tail else "head", "downwards" if tail else "upwards"),
                      "the alignment fix-up of a %s allocation moves the block %s (e.g. %d -> %d): it now overlaps the neighbouring block by up to 7 bytes" % (
                          "TAIL" if tail else "HEAD", "upwards, into the block above" if tail else "downwards, into the block below", res[3][0], res[3][1]), m.loc, f.name)
    if n == 0:
        rep.brk("ANALYSIS-BROKEN ALIGN-DIR: no alignment fix-up found")


# ---------------------------------------------------------------------------------------------------------------------------------
# INFO-INIT (C18 C15): the status output is written before it is read
# ---------------------------------------------------------------------------------------------------------------------------------
def rule_info_init(mod, rep, floor=40):
    rep.rule("INFO-INIT", "every routine with an output parameter `int *info`: no read of *info (by the routine itself, or by a library routine it hands the pointer to that "
             "reads it first) is reachable from the entry without a preceding write of *info - the value the caller left in the variable (the status of an earlier, "
             "possibly failed, call) never influences this call", floor=floor)
    # callees that read *param before writing it (fixpoint over the call graph, by parameter index)
    reads_first = {}
    must_write = {}
    def own_first_reads(f, k, use_callees):
        cellp = (("A", k),)
        def is_w(x):
            if x.op == "store" and f.addr_paths(x) == frozenset([cellp]):
                return True
            if x.op == "call" and (x.callee or "") in mod.funcs:
                for j, o in enumerate(x.ops):
                    if strip_casts(f, o) == ["a", k] and must_write.get((x.callee, j)):
                        return True
            return False
        r = f.reach([f.entry()], stop=is_w, include_start=True)
        out = []
        for i in r:
            x = f.inst[i]
            if x.op == "load" and cellp in f.addr_paths(x):
                out.append(x)
            elif use_callees and x.op == "call" and (x.callee or "") in mod.funcs:
                for j, o in enumerate(x.ops):
                    if strip_casts(f, o) == ["a", k] and (x.callee, j) in reads_first:
                        out.append(x)
        return out
    cands = [(f, f.pindex("info")) for f in mod.funcs.values() if f.blocks and f.pindex("info") is not None and (f.params[f.pindex("info")].get("ty") or "").endswith("*")]
    # input-only status parameters (xerbla_ receives the position of the offending argument through `info`)
    cands = [(f, k) for f, k in cands if any(x.op == "store" and (("A", k),) in f.addr_paths(x) for x in f.insts())
             or any(x.op == "call" and any(strip_casts(f, o) == ["a", k] for o in x.ops) and (x.callee or "") in mod.funcs for x in f.insts())]
    # callees that write *info on every path to their return (least fixpoint)
    for rnd in range(4):
        changed = False
        for f, k in cands:
            if must_write.get((f.name, k)):
                continue
            cellp = (("A", k),)
            def is_w2(x, f=f, k=k, cellp=cellp):
                if x.op == "store" and f.addr_paths(x) == frozenset([cellp]):
                    return True
                if x.op == "call" and (x.callee or "") in mod.funcs:
                    return any(strip_casts(f, o) == ["a", k] and must_write.get((x.callee, j)) for j, o in enumerate(x.ops))
                return False
            r = f.reach([f.entry()], stop=is_w2, include_start=True)
            if not any(f.inst[i].op == "ret" and not is_w2(f.inst[i]) for i in r):
                must_write[(f.name, k)] = True; changed = True
        if not changed:
            break
    reads_first = {}
    for rnd in range(4):
        changed = False
        for f, k in cands:
            if (f.name, k) in reads_first:
                continue
            if own_first_reads(f, k, True):
                reads_first[(f.name, k)] = True; changed = True
        if not changed:
            break
    for f, k in cands:
        bad = own_first_reads(f, k, True)
        rep.scope([f.name])
        rep.check(not bad, "INFO-INIT", "%s#info" % f.name, "*info is written before any read",
                  "*info is read (%s) on a path from the entry on which it has not been written: a non-zero status left by an earlier call changes what this call does"
                  % (bad[0].loc if bad else ""), bad[0].loc if bad else f.file, f.name)


# ---------------------------------------------------------------------------------------------------------------------------------
# SCHED-BUSY (C04 C09): a panel is handed out only from a not-yet-started state
# ---------------------------------------------------------------------------------------------------------------------------------
def rule_sched_busy(mod, rep):
    e = mod.enums
    rep.rule("SCHED-BUSY", "pxgstrf_scheduler: every assignment pan_status[j].state := BUSY (the panel is handed to the calling thread) is control dependent on a comparison of "
             "pan_status[j].state with an enumerator which, evaluated on all five states for the edge that leads to the assignment, admits neither DONE nor BUSY - a stale "
             "queue entry of a panel that was taken directly by its last child is skipped, not factored a second time", floor=3)
    f = mod.funcs.get("pxgstrf_scheduler")
    if f is None:
        rep.brk("ANALYSIS-BROKEN SCHED-BUSY: pxgstrf_scheduler not found")
        return
    rep.scope([f.name])
    names = ["DONE", "BUSY", "CANGO", "CANPIPE", "UNREADY"]
    vals = {n: e[n] for n in names if n in e}
    from .ext import _owned_helpers
    helpers = {h.name: h for (h, c, g) in _owned_helpers(mod, f)}

    def guards_of(g, bid):
        out = []
        for (a, s) in _cd_closure(g, bid):
            t = g.blocks[a].insts[-1]
            if t.op != "br" or not t.ops or t.ops[0][0] != "v" or len(t.tgt) != 2:
                continue
            C = g.inst[t.ops[0][1]]
            if C.op != "icmp" or C.pred not in _PRED:
                continue
            ops = [strip_casts(g, o) for o in C.ops]
            for k in (0, 1):
                if ops[1 - k][0] == "c" and ops[k][0] == "v" and g.inst[ops[k][1]].op == "load" and addr_has_field(g, g.inst[ops[k][1]], "state", "pan_status_t"):
                    K = ops[1 - k][1]
                    truth = (s == t.tgt[0])
                    out.append(sorted(nm for nm, v in vals.items() if (_PRED[C.pred](v, K) if k == 0 else _PRED[C.pred](K, v)) == truth))
        return out

    def leaves_of(g, o0, frm0):
        """[(function, leaf operand, guards)]: the non-constant values o0 can take, each with the state tests passed on the way"""
        out = []; seen = set(); work = [(strip_casts(g, o0), frm0)]
        while work:
            o, frm = work.pop()
            if o[0] == "v" and g.inst[o[1]].op == "phi":
                if o[1] in seen:
                    continue
                seen.add(o[1])
                for z, pb in zip(g.inst[o[1]].ops, g.inst[o[1]].inb):
                    work.append((strip_casts(g, z), frm + (pb,)))
            elif o[0] == "v" and g.inst[o[1]].op == "call" and (g.inst[o[1]].callee or "") in helpers:
                h = helpers[g.inst[o[1]].callee]
                gs0 = [x for b_ in frm for x in guards_of(g, b_)]
                for r in h.insts():
                    if r.op == "ret" and r.ops:
                        for (hh, lo, gs) in leaves_of(h, r.ops[0], (r.bb.id,)):
                            out.append((hh, lo, gs + gs0))
            elif o[0] not in ("c", "undef"):
                out.append((g, o, [x for b_ in frm for x in guards_of(g, b_)]))
        return out

    n = 0
    for st in f.insts():
        if st.op != "store" or not is_const(st.ops[0], vals.get("BUSY", 1)) or not addr_has_field(f, st, "state", "pan_status_t"):
            continue
        a0 = strip_casts(f, st.ops[1])
        idx = None
        for _ in range(3):
            if a0[0] != "v" or f.inst[a0[1]].op != "getelementptr":
                break
            gi = gep_index(f, a0)
            if gi is not None and strip_casts(f, gi)[0] != "c":
                idx = gi; break
            a0 = strip_casts(f, f.inst[a0[1]].ops[0])
        if idx is None:
            continue
        for g, o, gs in leaves_of(f, idx, (st.bb.id,)):
            n += 1
            ok = any(set(adm) <= {"CANGO", "CANPIPE", "UNREADY"} for adm in gs)
            site = g.inst[o[1]].loc if o[0] == "v" else st.loc
            rep.check(ok, "SCHED-BUSY", "%s#hand-out@%s" % (g.name, g.inst[o[1]].ln if o[0] == "v" else st.ln), "handed out only from a not-yet-started state (%s)" % gs,
                      "a panel obtained at %s is marked BUSY and handed out under state tests that admit %s: a panel that is already DONE or BUSY can be factored twice" %
                      (site, gs if gs else "any state (no test of its state)"), site, f.name)
    if n == 0:
        rep.brk("ANALYSIS-BROKEN SCHED-BUSY: no state := BUSY assignment in pxgstrf_scheduler")


# ---------------------------------------------------------------------------------------------------------------------------------
# SUPNO-DONE (C09 C03): mark_busy_descends reads supno[] of a finished column only
# ---------------------------------------------------------------------------------------------------------------------------------
def rule_supno_done(mod, rep):
    from .layout import pfmt
    rep.rule("SUPNO-DONE", "pxgstrf_mark_busy_descends: the farthest busy column bcol is still being factored by another thread, its supno[] entry is not published yet; the "
             "routine reads Glu->supno[] only at bcol - 1 (a finished column) and pessimistically marks that supernode busy", floor=1)
    f = mod.funcs.get("pxgstrf_mark_busy_descends")
    if f is None:
        rep.brk("ANALYSIS-BROKEN SUPNO-DONE: pxgstrf_mark_busy_descends not found")
        return
    rep.scope([f.name])
    P = _Poly(f)
    n = 0
    for L in f.insts():
        if L.op != "load" or not any(p and len(p) >= 2 and any(seg[0] == "f" and seg[2] == "supno" for seg in p) and p[-1] == ("i",) for p in f.addr_paths(L)):
            continue
        idx = gep_index(f, L.ops[0])
        if idx is None:
            continue
        n += 1
        poly = P.of(idx)
        ok = poly.get((), 0) == -1 and len([k for k in poly if k]) == 1
        rep.check(ok, "SUPNO-DONE", "pxgstrf_mark_busy_descends#supno@%s" % L.ln, "supno[] is read at %s" % pfmt(poly),
                  "supno[] is read at index %s: the entry of the busy column itself is written concurrently by the thread that factors it (the decision taken from it can be "
                  "invalidated after the snapshot of busy columns was made)" % pfmt(poly), L.loc, f.name)
    if n == 0:
        rep.brk("ANALYSIS-BROKEN SUPNO-DONE: no read of supno[] in pxgstrf_mark_busy_descends")


# ---------------------------------------------------------------------------------------------------------------------------------
# AWAIT-PURE (C04): the spin-wait returns only when the flag is clear, and does nothing else
# ---------------------------------------------------------------------------------------------------------------------------------
def rule_await_pure(mod, rep):
    rep.rule("AWAIT-PURE", "await(): the only way out of the function is the return that follows a read of *status yielding 0 - no call of a non-returning routine "
             "(abort / exit on a poll limit turns a slow or descheduled owner into a crash of the whole factorization), and every exit of its loop is decided by the "
             "loaded flag alone", floor=1)
    f = mod.funcs.get("await")
    if f is None or not f.blocks:
        rep.brk("ANALYSIS-BROKEN AWAIT-PURE: await() not found")
        return
    rep.scope([f.name])
    ks = 0
    bad = []
    for c in f.calls():
        cal = c.callee or ""
        if cal.startswith("llvm."):
            continue
        if cal in mod.noreturn or cal in ("exit", "abort", "superlu_abort_and_exit", "pthread_exit", "_exit"):
            bad.append((c, "calls %s()" % cal))
        elif cal in mod.funcs:
            # a callee that may not return
            if any(x.op == "call" and ((x.callee or "") in mod.noreturn) for x in mod.funcs[cal].insts()):
                bad.append((c, "calls %s(), which can terminate the process" % cal))
    for h, body in f.loops():
        for b in body:
            t = f.blocks[b].insts[-1]
            if t.op == "br" and t.ops and t.ops[0][0] == "v" and not all(x in body for x in t.tgt):
                lds = expr_loads(f, t.ops[0])
                if not lds or not all(any(p and p[0] == ("A", ks) for p in f.addr_paths(l)) for l in lds) or \
                        any(x.op == "phi" for x in expr_insts(f, t.ops[0])):
                    bad.append((t, "a loop exit that does not depend on *status alone"))
    if not f.loops():
        bad.append((f.entry(), "no wait loop"))
    rep.check(not bad, "AWAIT-PURE", "await#exits", "returns only after *status == 0",
              "await() %s (%s): the wait is no longer a pure wait on the owner's release" % (bad[0][1] if bad else "", bad[0][0].loc if bad else ""), bad[0][0].loc if bad else f.file, f.name)


# ---------------------------------------------------------------------------------------------------------------------------------
# PRINCIPAL-WALK (C10): COLAMD's order_children climbs to the principal ancestor
# ---------------------------------------------------------------------------------------------------------------------------------
def rule_principal_walk(mod, rep):
    rep.rule("PRINCIPAL-WALK", "colamd.c order_children(): the loop that climbs parent = Col[parent].shared1.parent stops at the first DEAD_PRINCIPAL (-1) column and continues "
             "through dead non-principal (-2) ones - the exit test on Col[parent].start, evaluated at -2 and -1", floor=1)
    f = mod.funcs.get("order_children")
    if f is None or not f.blocks:
        rep.brk("ANALYSIS-BROKEN PRINCIPAL-WALK: order_children not found")
        return
    rep.scope([f.name])
    n = 0
    for h, body in f.loops():
        if any(x.op in ("store", "call") and not (x.callee or "").startswith("llvm.") for b in body for x in f.blocks[b].insts if x.op != "call" or x.callee):
            continue
        for b in sorted(body):
            t = f.blocks[b].insts[-1]
            if t.op != "br" or not t.ops or t.ops[0][0] != "v" or all(x in body for x in t.tgt):
                continue
            C = f.inst[t.ops[0][1]]
            neg = False
            while C.op == "xor":
                nx = [z for z in C.ops if z[0] == "v"]
                if not nx:
                    break
                C = f.inst[nx[0][1]]; neg = not neg
            if C.op != "icmp" or C.pred not in _PRED:
                continue
            ops = [strip_casts(f, o) for o in C.ops]
            for k in (0, 1):
                if ops[1 - k][0] == "c" and ops[k][0] == "v" and f.inst[ops[k][1]].op == "load" and \
                        any(any(seg[0] == "f" and seg[2] == "start" for seg in p) for p in f.addr_paths(f.inst[ops[k][1]])):
                    K = ops[1 - k][1]
                    def stay(v):
                        tv = _PRED[C.pred](v, K) if k == 0 else _PRED[C.pred](K, v)
                        tv = tv != neg
                        return (t.tgt[0] in body) if tv else (t.tgt[1] in body)
                    n += 1
                    ok = stay(-2) and not stay(-1)
                    rep.check(ok, "PRINCIPAL-WALK", "order_children#climb@%s" % C.ln, "continues at DEAD_NON_PRINCIPAL, stops at DEAD_PRINCIPAL",
                              "the climb to the principal ancestor %s: columns absorbed through a chain of non-principal parents are ordered under the wrong column and the "
                              "permutation is no longer a bijection" % ("stops at a dead non-principal column" if not stay(-2) else "does not stop at the principal column"), C.loc, f.name)
    if n == 0:
        rep.brk("ANALYSIS-BROKEN PRINCIPAL-WALK: the climbing loop of order_children was not found")
