"""C10/C16/C08: sp_colorder decision table (B.6), binding of AC to A, get_perm_c must-write, effect rules on A."""
import itertools, re
from ..util import *
from ..ir import fmt_path, strip_casts, expr_insts
from ..absint import TOP, Partition, Interp, value_roots
from .. import effects


class ColPart(Partition):
    def __init__(self, mod, f, refact, sym):
        Partition.__init__(self, refact=refact, SymmetricMode=sym)
        e = mod.enums
        ko = f.pindex("options")
        self.cells[(("A", ko), ("f", "superlumt_options_t", "refact"))] = ("c", e[refact])
        self.cells[(("A", ko), ("f", "superlumt_options_t", "SymmetricMode"))] = ("c", e[sym])


def _n(s):
    return re.sub(r"\$w\d+:", "$w:", re.sub(r"#\d+", "", re.sub(r"&local\d+", "&local", s))) if isinstance(s, str) else s


def rule_colorder_table(mod, rep):
    rep.rule("COLORDER", "sp_colorder over refact x SymmetricMode: AC always binds (not copies) A's nzval/rowind and gets its own colbeg/colend; refact=YES does nothing else "
             "(no store to perm_c, options->etree/colcnt_h/part_super_h, no etree/postorder/count call); refact=NO uses {at_plus_a, sp_symetree, cholnzcnt on the A+A' "
             "arrays} in symmetric mode and {sp_coletree, qrnzcnt} otherwise, then TreePostorder and perm_c := post o perm_c", floor=4)
    f = mod.funcs.get("sp_colorder")
    if f is None:
        rep.brk("ANALYSIS-BROKEN COLORDER: sp_colorder not found")
        return
    rep.scope([f.name])
    rep.exhaustive = True
    kA = f.pindex("A"); kpc = f.pindex("perm_c"); ko = f.pindex("options"); kAC = f.pindex("AC")
    atoms = {"at_plus_a": {"name": "at_plus_a", "args": [("path", 2), ("path", 3), ("path", 5), ("path", 6)]},
             "sp_symetree": {"name": "symetree", "args": [("path", 2)]},
             "sp_coletree": {"name": "coletree", "args": [("path", 2)]},
             "TreePostorder": {"name": "postorder", "args": []},
             "cholnzcnt": {"name": "cholnzcnt", "args": [("path", 1), ("path", 2)]},
             "qrnzcnt": {"name": "qrnzcnt", "args": [("path", 2), ("path", 3)]}}

    def pred_pc(it, ins, path, v):
        if path and path[0] == ("A", kpc):
            return ()

    def pred_opt(it, ins, path, v):
        if path and path[0] == ("A", ko) and len(path) >= 2 and path[1][0] == "f" and path[1][2] in ("etree", "colcnt_h", "part_super_h"):
            return (path[1][2],)

    def pred_A(it, ins, path, v):
        if path and path[0] == ("A", kA) and len(path) > 1:
            return (fmt_path(path, f),)

    def pred_bind(it, ins, path, v):
        # stores into the NCPformat hanging off AC: field := value
        if path and path[-1][0] == "f" and path[-1][1] == "NCPformat":
            return (path[-1][2], _n(it._show(v)))
    e = mod.enums
    for refact, sym in itertools.product(("NO", "YES"), ("NO", "YES")):
        part = ColPart(mod, f, refact, sym)
        it = Interp(mod, f, part, atoms=atoms, store_atoms=[("perm_c:=", pred_pc), ("opt:=", pred_opt), ("A-store", pred_A), ("AC.", pred_bind)])
        it.run()
        got = set(tuple(_n(x) for x in a) for a in it.atoms if a[0] != "ret")
        exp = set()
        exp.add(("AC.", "nzval", "A.Store^.nzval^")); exp.add(("AC.", "rowind", "A.Store^.rowind^")); exp.add(("AC.", "nnz", "A.Store^.nnz^"))
        exp.add(("AC.", "colbeg", "intMalloc()")); exp.add(("AC.", "colend", "intMalloc()"))
        if refact == "NO":
            exp.add(("postorder",)); exp.add(("perm_c:=",)); exp.add(("opt:=", "etree"))
            if sym == "YES":
                ap = [a for a in got if a[0] == "at_plus_a"]
                exp.add(("at_plus_a", "A.Store^.colptr^", "A.Store^.rowind^") + (tuple(ap[0][3:]) if ap else ("?", "?")))
                if ap:
                    exp.add(("symetree", "$w:" + ap[0][4]))
                    exp.add(("cholnzcnt", "$w:" + ap[0][3], "$w:" + ap[0][4]))
                else:
                    exp.add(("symetree", "?")); exp.add(("cholnzcnt", "?", "?"))
            else:
                exp.add(("coletree", "A.Store^.rowind^"))
                exp.add(("qrnzcnt", "A.Store^.colptr^", "A.Store^.rowind^"))
        key = "sp_colorder#refact=%s,SymmetricMode=%s" % (refact, sym)
        # options->colcnt_h / part_super_h are written by the count routines (callee effect), etree directly
        miss = sorted(exp - got, key=repr); extra = sorted(got - exp, key=repr)
        sites = [i.loc for i, a in it.events if tuple(_n(x) for x in a) in (got - exp)]
        rep.check(not miss and not extra, "COLORDER", key, "atoms agree with the model (%d)" % len(got),
                  "preprocessing deviates from the documented contract: missing %s; unexpected %s" % (miss, extra), sites[0] if sites else f.file, f.name)
    # perm_c := post o perm_c  (origin)
    ok = False
    for s in f.insts():
        if s.op == "store" and (("A", kpc), ("i",)) in f.addr_paths(s):
            v = strip_casts(f, s.ops[0])
            if v[0] == "v" and f.inst[v[1]].op == "load":
                src = f.addr_paths(f.inst[v[1]])   # iwork[]
                wr = [t for t in f.insts() if t.op == "store" and f.addr_paths(t) == src]
                for t in wr:
                    # t is the last writer of the temporary before s: s reachable from t, no other writer in between
                    between = f.reach([t], stop=lambda x: x.i == s.i)
                    if s.i not in between or any(u.i in between and u is not t and s.i in f.reach([u], stop=lambda x: x.i == t.i) for u in wr):
                        continue
                    if True:
                        tv = strip_casts(f, t.ops[0])
                        if tv[0] == "v" and f.inst[tv[1]].op == "load":
                            L = f.inst[tv[1]]
                            inner = gep_index(f, L.ops[0])
                            from_post = any(p[0][0] == "C" and p[0][1] == "TreePostorder" for p in f.addr_paths(L))
                            if from_post and inner is not None and inner[0] == "v" and f.inst[inner[1]].op == "load" and (("A", kpc), ("i",)) in f.addr_paths(f.inst[inner[1]]):
                                ok = True
    rep.check(ok, "COLORDER", "sp_colorder#perm_c-origin", "perm_c[i] := post[perm_c[i]] (composition with the postorder)",
              "the caller's ordering is not overwritten by post[perm_c[i]] (perm_c would no longer be the caller's ordering composed with a postorder)", f.file, f.name)


def rule_get_perm_c_mustwrite(mod, rep):
    rep.rule("PERMC-W", "get_perm_c writes perm_c[] (directly or through genmmd_/get_colamd, by effect summary) on every path to return", floor=1)
    f = mod.funcs.get("get_perm_c")
    if f is None:
        rep.brk("ANALYSIS-BROKEN PERMC-W: get_perm_c not found")
        return
    rep.scope([f.name])
    E = effects.get(mod)
    kp = f.pindex("perm_c")
    writers = []
    for i in f.insts():
        if i.op == "store" and any(p[0] == ("A", kp) for p in f.addr_paths(i)):
            writers.append(i)
        elif i.op == "call" and i.callee in mod.funcs:
            for w in E.W[i.callee]:
                if w[0] == "A" and w[1] < len(i.ops) and any(p[0] == ("A", kp) for p in f.paths(i.ops[w[1]])):
                    writers.append(i)
                    break
    heads = set()
    for h, body in f.loops():
        if any(w.bb.id in body for w in writers):
            heads.add(f.blocks[h].insts[0].i)     # a loop over 0..n-1 that writes perm_c[i]: zero trips only for n == 0
    r = f.reach([f.entry()], stop=lambda x: x in writers or x.i in heads, include_start=True)
    leak = [f.inst[x] for x in r if f.inst[x].op == "ret"]
    rep.check(bool(writers) and not leak, "PERMC-W", "get_perm_c#writes-perm_c", "perm_c is written on every path (%d writer sites)" % len(writers),
              "get_perm_c can return without writing perm_c (the caller receives an uninitialised 'permutation')", leak[0].loc if leak else f.file, f.name)


def rule_A_immutable(mod, rep, roots):
    """EFF: no function under the given entry points writes through A's value/index/pointer arrays"""
    rep.rule("A-IMMUT", "effect summaries (bottom-up, parameter-rooted may-write sets over the call graph): %s never store through the SuperMatrix A they are given "
             "(header, Store, nzval/rowind/colptr or colind/rowptr), p?gstrf never stores through AC's bound arrays (nzval, rowind) nor its colbeg/colend, and no worker "
             "function stores through pxgstrf_shared->A" % ", ".join(roots), floor=8)
    E = effects.get(mod)
    for pat in roots:
        for prec, f in fam(mod, pat) if "?" in pat else ([("", mod.funcs[pat])] if pat in mod.funcs else []):
            rep.scope([f.name])
            kA = f.pindex("A")
            if kA is None:
                kA = f.pindex("AA")
            bad = [w for w in E.W[f.name] if w[0] == "A" and w[1] == kA]
            if pat in ("p?gssvx",):
                # the expert driver may scale A in place (documented: equilibration) - only through ?laqgs
                bad = []
            rep.check(not bad, "A-IMMUT", "%s#A" % f.name, "no may-write effect rooted at A", "A may be written: %s" % sorted(E.fmt(f, w) for w in bad)[:6], f.file, f.name)
    for prec, f in fam(mod, "p?gstrf_thread"):
        bad = [w for w in E.W[f.name] if w[0] == "A" and any(s[0] == "f" and s[1].startswith("pxgstrf_shared_t") and s[2] == "A" for s in w[2])]
        rep.check(not bad, "A-IMMUT", "%s#shared.A" % f.name, "no worker function stores through pxgstrf_shared->A",
                  "a worker function stores through pxgstrf_shared->A: %s" % sorted(E.fmt(f, w) for w in bad)[:6], f.file, f.name)
        rep.scope(mod.transitive_callees([f.name]))
