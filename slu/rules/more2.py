"""Rules added after triage of defects that the bug-author sub-agents met on the pristine tree (round 2)."""
from ..util import *
from ..ir import fmt_path, strip_casts, expr_insts, expr_loads, dead_edges
from .more import _Poly, _PRED


# ---------------------------------------------------------------------------------------------------------------------------------
# STACK-POP (C14): the halving retry of p?gstrf_MemInit pops from the user stack only what the failed attempt pushed
# ---------------------------------------------------------------------------------------------------------------------------------
def rule_stack_pop(mod, rep):
    from .pivot import _cd_closure
    from .layout import pfmt
    rep.rule("STACK-POP", "p?gstrf_MemInit, user work space: every ?user_free(bytes, HEAD) in the retry loop releases one array (bytes = count * word size) and is executed only "
             "when the pointer returned for that array by p?gstrf_expand is non-NULL - a failed ?user_malloc pushed nothing, so popping its size moves the stack top below "
             "the arrays that stay allocated (lusup, the integer pointer arrays)", floor=4)
    for prec, f in fam(mod, "p?gstrf_MemInit"):
        rep.scope([f.name])
        loops = f.loops()
        P = _Poly(f)
        exp = [c for c in f.calls("p%sgstrf_expand" % prec)]
        exp_ids = {c.i for c in exp}
        n = 0
        for c in f.calls("%suser_free" % prec):
            inl = [h for h, body in loops if c.bb.id in body]
            if not inl:
                continue
            n += 1
            poly = P.of(c.ops[0])
            nterms = len([k for k in poly if k])
            guards = set()
            for (a, s) in _cd_closure(f, c.bb.id):
                t = f.blocks[a].insts[-1]
                if t.op != "br" or not t.ops or t.ops[0][0] != "v":
                    continue
                C = f.inst[t.ops[0][1]]
                if C.op != "icmp" or C.pred not in ("eq", "ne"):
                    continue
                ops = [strip_casts(f, o) for o in C.ops]
                for k in (0, 1):
                    if ops[1 - k][0] in ("null",) or is_const(ops[1 - k], 0):
                        srcs = _ptr_sources(f, ops[k])
                        if srcs & exp_ids:
                            succ = [b.id for b in f.blocks[a].succ]
                            nonnull_edge = succ[0] if C.pred == "ne" else succ[1]
                            if s == nonnull_edge:
                                guards |= (srcs & exp_ids)
            # the popped count is the variable the guarded array was sized with: p?gstrf_expand(&count, ...) <-> load of the same cell in `bytes`
            same_count = True
            if nterms == 1 and guards:
                cnt_cells = set()
                for L in expr_loads(f, c.ops[0]):
                    cnt_cells |= set(f.addr_paths(L))
                exp_cells = set()
                for gi in guards:
                    exp_cells |= set(f.paths(f.inst[gi].ops[0]))
                same_count = bool(cnt_cells & exp_cells)
            ok = nterms == 1 and bool(guards) and same_count
            rep.check(ok, "STACK-POP", "%s#user_free@%d" % (f.name, n), "pops %s under a non-NULL test of the array it belongs to" % pfmt(poly),
                      "?user_free(%s) in the retry loop %s: the sizes of arrays whose allocation failed are popped too" %
                      (pfmt(poly), "is not guarded by a non-NULL test of an expand() result" if not guards else ("releases %d arrays at once" % nterms if nterms != 1 else "pops the size of another array than the one whose pointer is tested")), c.loc, f.name)
        if n == 0:
            # mark / rewind form: the retry loop restores stack.top1 / stack.used from values saved earlier.  The saved position has to be the one the retry starts
            # from: no allocation that is kept (a p?gstrf_expand / ?user_malloc call outside the loop) may lie between the mark and the loop.
            allocs = {c.i for c in exp} | {c.i for c in f.calls("%suser_malloc" % prec)}
            for h, body in loops:
                for b in body:
                    for st in f.blocks[b].insts:
                        if st.op != "store" or not any(addr_is_field_cell(f, st, x, "LU_stack_t") for x in ("top1", "used")):
                            continue
                        # the saved value may arrive through phis (initialised to 0 on the system-memory path)
                        leaves = []; seen = set(); work = [st.ops[0]]
                        while work:
                            v = strip_casts(f, work.pop())
                            if v[0] != "v" or v[1] in seen:
                                continue
                            seen.add(v[1])
                            if f.inst[v[1]].op == "phi":
                                work += list(f.inst[v[1]].ops)
                            elif f.inst[v[1]].op == "load":
                                leaves.append(f.inst[v[1]])
                        marks = [l for l in leaves if l.bb.id not in body and any(addr_is_field_cell(f, l, x, "LU_stack_t") for x in ("top1", "used"))]
                        if not marks:
                            continue
                        mark = marks[0]
                        n += 1
                        hdr = f.blocks[h].insts[0]
                        between = f.reach([mark], stop=lambda x: x.bb.id in body)
                        # allocations made before the loop and made again inside it (their pointer enters a phi of the loop header) belong to the attempt
                        redone = set()
                        for ph in f.blocks[h].insts:
                            if ph.op == "phi":
                                for o, pb in zip(ph.ops, ph.inb):
                                    if pb not in body:
                                        redone |= _ptr_sources(f, o)
                        kept = [i for i in between if i in allocs and f.inst[i].bb.id not in body and i not in redone]
                        rep.check(not kept, "STACK-POP", "%s#rewind@%d" % (f.name, n), "the retry loop rewinds to a mark taken after the last allocation that is kept",
                                  "the retry loop rewinds the user stack to a mark taken at %s, but an allocation that stays in use (%s) is made after the mark: the next attempt "
                                  "is carved out of memory that array occupies" % (mark.loc, f.inst[kept[0]].loc if kept else ""), st.loc, f.name)
        if n == 0:
            rep.brk("ANALYSIS-BROKEN STACK-POP: no ?user_free call and no rewind inside a loop of %s" % f.name)


def _ptr_sources(f, o, depth=0, seen=None):
    """call instructions a pointer value may come from (through casts and phis)"""
    seen = seen if seen is not None else set()
    o = strip_casts(f, o)
    if o[0] != "v" or o[1] in seen or depth > 12:
        return set()
    seen.add(o[1])
    x = f.inst[o[1]]
    if x.op == "call":
        return {x.i}
    if x.op == "phi":
        out = set()
        for z in x.ops:
            out |= _ptr_sources(f, z, depth + 1, seen)
        return out
    return set()


# ---------------------------------------------------------------------------------------------------------------------------------
# SLOT-BOUND (C05): every lusup[] slot is sized from the a-priori (QR / Householder) column counts
# ---------------------------------------------------------------------------------------------------------------------------------
def _mentions_field(f, o, field, depth=0, seen=None):
    seen = seen if seen is not None else set()
    o = strip_casts(f, o)
    if o[0] != "v" or o[1] in seen or depth > 16:
        return False
    seen.add(o[1])
    x = f.inst[o[1]]
    if x.op == "load":
        return any(any(st[0] == "f" and st[2] == field for st in p if isinstance(st, tuple) and len(st) >= 3) for p in f.addr_paths(x))
    if x.op in ("add", "sub", "mul", "phi", "select", "shl"):
        return any(_mentions_field(f, z, field, depth + 1, seen) for z in x.ops)
    return False


def rule_slot_bound(mod, rep):
    rep.rule("SLOT-BOUND", "the number of values reserved in lusup[] for a supernode of H comes from the column counts predicted before the factorization (colcnt_h: the QR bound that "
             "holds for every pivot sequence and every schedule), or from the dense block of a relaxed supernode. A size computed during the factorization from the structure "
             "found so far is not such a bound: with several threads the pipelined algorithm stores supersets of the exact reach sets", floor=5)
    n = 0
    for f in mod.funcs.values():
        for c in f.calls("DynamicSetMap"):
            rep.scope([f.name])
            n += 1
            ok = _mentions_field(f, c.ops[2], "colcnt_h")
            rep.check(ok, "SLOT-BOUND", "%s#DynamicSetMap-num" % f.name, "slot size derived from colcnt_h",
                      "the slot handed to DynamicSetMap is sized by a row count collected by a depth-first search over the part of L that exists at that moment, not by colcnt_h: "
                      "in dynamic supernode storage (SuperLU_DYNAMIC_SNODE_STORE) with > 1 thread supernodes outgrow their slots and overlap", c.loc, f.name)
    for prec, f in fam(mod, "?PresetMap"):
        rep.scope([f.name])
        adds = [x for x in f.insts() if x.op == "add" and any(strip_casts(f, o)[0] == "v" and f.inst[strip_casts(f, o)[1]].op == "mul" and _mentions_field(f, o, "colcnt_h") for o in x.ops)]
        rep.check(bool(adds), "SLOT-BOUND", "%s#static-slot" % f.name, "static slots advance by w * colcnt_h[j] (%d site(s))" % len(adds),
                  "no slot size in %s is a multiple of colcnt_h[]" % f.name, f.file, f.name)


# ---------------------------------------------------------------------------------------------------------------------------------
# DIM-ROW (C10): row indices index arrays sized by the number of rows
# ---------------------------------------------------------------------------------------------------------------------------------
def rule_dim_row(mod, rep):
    rep.rule("DIM-ROW", "sp_colorder hands A's row indices (values < A->nrow) to qrnzcnt together with n = A->ncol only; qrnzcnt indexes arrays it allocates with n (+1) elements by "
             "those row indices (rowcnt[], fnz[], firstset[], and zfdperm[] of the caller). That is in bounds only when nrow <= ncol, so the call has to be dominated by a test "
             "relating A->nrow to A->ncol", floor=2)
    g = mod.funcs.get("qrnzcnt"); f = mod.funcs.get("sp_colorder")
    if g is None or f is None:
        rep.brk("ANALYSIS-BROKEN DIM-ROW: qrnzcnt / sp_colorder not found")
        return
    rep.scope([g.name, f.name])
    ka = g.pindex("adjncy"); kz = g.pindex("zfdperm"); kn = g.pindex("neqns")
    rowvals = set()
    for x in g.insts():
        if x.op == "load" and any(p[0] in (("A", ka), ("A", kz)) for p in g.addr_paths(x)):
            rowvals.add(x.i)
    sized_by_n = {}
    for c in g.insts():
        if c.op == "call" and c.callee in ("intMalloc", "intCalloc"):
            P = _Poly(g).of(c.ops[0])
            if all(k in ((), ("neqns",)) for k in P) and P.get(("neqns",), 0) == 1:
                sized_by_n[c.i] = c
    hits = []
    for x in g.insts():
        if x.op in ("load", "store"):
            a = x.ops[0] if x.op == "load" else x.ops[1]
            idx = gep_index(g, a)
            if idx is None:
                continue
            idx = strip_casts(g, idx)
            if idx[0] == "v" and idx[1] in rowvals:
                for p in g.addr_paths(x):
                    if p[0][0] == "C" and p[0][2] in sized_by_n:
                        hits.append(x)
    rep.check(bool(hits), "DIM-ROW", "qrnzcnt#row-indexed-arrays", "%d accesses index an array of neqns(+1) elements by a row index (the clause below is needed)" % len(hits),
              "qrnzcnt no longer indexes n-sized arrays by row indices (rule needs review)", g.file, g.name)
    # the call site: row indices come from the matrix' rowind, the dimension from ncol; look for a dominating nrow/ncol comparison
    calls = list(f.calls("qrnzcnt"))
    if not calls:
        rep.brk("ANALYSIS-BROKEN DIM-ROW: sp_colorder does not call qrnzcnt")
        return
    for c in calls:
        guarded = False
        for x in f.insts():
            if x.op == "icmp" and f.dominates(x, c):
                flds = set()
                for o in x.ops:
                    for L in expr_loads(f, o):
                        for p in f.addr_paths(L):
                            for st in p:
                                if isinstance(st, tuple) and len(st) >= 3 and st[0] == "f" and st[2] in ("nrow", "ncol"):
                                    flds.add(st[2])
                if flds == {"nrow", "ncol"}:
                    guarded = True
        rep.check(guarded, "DIM-ROW", "sp_colorder#qrnzcnt-row-dimension", "call dominated by a comparison of A->nrow with A->ncol",
                  "sp_colorder passes row indices of an nrow x ncol matrix to qrnzcnt(n = ncol, ...) without relating nrow to ncol: for nrow > ncol qrnzcnt reads and writes past "
                  "its n-sized work arrays (and past the caller's iperm[])", c.loc, f.name)


# ---------------------------------------------------------------------------------------------------------------------------------
# LANGS-NORMS (C19): every documented norm selector of ?langs yields a value
# ---------------------------------------------------------------------------------------------------------------------------------
def rule_langs_norms(mod, rep):
    rep.rule("LANGS-NORMS", "?langs: for each documented selector (M; 1, O; I; F, E) the branch taken when the selector matches reaches the return of a value computed from "
             "the matrix entries and does not run into the library's abort", floor=16)
    for prec, f in fam(mod, "?langs"):
        rep.scope([f.name])
        kn = f.pindex("norm")
        sel = {}
        for c in f.calls("lsame_"):
            if len(c.ops) >= 2 and c.ops[1][0] == "s":
                sel.setdefault(c.ops[1][1][:1].upper(), []).append(c)
        # the literal test  *norm == '1'
        ones = [x for x in f.insts() if x.op == "icmp" and x.pred in ("eq", "ne") and any(is_const(o, ord("1")) for o in x.ops)]
        for ch in ("M", "O", "1", "I", "F", "E"):
            tests = []
            if ch == "1":
                for x in ones:
                    for blk, t_true, t_false in branch_edges_on(f, x):
                        tests.append((x, t_true if x.pred == "eq" else t_false))
            else:
                for c in sel.get(ch, []):
                    # result compared with 0 and branched on
                    for u in f.uses.get(c.i, []):
                        if u.op == "icmp" and any(is_const(o, 0) for o in u.ops):
                            for blk, t_true, t_false in branch_edges_on(f, u):
                                tests.append((c, t_false if u.pred == "eq" else t_true))
            if not tests:
                rep.fail("LANGS-NORMS", "%s#norm-%s" % (f.name, ch), "selector '%s' is documented but never tested" % ch, f.file, f.name)
                continue
            for (x, tgt) in tests[:1]:
                start = f.blocks[tgt].insts[0]
                r = f.reach([start], include_start=True)
                aborts = [f.inst[i] for i in r if f.inst[i].op == "call" and (f.inst[i].callee or "") in mod.noreturn]
                # an abort that is reachable only through a failed allocation test is not the selector's fate: require that a return is reachable
                # without passing any abort, and that no abort *dominates* every return from this edge
                r2 = f.reach([start], stop=lambda y: y.op == "call" and (y.callee or "") in mod.noreturn, include_start=True)
                rets = [i for i in r2 if f.inst[i].op == "ret"]
                first_ab = [a for a in aborts if f.dominates(start, a) and all(not (z.op == "br" and len(z.bb.succ) > 1) for z in _straight(f, start, a))]
                rep.check(bool(rets) and not first_ab, "LANGS-NORMS", "%s#norm-%s" % (f.name, ch), "selector '%s' returns a value" % ch,
                          "selector '%s' is documented ('%s') but the routine aborts ('Not implemented') instead of returning the norm"
                          % (ch, {"F": "Frobenius norm", "E": "Frobenius norm"}.get(ch, ch)), x.loc, f.name)


def _straight(f, a, b):
    """instructions on the straight-line path from a to b if b is reached from a without any conditional branch, else a list containing that branch"""
    out = []
    cur = a
    seen = 0
    while cur is not None and cur.i != b.i and seen < 400:
        seen += 1
        out.append(cur)
        nx = f.next_insts(cur)
        if len(nx) != 1:
            return out
        cur = nx[0]
    return out


# ---------------------------------------------------------------------------------------------------------------------------------
# GEMV-TOTAL (C19): sp_?gemv serves every argument combination its prologue accepts
# ---------------------------------------------------------------------------------------------------------------------------------
def rule_gemv_total(mod, rep):
    from .ext import _owned_helpers
    rep.rule("GEMV-TOTAL", "sp_?gemv (and its static helpers): no call of the library's abort is reachable - every combination of trans, incx, incy that the argument check "
             "accepts is computed (the header documents arbitrary non-zero increments)", floor=4)
    for prec, f in fam(mod, "sp_?gemv"):
        fs = [f] + [h for (h, c, g) in _owned_helpers(mod, f)]
        rep.scope([x.name for x in fs])
        ab = [c for g in fs for c in g.calls() if (c.callee or "") in mod.noreturn]
        rep.check(not ab, "GEMV-TOTAL", "%s#no-abort" % f.name, "no abort reachable in %d function(s)" % len(fs),
                  "sp_%sgemv aborts at %s for an argument combination its prologue accepted (increment other than 1 on the %s side)" %
                  (prec, ab[0].loc if ab else "?", "output" if ab else ""), ab[0].loc if ab else f.file, f.name)


# ---------------------------------------------------------------------------------------------------------------------------------
# CPLX-ALIAS: an in-place complex update computes both parts from the old value
# ---------------------------------------------------------------------------------------------------------------------------------
def rule_cplx_alias(mod, rep, scope_pred=None, floor=20):
    rep.rule("CPLX-ALIAS", "complex arithmetic written out by hand or through the ?? _mult/_div macros: when the real and the imaginary part of one element are both stored in a "
             "block, the value stored into the second part does not depend on a load of the first part that is executed after that part was overwritten "
             "(c := a*b with c aliasing a or b has to take both parts of the operands before it stores either)", floor=floor)
    n = 0
    for f in mod.funcs.values():
        if scope_pred is not None and not scope_pred(f):
            continue
        for b in f.blocks:
            sts = [x for x in b.insts if x.op == "store" and x.ty in ("float", "double") or (x.op == "store" and f.otype(x.ops[0]) in ("float", "double"))]
            if len(sts) < 2:
                continue
            # group by element: address = gep(base, ..., field r/i); key = the address with its last field step removed
            def akey(o, depth=0):
                """canonical form of an address: root operand + field / index steps (index operands by SSA identity after casts)"""
                o = strip_casts(f, o)
                if o[0] == "v" and f.inst[o[1]].op == "getelementptr" and depth < 6:
                    g = f.inst[o[1]]
                    base = akey(g.ops[0], depth + 1)
                    steps = []
                    for st in (g.gep or []):
                        if st.get("k") == "fld":
                            steps.append(("f", st.get("n")))
                        else:
                            v = st.get("v")
                            vv = tuple(strip_casts(f, v)) if v else None
                            if vv and vv[0] == "c" and vv[1] == 0:
                                continue
                            steps.append(("i", vv))
                    return base + tuple(steps)
                return (tuple(o),)

            def split(x, addr=None):
                k = akey(addr if addr is not None else x.ops[1])
                if len(k) >= 2 and k[-1][0] == "f" and k[-1][1] in ("r", "i"):
                    return (k[:-1], None, k[-1][1])
                return None
            byel = {}
            for x in sts:
                k = split(x)
                if k and k[2] in ("r", "i"):
                    byel.setdefault(k[0], []).append((k[2], x))
            for el, parts in byel.items():
                names = [p for p, _ in parts]
                if "r" not in names or "i" not in names:
                    continue
                parts.sort(key=lambda t: t[1].i)
                first_part, S1 = parts[0]
                for (pn, S2) in parts[1:]:
                    if pn == first_part:
                        continue
                    n += 1
                    rep.scope([f.name])
                    bad = None
                    for L in _loads_thru_intrinsics(f, S2.ops[0]):
                        if L.bb.id == b.id and L.i > S1.i:
                            kL = split(L, L.ops[0])
                            if kL and kL[0] == el and kL[2] == first_part:
                                bad = L
                    rep.check(bad is None, "CPLX-ALIAS", "%s#%s-then-%s@%s" % (f.name, first_part, pn, S2.ln),
                              "both parts are computed from values loaded before the first store",
                              "the .%s part stored at line %s is computed from the .%s part of the same element re-read after it was overwritten at line %s" % (pn, S2.ln, first_part, S1.ln),
                              S2.loc, f.name)
    return n



def _loads_thru_intrinsics(f, o, limit=300):
    """loads in the expression tree of o; llvm.* intrinsics (llvm.fmuladd, llvm.fabs ...) are arithmetic, other calls end the walk"""
    out = []; seen = set(); work = [o]
    while work and len(seen) < limit:
        x = strip_casts(f, work.pop())
        if x[0] != "v" or x[1] in seen:
            continue
        seen.add(x[1])
        ins = f.inst[x[1]]
        if ins.op == "load":
            out.append(ins); continue
        if ins.op == "alloca" or (ins.op == "call" and not (ins.callee or "").startswith("llvm.")):
            continue
        for y in ins.ops:
            if isinstance(y, (list, tuple)) and y and y[0] in ("v",):
                work.append(y)
    return out


# ---------------------------------------------------------------------------------------------------------------------------------
# RES-FAIL/WorkInit (C17): a producer that reports failure has given back what it had already produced
# ---------------------------------------------------------------------------------------------------------------------------------
def rule_workinit_failure(mod, rep):
    rep.rule("RES-FAIL-W", "p?gstrf_WorkInit hands two arrays to its caller through out-parameters and the caller (p?gstrf_thread) returns at once when it reports failure, "
             "so on every return of a non-zero value that is reached after the first array was obtained from the system allocator (memory mode SYSTEM) that array has been "
             "released", floor=4)
    for prec, f in fam(mod, "p?gstrf_WorkInit"):
        rep.scope([f.name])
        ki = f.pindex("iworkptr")
        acq = [c for c in f.calls() if (c.callee or "") in ("intCalloc", "intMalloc", "superlu_malloc") and
               any(s.op == "store" and (("A", ki),) in f.addr_paths(s) and any(p == (("C", c.callee, c.i),) for p in f.paths(s.ops[0])) for s in f.insts())]
        if not acq:
            rep.brk("ANALYSIS-BROKEN RES-FAIL-W: allocation of *iworkptr not found in %s" % f.name)
            continue
        A0 = acq[0]
        frees = [c for c in f.calls("superlu_free") if any(len(p) == 2 and p[0] == ("A", ki) and p[1] == ("*",) for p in f.paths(c.ops[0]))]
        dead = dead_edges(f)
        # the null test of the first array: its failure return holds nothing
        bad = []
        for r in f.rets():
            v = r.ops[0] if r.ops else None
            # collect the return blocks by predecessor (merged return block): examine every path A0 -> ret avoiding a free
            pass
        # path-sensitive in the conditions that decided the acquisition (whichspace == SYSTEM is tested again at the release)
        from .res import _canon_cond
        from .pivot import _cd_closure as _cdc
        facts0 = {}
        for (a, s_) in _cdc(f, A0.bb.id):
            tt = f.blocks[a].insts[-1]
            if tt.op == "br" and tt.ops:
                cc = _canon_cond(f, tt.ops[0])
                if cc is not None and cc[0][0] in ("icmp",):
                    val = (s_ == tt.tgt[0])
                    facts0[cc[0]] = (val != cc[1])
        reach = set()
        work = [(x, tuple(sorted(facts0.items(), key=repr))) for x in f.next_insts(A0)]
        seen_st = set()
        while work:
            x, fk = work.pop()
            if (x.i, fk) in seen_st:
                continue
            seen_st.add((x.i, fk))
            reach.add(x.i)
            if x in frees:
                continue
            if x.op == "br" and x.ops:
                cc = _canon_cond(f, x.ops[0])
                fd = dict(fk)
                for tg, val in ((x.tgt[0], True), (x.tgt[1], False)):
                    if (x.bb.id, tg) in dead:
                        continue
                    if cc is not None and cc[0] in fd and fd[cc[0]] != (val != cc[1]):
                        continue
                    work.append((f.blocks[tg].insts[0], fk))
                continue
            for y in f.next_insts(x, dead):
                work.append((y, fk))
        # exits reached without a free: classify by the value returned
        for b in f.blocks:
            t = b.insts[-1]
            if t.op != "ret" or t.i not in reach:
                continue
            rv = strip_casts(f, t.ops[0]) if t.ops else None
            srcs = []
            if rv and rv[0] == "v" and f.inst[rv[1]].op == "phi":
                ph = f.inst[rv[1]]
                srcs = [(strip_casts(f, o), pb) for o, pb in zip(ph.ops, ph.inb)]
            elif rv:
                srcs = [(rv, None)]
            for (o, pb) in srcs:
                if o[0] == "c" and o[1] == 0:
                    continue                       # success: the caller owns both arrays
                # failure value: is this predecessor reachable from the acquisition without a free, on a path where the array is non-NULL?
                if pb is None:
                    bad.append(t); continue
                last = f.blocks[pb].insts[-1]
                if last.i not in reach and f.blocks[pb].insts[0].i not in reach:
                    continue
                # the failure return right after the acquisition's own NULL test holds nothing: that block is control dependent on (*iworkptr == NULL)
                nulltest = False
                from .pivot import _cd_closure
                for (a, s) in _cd_closure(f, pb):
                    tt = f.blocks[a].insts[-1]
                    if tt.op == "br" and tt.ops and tt.ops[0][0] == "v":
                        C = f.inst[tt.ops[0][1]]
                        if C.op == "icmp" and C.pred in ("eq", "ne") and any(o2[0] == "null" or is_const(o2, 0) for o2 in C.ops):
                            lo = [strip_casts(f, o2) for o2 in C.ops if o2[0] == "v"]
                            if lo and f.inst[lo[0][1]].op == "load" and any(len(p) == 2 and p[0] == ("A", ki) for p in f.paths(lo[0])):
                                succ = [x.id for x in f.blocks[a].succ]
                                null_edge = succ[0] if C.pred == "eq" else succ[1]
                                if s == null_edge:
                                    nulltest = True
                if not nulltest:
                    bad.append(last)
        rep.check(not bad, "RES-FAIL-W", "%s#failure-returns" % f.name, "every failure return after *iworkptr was obtained releases it (SYSTEM mode) - %d release site(s)" % len(frees),
                  "a failure return (%s) is reached with the integer work array still allocated: the worker returns immediately and nobody frees it" % (bad[0].loc if bad else ""),
                  bad[0].loc if bad else f.file, f.name)


# ---------------------------------------------------------------------------------------------------------------------------------
# ARG-NAME: an argument that carries the name of one of the callee's parameters is passed in that parameter's position
# ---------------------------------------------------------------------------------------------------------------------------------
# frozen after reading each site (three of 1809 name-carrying arguments on the unchanged tree):
ARG_NAME_EXCEPTIONS = {
    ("sp_colorder", "cholnzcnt", "invp"): "different naming convention: the caller's invp (inverse of perm_c) is the callee's perm (new -> old), the caller's perm_c is the callee's invp",
    ("sp_colorder", "qrnzcnt", "invp"): "same as cholnzcnt",
    ("t_mult", "t_add", "a"): "colamd size_t helper: accumulates s = t_add(s, a)",
}


def _arg_name(f, o):
    o = strip_casts(f, o)
    if o[0] == "a":
        return f.pname(o[1])
    if o[0] == "v":
        x = f.inst[o[1]]
        if x.dn:
            return x.dn
        if x.op == "load":
            ps = f.addr_paths(x)
            if len(ps) == 1:
                p = list(ps)[0]
                if p[-1][0] == "f":
                    return p[-1][2]
    return None


def rule_arg_names(mod, rep, caller_pred, floor=10):
    rep.rule("ARG-NAME", "calls between library routines: when an argument is the variable (or structure field) that bears the name of one of the callee's parameters, it is passed "
             "in that parameter's position - unless that position also receives a variable of that name. Holds for 1806 of 1809 such arguments of the unchanged tree; "
             "the three others are frozen exceptions with a reason. A violation is two adjacent same-typed arguments transposed, or the wrong one of two similar variables forwarded",
             floor=floor)
    for f in mod.funcs.values():
        if not caller_pred(f):
            continue
        for c in f.calls():
            g = mod.funcs.get(c.callee or "")
            if g is None:
                continue
            pn = [p["name"] for p in g.params]
            names = [_arg_name(f, o) for o in c.ops[:len(pn)]]
            for i, N in enumerate(names):
                if not N or N not in pn:
                    continue
                rep.scope([f.name])
                j = pn.index(N)
                key = "%s->%s#%s@%s" % (f.name, g.name, N, c.ln)
                if j == i or pn[i] == N or (j < len(names) and names[j] == N):
                    rep.ok("ARG-NAME", key, "'%s' is passed as '%s'" % (N, pn[i]), c.loc, f.name)
                    continue
                why = ARG_NAME_EXCEPTIONS.get((f.name, g.name.rstrip("0123456789."), N)) or ARG_NAME_EXCEPTIONS.get((f.name, g.name, N))
                if why:
                    rep.ok("ARG-NAME", key, "frozen exception: " + why, c.loc, f.name)
                    continue
                rep.fail("ARG-NAME", key, "%s passes '%s' where %s expects '%s', and %s's parameter '%s' receives '%s'" % (f.name, N, g.name, pn[i], g.name, N, names[j] if j < len(names) else "?"),
                         c.loc, f.name)
