"""FEAS extension: error-code kinds with the library's contract 0 < ColIdx <= n < MemErr.

kind sets over {"Z","COL","MEM","U"}:
  Z   the constant 0
  COL a value produced as <int parameter> + 1 (the only non-zero return of ?gstrf_pivotL is jcol+1)
  MEM a value computed from ?gstrf_memory_use(...) / byte counts plus n (memory-failure code)
  U   anything else
Used to fold `*info > n` when only Z/COL can arrive, and to see it become live when a MEM/U source is connected."""
from ..util import *
from ..ir import strip_casts

_cache = {}


def _mk(mod):
    key = id(mod)
    if key not in _cache:
        _cache[key] = {"ret": {}, "out": {}, "busy": set()}
    return _cache[key]


def value_kinds(mod, f, o, depth=0, seen=None):
    o = strip_casts(f, o)
    if seen is None:
        seen = set()
    if o[0] == "c":
        return {"Z"} if o[1] == 0 else {"U"}
    if o[0] != "v" or depth > 10:
        return {"U"}
    ins = f.inst[o[1]]
    if ins.op == "phi" or ins.op == "select":
        out = set()
        for x in (ins.ops if ins.op == "phi" else ins.ops[1:]):
            if x[0] == "undef":
                continue
            if x[0] == "v" and (x[1] == ins.i or x[1] in seen):
                continue
            out |= value_kinds(mod, f, x, depth + 1, seen | {ins.i})
        return out or {"U"}
    if ins.op == "add":
        a, b = strip_casts(f, ins.ops[0]), strip_casts(f, ins.ops[1])
        if (a[0] == "a" and is_const(b, 1)) or (b[0] == "a" and is_const(a, 1)):
            return {"COL"}
        ks = value_kinds(mod, f, a, depth + 1) | value_kinds(mod, f, b, depth + 1)
        if "MEM" in ks:
            return {"MEM"}
        return {"U"}
    if ins.op == "call":
        if ins.callee and "gstrf_memory_use" in ins.callee:
            return {"MEM"}
        if ins.callee in mod.constret:
            return {"Z"} if mod.constret[ins.callee] == 0 else {"U"}
        if ins.callee in mod.funcs:
            return ret_kinds(mod, mod.funcs[ins.callee])
        return {"U"}
    if ins.op == "load":
        return load_kinds(mod, f, ins, depth + 1)
    return {"U"}


def ret_kinds(mod, g):
    st = _mk(mod)
    if g.name in st["ret"]:
        return st["ret"][g.name]
    if g.name in st["busy"]:
        return {"U"}
    st["busy"].add(g.name)
    out = set()
    for r in g.rets():
        if r.ops:
            out |= value_kinds(mod, g, r.ops[0])
    st["busy"].discard(g.name)
    st["ret"][g.name] = out or {"U"}
    return st["ret"][g.name]


def out_kinds(mod, g, k):
    """(kinds stored through pointer parameter k, must_write)"""
    st = _mk(mod)
    key = (g.name, k)
    if key in st["out"]:
        return st["out"][key]
    if key in st["busy"]:
        return ({"U"}, False)
    st["busy"].add(key)
    kinds = set()
    writers = []
    for i in g.insts():
        if i.op == "store" and (("A", k),) in g.addr_paths(i):
            kinds |= value_kinds(mod, g, i.ops[0])
            writers.append(i)
        elif i.op == "call" and i.callee in mod.funcs:
            for n, o in enumerate(i.ops):
                if (("A", k),) in g.paths(o) and len(g.paths(o)) == 1:
                    ck, cm = out_kinds(mod, mod.funcs[i.callee], n)
                    if ck:
                        kinds |= ck
                        if cm:
                            writers.append(i)
    must = False
    if writers:
        ws = set(w.i for w in writers)
        r = g.reach([g.entry()], stop=lambda x: x.i in ws, include_start=True)
        must = not any(g.inst[x].op == "ret" for x in r)
    st["busy"].discard(key)
    st["out"][key] = (kinds, must)
    return st["out"][key]


def load_kinds(mod, f, ld, depth=0):
    """kinds of the value read by a load, from the nearest preceding must-writer on the unique-predecessor chain"""
    P = f.addr_paths(ld)
    b = ld.bb
    pos = ld.pos - 1
    hops = 0
    while hops < 12:
        while pos >= 0:
            i = b.insts[pos]
            pos -= 1
            if i.op == "store" and f.addr_paths(i) == P:
                return value_kinds(mod, f, i.ops[0], depth + 1)
            if i.op == "store" and (f.addr_paths(i) & P):
                return {"U"}
            if i.op == "call" and i.callee and not i.callee.startswith("llvm."):
                for n, o in enumerate(i.ops):
                    if o[0] in ("v", "a") and f.paths(o) == P:
                        if i.callee in mod.funcs:
                            ks, must = out_kinds(mod, mod.funcs[i.callee], n)
                            if ks and must:
                                return ks
                            if ks:
                                return ks | {"U"}
                            break
                        return {"U"}
        if len(b.pred) != 1:
            return {"U"}
        b = b.pred[0]
        pos = len(b.insts) - 1
        hops += 1
    return {"U"}


def _is_n(f, o):
    o = strip_casts(f, o)
    if o[0] == "a":
        return f.pname(o[1]) in ("n", "ncol")
    for p in f.paths(o):
        if len(p) >= 2 and p[-1] == ("*",) and p[-2][0] == "f" and p[-2][2] == "ncol":
            return True
    return False


def dead_error_edges(mod, f):
    """edges of `X > n` (true) / `X <= n` (false) tests that are infeasible because X's kinds are within {Z, COL}"""
    dead = set()
    for C in f.insts():
        if C.op != "icmp" or C.pred not in ("sgt", "sle", "slt", "sge"):
            continue
        a, b = C.ops
        if C.pred in ("sgt", "sle") and _is_n(f, b):
            x = a; gt_true = (C.pred == "sgt")
        elif C.pred in ("slt", "sge") and _is_n(f, a):
            x = b; gt_true = (C.pred == "slt")
        else:
            continue
        ks = value_kinds(mod, f, x)
        if ks <= {"Z", "COL"}:
            for blk, t, fl in branch_edges_on(f, C):
                dead.add((blk.id, t if gt_true else fl))
    return dead
