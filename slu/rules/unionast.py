"""UNION-ROLE (C10): COLAMD keeps several quantities of a column / row in unions (shared1..shared4) and switches their role between phases.
LLVM IR does not keep the identity of same-typed union members, so this one rule works on the clang AST (-ast-dump=json) of colamd.c.

Within one function and one iteration of the innermost enclosing loop, for the same object expression (same text, no assignment to a variable it
mentions in between) and the same union:
  P1  a write of member m1 followed by a read of another member m2 (not written in between) reads the bits of m1;
  P2  a write of member m1 followed by a write of another member m2 without a read of m1 in between destroys m1 before it was used.
Events in the two branches of one `if` are not ordered."""
import json, os, subprocess
from .. import build


def _key(n):
    k = n.get("kind")
    inner = [c for c in (n.get("inner") or []) if isinstance(c, dict)]
    if k == "DeclRefExpr":
        return n.get("referencedDecl", {}).get("name", "?")
    if k == "ArraySubscriptExpr" and len(inner) == 2:
        return "%s[%s]" % (_key(inner[0]), _key(inner[1]))
    if k == "MemberExpr" and inner:
        return "%s%s%s" % (_key(inner[0]), "->" if n.get("isArrow") else ".", n.get("name"))
    if k in ("ImplicitCastExpr", "ParenExpr", "CStyleCastExpr") and inner:
        return _key(inner[0])
    if k == "IntegerLiteral":
        return str(n.get("value"))
    if k == "BinaryOperator" and len(inner) == 2:
        return "(%s%s%s)" % (_key(inner[0]), n.get("opcode"), _key(inner[1]))
    if k == "UnaryOperator" and inner:
        return "%s%s" % (n.get("opcode"), _key(inner[0]))
    return "<%s>" % k


def _vars(n, out):
    if n.get("kind") == "DeclRefExpr":
        out.add(n.get("referencedDecl", {}).get("name", "?"))
    for c in n.get("inner") or []:
        if isinstance(c, dict):
            _vars(c, out)
    return out


def _is_union_member(n):
    """MemberExpr whose base is a MemberExpr of union type: returns (object key, union field, member) or None"""
    if n.get("kind") != "MemberExpr":
        return None
    inner = [c for c in (n.get("inner") or []) if isinstance(c, dict)]
    if not inner or inner[0].get("kind") != "MemberExpr":
        return None
    u = inner[0]
    qt = (u.get("type") or {}).get("desugaredQualType") or (u.get("type") or {}).get("qualType") or ""
    if not qt.startswith("union"):
        return None
    ui = [c for c in (u.get("inner") or []) if isinstance(c, dict)]
    if not ui:
        return None
    return (_key(ui[0]), u.get("name"), n.get("name"), frozenset(_vars(ui[0], set())))


class _Walker(object):
    def __init__(self):
        self.events = []     # (kind, payload, loop chain tuple, branch path tuple, line)
        self.line = 0

    def ev(self, kind, payload, loops, branches, n):
        self.events.append((kind, payload, loops, branches, n.get("_line", 0)))

    def expr(self, n, loops, br, mode="r"):
        """mode: r = value is read, w = written, rw = both"""
        k = n.get("kind")
        ln = ((n.get("range") or {}).get("begin") or {})
        if ln.get("line"):
            self.line = ln["line"]
        inner = [c for c in (n.get("inner") or []) if isinstance(c, dict)]
        um = _is_union_member(n)
        if um:
            # index expressions inside the object are reads
            for c in inner:
                self.expr_sub_reads(c, loops, br)
            if "r" in mode:
                self.ev("ur", um, loops, br, n)
            if "w" in mode:
                self.ev("uw", um, loops, br, n)
            return
        if k == "DeclRefExpr":
            if "w" in mode:
                self.ev("vw", n.get("referencedDecl", {}).get("name", "?"), loops, br, n)
            return
        if k == "BinaryOperator" and len(inner) == 2:
            op = n.get("opcode")
            if op == "=":
                self.expr(inner[1], loops, br, "r")
                self.expr(inner[0], loops, br, "w")
                return
            if op in ("&&", "||"):
                self.expr(inner[0], loops, br, "r")
                self.expr(inner[1], loops, br + ((n.get("id"), 1),), "r")
                return
            self.expr(inner[0], loops, br, "r"); self.expr(inner[1], loops, br, "r")
            return
        if k == "CompoundAssignOperator" and len(inner) == 2:
            self.expr(inner[0], loops, br, "r"); self.expr(inner[1], loops, br, "r"); self.expr(inner[0], loops, br, "w")
            return
        if k == "UnaryOperator" and inner:
            if n.get("opcode") in ("++", "--"):
                self.expr(inner[0], loops, br, "r"); self.expr(inner[0], loops, br, "w")
                return
            if n.get("opcode") == "&":
                self.expr(inner[0], loops, br, "rw")
                return
            self.expr(inner[0], loops, br, mode if n.get("opcode") == "*" else "r")
            return
        if k == "ConditionalOperator" and len(inner) == 3:
            self.expr(inner[0], loops, br, "r")
            self.expr(inner[1], loops, br + ((n.get("id"), 0),), mode)
            self.expr(inner[2], loops, br + ((n.get("id"), 1),), mode)
            return
        if k in ("ImplicitCastExpr", "ParenExpr", "CStyleCastExpr") and inner:
            self.expr(inner[0], loops, br, mode)
            return
        if k in ("ArraySubscriptExpr", "MemberExpr"):
            for c in inner:
                self.expr(c, loops, br, "r")
            return
        for c in inner:
            self.stmt(c, loops, br)

    def expr_sub_reads(self, n, loops, br):
        # reads inside the object expression of a union access (indices, pointers)
        inner = [c for c in (n.get("inner") or []) if isinstance(c, dict)]
        if n.get("kind") in ("MemberExpr", "ArraySubscriptExpr", "ImplicitCastExpr", "ParenExpr", "DeclRefExpr"):
            for c in inner:
                self.expr_sub_reads(c, loops, br)
        else:
            self.expr(n, loops, br, "r")

    def stmt(self, n, loops, br):
        k = n.get("kind")
        inner = [c for c in (n.get("inner") or []) if isinstance(c, dict)]
        if k == "IfStmt":
            if inner:
                self.expr(inner[0], loops, br, "r")
            for j, c in enumerate(inner[1:]):
                self.stmt(c, loops, br + ((n.get("id"), j),))
            return
        if k in ("ForStmt", "WhileStmt", "DoStmt"):
            lp = loops + (n.get("id"),)
            for c in inner:
                self.stmt(c, lp, br)
            return
        if k == "CompoundStmt":
            # an `if` whose branch ends in continue / break / return / goto and that has no (or a falling-through) other branch: what follows in the block is executed only
            # on the other branch - `if (c) { A; continue; } B;` is `if (c) A else B` for the ordering of union accesses
            cur = br
            for c in inner:
                self.stmt(c, loops, cur)
                if c.get("kind") == "IfStmt":
                    parts = [x for x in (c.get("inner") or []) if isinstance(x, dict)][1:]
                    term = [_terminates(x) for x in parts]
                    if len(parts) == 1 and term[0]:
                        cur = cur + ((c.get("id"), 1),)
                    elif len(parts) == 2 and term[0] and not term[1]:
                        cur = cur + ((c.get("id"), 1),)
                    elif len(parts) == 2 and term[1] and not term[0]:
                        cur = cur + ((c.get("id"), 0),)
            return
        if k in ("DeclStmt", "VarDecl", "ReturnStmt", "SwitchStmt", "CaseStmt", "DefaultStmt", "LabelStmt", "NullStmt", "BreakStmt", "ContinueStmt", "GotoStmt"):
            for c in inner:
                self.stmt(c, loops, br)
            return
        self.expr(n, loops, br, "r")


def _annotate_lines(n, cur):
    """clang prints a line number only where it changes, in document order: give every node the line of its beginning"""
    def upd(loc):
        if isinstance(loc, dict):
            for sub in ("expansionLoc", "spellingLoc"):
                if sub in loc:
                    upd(loc[sub])
            if "line" in loc:
                cur[0] = loc["line"]
    if "loc" in n:
        upd(n["loc"])
    rng = n.get("range") or {}
    upd(rng.get("begin"))
    n["_line"] = cur[0]
    upd(rng.get("end"))
    for c in n.get("inner") or []:
        if isinstance(c, dict):
            _annotate_lines(c, cur)


def _terminates(n):
    """does this statement always leave the enclosing block (ends in continue / break / return / goto)?"""
    k = n.get("kind")
    if k in ("ContinueStmt", "BreakStmt", "ReturnStmt", "GotoStmt"):
        return True
    if k == "CompoundStmt":
        inner = [c for c in (n.get("inner") or []) if isinstance(c, dict)]
        return bool(inner) and _terminates(inner[-1])
    return False


def _exclusive(b1, b2):
    d1 = dict(b1)
    return any(i in d1 and d1[i] != j for i, j in b2)


def analyse_source(path, flags):
    r = subprocess.run(["clang-14", "-fsyntax-only", "-w"] + flags + ["-Xclang", "-ast-dump=json", path], capture_output=True, text=True)
    if r.returncode != 0 or not r.stdout:
        raise RuntimeError("clang AST dump failed for %s: %s" % (path, r.stderr[:200]))
    d = json.loads(r.stdout)
    import sys
    sys.setrecursionlimit(max(sys.getrecursionlimit(), 20000))
    _annotate_lines(d, [0])
    out = []
    nfun = 0; nacc = 0
    for fn in d.get("inner", []):
        if fn.get("kind") != "FunctionDecl":
            continue
        body = [c for c in (fn.get("inner") or []) if isinstance(c, dict) and c.get("kind") == "CompoundStmt"]
        if not body:
            continue
        loc = fn.get("loc") or {}
        if (loc.get("includedFrom") or (loc.get("file") and os.path.abspath(loc.get("file")) != os.path.abspath(path))):
            continue
        w = _Walker()
        w.stmt(body[0], (), ())
        evs = w.events
        uacc = [e for e in evs if e[0] in ("ur", "uw")]
        if not uacc:
            continue
        nfun += 1; nacc += len(uacc)
        for i, e1 in enumerate(evs):
            if e1[0] != "uw":
                continue
            (key, uf, m1, kv) = e1[1]
            read_m1 = False
            written = set()
            for e2 in evs[i + 1:]:
                # same iteration of e1's innermost loop
                if e2[2][:len(e1[2])] != e1[2]:
                    break
                if e2[0] == "vw":
                    if e2[1] in kv and not _exclusive(e1[3], e2[3]):
                        break
                    continue
                (k2, u2, m2, kv2) = e2[1]
                if k2 != key or u2 != uf:
                    continue
                if _exclusive(e1[3], e2[3]):
                    continue
                if e2[0] == "ur":
                    if m2 == m1:
                        read_m1 = True
                    elif m2 not in written:
                        out.append(("P1", fn.get("name"), "%s.%s" % (key, uf), m1, m2, e1[4], e2[4]))
                        break
                elif e2[0] == "uw":
                    if m2 == m1:
                        break
                    written.add(m2)
                    if not read_m1:
                        out.append(("P2", fn.get("name"), "%s.%s" % (key, uf), m1, m2, e1[4], e2[4]))
                        break
    return out, nfun, nacc


def rule_union_role(ctx, rep):
    rep.rule("UNION-ROLE", "colamd.c (clang AST): within one function and one iteration of the innermost loop, for the same object and the same union (shared1..shared4): a member "
             "that was just written is not read back through another member (P1), and is not overwritten through another member before it has been read (P2); the two "
             "branches of an `if` are not ordered", floor=1)
    repo = build.REPO
    path = os.path.join(repo, "SRC", "colamd.c")
    if not os.path.exists(path):
        rep.brk("ANALYSIS-BROKEN UNION-ROLE: %s not found" % path)
        return
    flags = [t for t in build.config_flags(ctx.config, repo)]
    try:
        res, nfun, nacc = analyse_source(path, flags)
        # positive example: the rule must tell the two patterns apart on every run
        pos = os.path.join(os.path.dirname(build.IRDUMP), "positive", "unionrole.c")
        pres, pn, pa = analyse_source(pos, [])
    except Exception as e:
        rep.brk("ANALYSIS-BROKEN UNION-ROLE: %s" % e)
        return
    got = sorted((r[0], r[1]) for r in pres)
    if got != [("P1", "bad_p1"), ("P2", "bad_p2")]:
        rep.brk("ANALYSIS-BROKEN UNION-ROLE: positive example misjudged: %r" % got)
        return
    rep.note("UNION-ROLE: %d functions of colamd.c with %d accesses to union members analysed; positive example sa/positive/unionrole.c told apart" % (nfun, nacc))
    if nacc < 50:
        rep.brk("ANALYSIS-BROKEN UNION-ROLE: only %d union accesses found in colamd.c" % nacc)
        return
    rep.scope(["colamd.c"])
    rep.check(not res, "UNION-ROLE", "colamd.c#unions", "%d accesses to union members in %d functions: no member is read or destroyed through another one" % (nacc, nfun),
              "; ".join("%s in %s(): %s written as .%s at line %d, then %s as .%s at line %d" % (r[0], r[1], r[2], r[3], r[5], "read" if r[0] == "P1" else "overwritten", r[4], r[6]) for r in res[:4]),
              "%s:%s" % (path, res[0][6] if res else 0), res[0][1] if res else "colamd")
