"""Rules added in round 6 (general engines rather than site rules).

ALLOC-RANGE: a classical static bounds check by polynomial inclusion, applied to every array a routine allocates itself."""
from ..util import *
from ..ir import strip_casts, fmt_path
from .more import _Poly
from .layout import padd, pmul, pconst, pfmt
from .threads import loop_bound

_TYPED = {"intMalloc": None, "intCalloc": None, "int32Malloc": 4, "int32Calloc": 4, "floatMalloc": 4, "floatCalloc": 4, "doubleMalloc": 8, "doubleCalloc": 8,
          "complexMalloc": 8, "complexCalloc": 8, "doublecomplexMalloc": 16, "doublecomplexCalloc": 16}
_TSZ = {"double": 8, "float": 4, "i8": 1, "i16": 2, "i32": 4, "i64": 8}


def _esize(ty):
    if not ty or not ty.endswith("*"):
        return None
    b = ty[:-1]
    if b.endswith("*"):
        return 8
    if b in _TSZ:
        return _TSZ[b]
    if "doublecomplex" in b:
        return 16
    if "complex" in b:
        return 8
    return None


def _direct_gep(f, addr):
    """(base operand, index operand) when addr is one single-index GEP (possibly behind casts) - else None"""
    o = addr
    while o[0] == "v" and f.inst[o[1]].op == "bitcast":
        o = f.inst[o[1]].ops[0]
    if o[0] != "v":
        return None
    g = f.inst[o[1]]
    if g.op != "getelementptr" or len(g.gep) != 1 or g.gep[0]["k"] != "idx":
        return None
    return g.ops[0], g.gep[0]["v"], g


def _alloc_of(f, base):
    """the allocation call a pointer value is (a cast of), or None - no phis, no loads: the SSA value itself"""
    o = base
    seen = 0
    while o[0] == "v" and seen < 8:
        x = f.inst[o[1]]
        if x.op == "bitcast":
            o = x.ops[0]; seen += 1
            continue
        if x.op == "call":
            return x
        return None
    return None


def _loop_info(f):
    """header phi id -> (init operand, pred, bound operand, step, body) for counted loops with a constant step"""
    out = {}
    for h, body in f.loops():
        lb = loop_bound(f, h, body)
        if not lb:
            continue
        ph, pred, bound = lb
        inits = [o for o, b in zip(ph.ops, ph.inb) if b not in body]
        nexts = [o for o, b in zip(ph.ops, ph.inb) if b in body]
        if len(inits) != 1 or not nexts:
            continue
        step = None
        for nx in nexts:
            nx = strip_casts(f, nx)
            s = None
            if nx[0] == "v" and f.inst[nx[1]].op in ("add", "sub"):
                a = f.inst[nx[1]]
                x0, x1 = strip_casts(f, a.ops[0]), strip_casts(f, a.ops[1])
                if x0 == ["v", ph.i] and x1[0] == "c":
                    s = x1[1] if a.op == "add" else -x1[1]
                elif a.op == "add" and x1 == ["v", ph.i] and x0[0] == "c":
                    s = x0[1]
            if s is None or (step is not None and s != step):
                step = None
                break
            step = s
        if step is None or step == 0:
            continue
        # the exit test must be the only way out of the loop that matters: we only use it as an upper bound, which holds on every iteration
        # that passed the test; require the test to sit in the header (checked before the body runs)
        t = None
        for b in body:
            tt = f.blocks[b].insts[-1]
            if tt.op == "br" and tt.ops and tt.ops[0][0] == "v" and not all(x in body for x in tt.tgt):
                c = f.inst[tt.ops[0][1]]
                if c.op == "icmp" and (strip_casts(f, c.ops[0]) == ["v", ph.i] or strip_casts(f, c.ops[1]) == ["v", ph.i]):
                    t = (b, tt, c)
                    break
        if t is None or t[0] != h:
            continue
        # the edge that stays in the loop must be the one on which `phi pred bound` is true
        tt, c = t[1], t[2]
        stay_true = tt.tgt[0] in body
        out[ph.i] = (inits[0], pred if stay_true else _neg(pred), bound, step, body)
    return out


def _neg(p):
    return {"slt": "sge", "sge": "slt", "sle": "sgt", "sgt": "sle", "ult": "uge", "uge": "ult", "ule": "ugt", "ugt": "ule", "eq": "ne", "ne": "eq"}.get(p, p)


def psubst(poly, env):
    """substitute symbols by polynomials (symbols not in env stay)"""
    out = {}
    for k, v in poly.items():
        term = pconst(v) if v else {}
        for t in k:
            term = pmul(term, env[t] if t in env else {(t,): 1})
        out = padd(out, term, 1)
    return out


def _is_ssa_sym(t):
    return (t.startswith("v") and t[1:].isdigit()) or t.startswith("?")


def _max_index(f, P, LI, s, idx):
    """polynomial of the largest value of the index operand idx at access s (induction variables replaced by their extreme values), or None when undecided.
    Returns (poly, guard_phis)."""
    ip = P.of(idx)
    guard_syms = []
    for _ in range(4):
        phis = [k for k in ip if any(t.startswith("v") and t[1:].isdigit() and int(t[1:]) in LI for t in k)]
        if not phis:
            break
        t = [t for t in phis[0] if t.startswith("v") and t[1:].isdigit() and int(t[1:]) in LI][0]
        pid = int(t[1:])
        init, pred, bound, step, body = LI[pid]
        if s.bb.id not in body:
            return None
        if any(k.count(t) > 1 for k in ip) or any(len(k) > 1 and t in k for k in ip):
            return None
        coef = ip.get((t,), 0)
        hi = None
        if step > 0 and pred in ("slt", "ult", "ne"):
            hi = padd(P.of(bound), pconst(1), -1)
        elif step > 0 and pred in ("sle", "ule"):
            hi = P.of(bound)
        elif step < 0 and pred in ("sge", "sgt", "uge", "ugt", "ne"):
            hi = P.of(init)
        lo = P.of(init) if step > 0 else None
        if step != 1 and step != -1 and pred == "ne":
            return None
        val = hi if coef > 0 else lo
        if val is None:
            return None
        guard_syms.append(pid)
        rest = {k: v for k, v in ip.items() if k != (t,)}
        ip = padd(rest, pmul(val, pconst(coef)), 1)
    if guard_syms and _guarded(f, s, guard_syms):
        return None
    return ip, guard_syms


def _guarded(f, s, guard_syms):
    """is the access (transitively) control dependent on a further integer test of one of the induction variables, or on a non-integer test?"""
    cdeps = f.control_deps()
    seen = set(); work = [s.bb.id]
    hdrs = {f.inst[g].bb.id for g in guard_syms}
    while work:
        b = work.pop()
        for (cb, _e) in cdeps.get(b, ()):
            if cb in seen:
                continue
            seen.add(cb)
            tt = f.blocks[cb].insts[-1]
            if tt.op == "br" and tt.ops and tt.ops[0][0] == "v":
                c = f.inst[tt.ops[0][1]]
                if c.op == "icmp":
                    for k in (0, 1):
                        for x in expr_insts_ids(f, c.ops[k]):
                            if x in guard_syms and cb not in hdrs:
                                return True
            elif tt.op == "switch":
                return True
            if cb not in hdrs:
                work.append(cb)
    return False


def expr_insts_ids(f, o, depth=0):
    o = strip_casts(f, o)
    if o[0] != "v" or depth > 6:
        return set()
    x = f.inst[o[1]]
    out = {x.i}
    if x.op in ("add", "sub", "mul", "sext", "zext", "trunc"):
        for y in x.ops:
            out |= expr_insts_ids(f, y, depth + 1)
    return out


def _wrappers(mod, isz):
    """discovered allocation wrappers: name -> (count polynomial in the wrapper's parameter names, element size or None for 'bytes')"""
    out = {}
    for g in mod.funcs.values():
        if not g.blocks or g.name in _TYPED or g.name == "superlu_malloc":
            continue
        rets = [r for r in g.rets() if r.ops]
        if not rets:
            continue
        calls = set()
        okr = True
        for r in rets:
            o = r.ops[0]
            vals = [o]
            x = strip_casts(g, o)
            if x[0] == "v" and g.inst[x[1]].op == "phi":
                vals = g.inst[x[1]].ops
            for v in vals:
                if v[0] == "null":
                    continue
                c = _alloc_of(g, v)
                if c is None or not (c.callee in _TYPED or c.callee == "superlu_malloc"):
                    okr = False
                else:
                    calls.add(c.i)
        if not okr or len(calls) != 1:
            continue
        c = g.inst[list(calls)[0]]
        cnt = _Poly(g).of(c.ops[0])
        pn = {g.pname(k) for k in range(len(g.params))}
        if any(t not in pn for k in cnt for t in k):
            continue
        out[g.name] = (g, cnt, None if c.callee == "superlu_malloc" else (_TYPED[c.callee] or isz))
    return out


def _callee_extents(mod, LIs):
    """callee name -> {param index: [(max index polynomial over the callee's scalar parameter names, site)]} for accesses through a pointer parameter"""
    out = {}
    for g in mod.funcs.values():
        if not g.blocks:
            continue
        P = None
        pn = {g.pname(k): k for k in range(len(g.params)) if not g.is_ptr(["a", k])}
        for s in g.insts():
            if s.op not in ("load", "store"):
                continue
            addr = s.ops[0] if s.op == "load" else s.ops[1]
            dg = _direct_gep(g, addr)
            if not dg:
                continue
            base = dg[0]
            while base[0] == "v" and g.inst[base[1]].op == "bitcast":
                base = g.inst[base[1]].ops[0]
            if base[0] != "a":
                continue
            P = P or _Poly(g)
            if g.name not in LIs:
                LIs[g.name] = _loop_info(g)
            r = _max_index(g, P, LIs[g.name], s, dg[1])
            if r is None:
                continue
            ip = r[0]
            if any(t not in pn for k in ip for t in k):
                continue
            out.setdefault(g.name, {}).setdefault(base[1], []).append((ip, s, _esize(g.otype(dg[2].ops[0]))))
    return out


def rule_alloc_range(mod, rep, floor=60, sel=None):
    rep.rule("ALLOC-RANGE", "static bounds check by polynomial inclusion: for an array the routine allocates itself (typed allocators, superlu_malloc with the element size of "
             "the access, and allocation wrappers discovered from the code: functions returning one allocation whose count is a polynomial of their parameters) every load/store "
             "whose index is an affine function of the induction variables of the enclosing counted loops (constant step, exit test in the header) and of symbols is evaluated at "
             "the largest value the induction variables can take; the same is done for accesses a callee makes through a pointer parameter when the array is handed to it "
             "(callee summary: largest index as a polynomial of the callee's scalar parameters, translated through the actual arguments). An access is discharged when "
             "count - 1 - max has no negative coefficient, and it is a violation when max - count has no negative coefficient (for all non-negative sizes the last iteration is "
             "outside the block). Accesses guarded by a further test on the induction variable, and indices with other symbols, are left undecided (counted, not reported)", floor=floor)
    im = mod.funcs.get("intMalloc")
    isz = 8 if (im is not None and im.params and im.params[0].get("ty") == "i64") else 4
    W = _wrappers(mod, isz)
    LIs = {}
    CE = _callee_extents(mod, LIs)
    n_ok = n_und = 0

    def decide(f, call, cnt, ip, s, via=None):
        nonlocal n_ok, n_und
        syms = {t for k in ip for t in k} | {t for k in cnt for t in k}
        if any(_is_ssa_sym(t) for t in syms):
            n_und += 1
            return
        slack = padd(padd(cnt, pconst(1), -1), ip, -1)       # count - 1 - max
        over = padd(ip, cnt, -1)                              # max - count
        where = s.loc if via is None else "%s (in %s, called at %s)" % (s.loc, s.fn.name, via.loc)
        if all(v >= 0 for v in slack.values()):
            n_ok += 1
            rep.scope([f.name])
            rep.check(True, "ALLOC-RANGE", "%s#%s@%s[%s%s]" % (f.name, call.callee, call.ln, s.ln, "" if via is None else "/" + s.fn.name),
                      "largest index %s < %s elements" % (pfmt(ip), pfmt(cnt)), "", s.loc, f.name)
        elif all(v >= 0 for v in over.values()):
            rep.scope([f.name])
            rep.check(False, "ALLOC-RANGE", "%s#%s[%s]%s" % (f.name, call.callee, pfmt(ip), "" if via is None else "/" + s.fn.name), "",
                      "the array allocated at %s has %s elements but the access at %s reaches index %s in the last iteration of its loop: one element past the block is %s"
                      % (call.loc, pfmt(cnt), where, pfmt(ip), "written" if s.op == "store" else "read"), s.loc if via is None else via.loc, f.name)
        else:
            si = {t for k in ip for t in k}; sc = {t for k in cnt for t in k}
            pn = {f.pname(k) for k in range(len(f.params))}
            if si and sc and not (si & sc) and si <= pn and sc <= pn and via is None and s.op == "store":
                # DIM-MIX: the loop runs over one dimension parameter, the array was sized with another one
                rep.scope([f.name])
                rep.check(False, "ALLOC-RANGE", "%s#%s[%s]/dim" % (f.name, call.callee, pfmt(ip)), "",
                          "the array allocated at %s is sized by %s but the loop that fills it at %s runs up to index %s - a different dimension of the problem: for %s > %s the "
                          "store leaves the block, for %s < %s the tail of the array is never written" % (call.loc, pfmt(cnt), s.loc, pfmt(ip), sorted(si)[0], sorted(sc)[0],
                                                                                                         sorted(si)[0], sorted(sc)[0]), s.loc, f.name)
            else:
                n_und += 1

    for f in mod.funcs.values():
        if not f.blocks or (sel is not None and not sel(f)):
            continue
        allocs = {}
        P = None
        for c in f.calls():
            if c.callee in _TYPED or c.callee == "superlu_malloc" or c.callee in W:
                allocs[c.i] = c
        if not allocs:
            continue
        P = _Poly(f)
        if f.name not in LIs:
            LIs[f.name] = _loop_info(f)
        LI = LIs[f.name]

        def count_of(call, esz_access):
            """element count polynomial of the allocation for an access with the given element size, or None"""
            if call.callee in W:
                g, wc, wes = W[call.callee]
                env = {g.pname(k): P.of(call.ops[k]) for k in range(min(len(g.params), len(call.ops)))}
                cnt = psubst(wc, env)
                es = wes
            else:
                cnt = P.of(call.ops[0])
                es = None if call.callee == "superlu_malloc" else (_TYPED[call.callee] or isz)
            if es is None:
                if not esz_access or any(v % esz_access for v in cnt.values()):
                    return None
                return {k: v // esz_access for k, v in cnt.items()}
            if esz_access != es:
                return None
            return cnt

        for s in f.insts():
            if s.op in ("load", "store"):
                addr = s.ops[0] if s.op == "load" else s.ops[1]
                dg = _direct_gep(f, addr)
                if not dg:
                    continue
                base, idx, g = dg
                call = _alloc_of(f, base)
                if call is None or call.i not in allocs:
                    continue
                cnt = count_of(call, _esize(f.otype(g.ops[0])))
                if cnt is None:
                    n_und += 1
                    continue
                r = _max_index(f, P, LI, s, idx)
                if r is None:
                    n_und += 1
                    continue
                decide(f, call, cnt, r[0], s)
            elif s.op == "call" and s.callee in CE:
                g = mod.funcs[s.callee]
                for k, lst in CE[s.callee].items():
                    if k >= len(s.ops):
                        continue
                    call = _alloc_of(f, s.ops[k])
                    if call is None or call.i not in allocs:
                        continue
                    env = {g.pname(j): P.of(s.ops[j]) for j in range(min(len(g.params), len(s.ops))) if not g.is_ptr(["a", j])}
                    for (ip, site, esz) in lst:
                        cnt = count_of(call, esz)
                        if cnt is None:
                            n_und += 1
                            continue
                        decide(f, call, cnt, psubst(ip, env), site, via=s)
    rep.note("ALLOC-RANGE: %d accesses discharged, %d left undecided (non-affine index, guarded, or symbols that do not occur in the allocation count); %d allocation wrappers "
             "discovered (%s), %d callees with parameter-extent summaries" % (n_ok, n_und, len(W), ", ".join(sorted(W)), len(CE)))


# ---------------------------------------------------------------------------------------------------------------------------------
# PREC-FAMILY: a routine of one precision calls the routines of its own precision family
# ---------------------------------------------------------------------------------------------------------------------------------
import re as _re

_COMPAT = {"s": "s", "d": "d", "c": "cs", "z": "zd"}


def _prec_of(mod, name):
    """(precision letter, template with '?') when the function is one of a set of precision twins present in the module"""
    for pat in (r"^(p)([sdcz])(.+)$", r"^(sp_)([sdcz])(.+)$", r"^(superlu_)([sdcz])(.+)$", r"^()([sdcz])(.+)$"):
        m = _re.match(pat, name)
        if not m:
            continue
        pre, p, rest = m.groups()
        twins = [pre + q + rest for q in "sdcz" if q != p]
        have = [t for t in twins if t in mod.funcs or t in mod.decls]
        if have:
            return p, pre + "?" + rest, have
    return None


def rule_precision_family(mod, rep, floor=300, sel=None):
    rep.rule("PREC-FAMILY", "a routine that is one of a set of precision twins (s/d/c/z variants of one name, all present in the library) calls, among routines that have precision "
             "twins themselves, only those of its own family: s calls s, d calls d, c calls c or s (real helpers), z calls z or d. A call into the other family (dlamch_ from "
             "slaqgs: the double-precision safe minimum underflows to 0 in float) compiles and passes every double-precision test", floor=floor)
    if not hasattr(mod, "decls"):
        mod.decls = set()
    n = 0
    for f in mod.funcs.values():
        if not f.blocks:
            continue
        pf = _prec_of(mod, f.name)
        if not pf or (sel is not None and not sel(f)):
            continue
        for c in f.calls():
            if not c.callee:
                continue
            pc = _prec_of(mod, c.callee)
            if not pc:
                continue
            n += 1
            ok = pc[0] in _COMPAT[pf[0]]
            rep.scope([f.name])
            rep.check(ok, "PREC-FAMILY", "%s->%s" % (f.name, c.callee), "same precision family",
                      "%s (precision '%s') calls %s (precision '%s'): the routine of the other precision family is used%s" % (
                          f.name, pf[0], c.callee, pc[0], "" if pc[1].replace("?", pf[0]) not in mod.funcs and pc[1].replace("?", pf[0]) not in mod.decls else
                          "; %s exists" % pc[1].replace("?", _COMPAT[pf[0]][-1] if pc[1].replace("?", pf[0]) not in mod.funcs else pf[0])), c.loc, f.name)


# ---------------------------------------------------------------------------------------------------------------------------------
# EQUED-LAST (C11): once A may have been scaled, the flag that says how is written by nobody but the routine that scaled it
# ---------------------------------------------------------------------------------------------------------------------------------
def rule_equed_last(mod, rep):
    rep.rule("EQUED-LAST", "p?gssvx: no store to *equed is reachable from the call of ?laqgs (the only routine that scales A, and the one that sets the flag accordingly): whatever "
             "happens afterwards - out of memory, a singular matrix, a workspace query - A and B stay scaled as the flag says, so a later 'tidying' store of NOEQUIL on a "
             "failure path makes the returned flag contradict the returned A and B. Stores inside helpers the driver owns are followed through EFF", floor=4)
    from .. import effects
    for prec, f in fam(mod, "p?gssvx"):
        rep.scope([f.name])
        kq = f.pindex("equed")
        calls = list(f.calls("%slaqgs" % prec))
        if not calls or kq is None:
            rep.brk("ANALYSIS-BROKEN EQUED-LAST: %s has no call of %slaqgs / no parameter equed" % (f.name, prec))
            continue
        R = f.reach(calls)
        bad = None
        for i in sorted(R):
            x = f.inst[i]
            if x.op == "store" and (("A", kq),) in f.addr_paths(x):
                bad = x
                break
            if x.op == "call" and x.callee in mod.funcs and mod.funcs[x.callee].blocks and x.callee != "%slaqgs" % prec:
                # a helper that receives equed itself
                for k, o in enumerate(x.ops):
                    if o == ["a", kq] and x.callee not in ("%sgsrfs" % prec,):
                        g = mod.funcs[x.callee]
                        if any(s.op == "store" and (("A", k),) in g.addr_paths(s) for s in g.insts()):
                            bad = x
                if bad:
                    break
        rep.check(bad is None, "EQUED-LAST", "%s#after-laqgs" % f.name, "no store to *equed after the apply step",
                  "*equed is overwritten at %s after ?laqgs may have scaled A: the returned flag no longer describes the returned A and B" % (bad.loc if bad else ""),
                  bad.loc if bad else f.file, f.name)


# ---------------------------------------------------------------------------------------------------------------------------------
# FREE-MODE (C17): what a release routine frees does not depend on the mode flags of the call
# ---------------------------------------------------------------------------------------------------------------------------------
_MODE_FIELDS = ("refact", "fact", "usepr", "trans", "lwork", "SymmetricMode", "PrintStat", "nprocs")


def rule_free_mode(mod, rep, floor=8):
    from ..ir import expr_loads
    rep.rule("FREE-MODE", "release routines (pxgstrf_finalize, Destroy_*, StatFree, p?gstrf_WorkFree, *_finalize): no call of superlu_free is (transitively) control dependent "
             "on a test of one of the option flags refact / fact / usepr / trans / lwork - these describe the most recent call, not which call allocated the arrays "
             "(p?gstrf_init(refact = YES) rewrites options->refact after the arrays were allocated under refact = NO), so a release guarded by them leaks in the documented "
             "factor - refactor - finalize sequence. Guards on the object itself (NULL tests, storage type tags) are allowed", floor=floor)
    for f in mod.funcs.values():
        if not f.blocks or not _re.search(r"finalize|^Destroy_|StatFree|WorkFree", f.name):
            continue
        frees = [c for c in f.calls() if c.callee in ("superlu_free",)]
        if not frees:
            continue
        cd = f.control_deps()
        for c in frees:
            seen = set(); work = [c.bb.id]; bad = None
            while work and bad is None:
                b = work.pop()
                for (cb, _e) in cd.get(b, ()):
                    if cb in seen:
                        continue
                    seen.add(cb); work.append(cb)
                    t = f.blocks[cb].insts[-1]
                    if t.op in ("br", "switch") and t.ops and t.ops[0][0] == "v":
                        for L in expr_loads(f, t.ops[0]):
                            for p in f.addr_paths(L):
                                if p and p[-1][0] == "f" and p[-1][2] in _MODE_FIELDS:
                                    bad = (t, p[-1][2])
            rep.scope([f.name])
            rep.check(bad is None, "FREE-MODE", "%s#free@%d" % (f.name, frees.index(c)), "release does not depend on an option flag",
                      "the release at %s is executed only under a test of options->%s (at %s): arrays allocated by an earlier call under another value of the flag are never freed"
                      % (c.loc, bad[1] if bad else "", bad[0].loc if bad else ""), c.loc, f.name)


# ---------------------------------------------------------------------------------------------------------------------------------
# STALE (C13): inside an iteration that updates X, nothing computed from X before the iteration is consumed
# ---------------------------------------------------------------------------------------------------------------------------------
def _arr_key(p):
    """array identity of an element path: the path without its trailing index step; None for scalars"""
    if p and p[-1] == ("i",):
        return p[:-1]
    return None


def _call_written_arrays(mod, E, f, c):
    from ..effects import EXT_WRITES
    out = set()
    name = c.callee or ""
    if name.startswith("llvm.dbg") or name.startswith("llvm.lifetime"):
        return out
    if name in mod.funcs and mod.funcs[name].blocks:
        idxs = [k for k in range(len(c.ops)) if E.writes_via_arg(name, k)]
    else:
        tab = EXT_WRITES.get(name, "default")
        idxs = range(len(c.ops)) if (tab == "default" or tab is None) else tab
    for k in idxs:
        if k >= len(c.ops) or not f.is_ptr(c.ops[k]):
            continue
        for p in f.paths(c.ops[k]):
            out.add(p[:-1] if p and p[-1] == ("i",) else p)
    return out


def rule_stale(mod, rep, pats=("?gsrfs",), floor=4):
    from .. import effects
    from ..ir import expr_insts
    rep.rule("STALE", "iterative refinement (?gsrfs): for every loop that (may) modify the solution array X - by a store, or through a callee that writes through the pointer it is given - "
             "an array W that is read inside the loop but not written inside it must not have been computed from X before the loop (its stores outside the loop have no data "
             "dependence on loads of X or on calls that receive a pointer into X): the componentwise backward error of the returned X is formed with |op(A)||X| + |B| of that X, "
             "not of the start vector", floor=floor)
    E = effects.get(mod)
    for pat in pats:
        for prec, f in fam(mod, pat):
            rep.scope([f.name])
            n = 0
            for h, body in f.loops():
                ins_in = [x for b in body for x in f.blocks[b].insts]
                written = set()
                for x in ins_in:
                    if x.op == "store":
                        for p in f.addr_paths(x):
                            k = _arr_key(p)
                            if k is not None:
                                written.add(k)
                    elif x.op == "call":
                        written |= _call_written_arrays(mod, E, f, x)
                kX = f.pindex("X")
                written_all = written
                written = {w for w in written if w and w[0] == ("A", kX)}       # the iterate itself: the solution array handed in by the caller
                if not written:
                    continue
                read = {}
                for x in ins_in:
                    if x.op == "load":
                        for p in f.addr_paths(x):
                            k = _arr_key(p)
                            if k is not None and k not in written_all and k[0][0] in ("A", "C"):
                                read.setdefault(k, x)
                for wk, rd in sorted(read.items(), key=lambda kv: kv[1].i):
                    # stores to W outside the loop
                    bad = None
                    for s in f.insts():
                        if s.op != "store" or s.bb.id in body:
                            continue
                        if not any(_arr_key(p) == wk for p in f.addr_paths(s)):
                            continue
                        for d in expr_insts(f, s.ops[0], through_loads=False, through_calls=True, limit=600):
                            srcs = set()
                            if d.op == "load":
                                srcs = {_arr_key(p) for p in f.addr_paths(d)}
                            elif d.op == "call":
                                for o in d.ops:
                                    if f.is_ptr(o):
                                        srcs |= {(p[:-1] if p and p[-1] == ("i",) else p) for p in f.paths(o)}
                            hit = [k for k in srcs if k in written and k != wk]
                            if hit:
                                bad = (s, d, hit[0])
                                break
                        if bad:
                            break
                    n += 1
                    key = "%s#loop@%s/%s" % (f.name, f.blocks[h].insts[0].ln, fmt_path(wk + (("i",),), f))
                    if bad:
                        rep.fail("STALE", "%s#%s" % (f.name, fmt_path(wk + (("i",),), f)),
                                 "%s is read at %s inside the loop that starts at %s and updates %s, but it is only computed before that loop (store at %s from %s): every iteration after "
                                 "the first consumes a value that belongs to the previous iterate" % (fmt_path(wk + (("i",),), f), rd.loc, f.blocks[h].insts[0].loc,
                                                                                                          fmt_path(bad[2] + (("i",),), f), bad[0].loc, bad[1].loc), rd.loc, f.name)
                    else:
                        rep.ok("STALE", key, "not derived from an array the loop modifies", rd.loc, f.name)
            if n == 0:
                rep.brk("ANALYSIS-BROKEN STALE: no loop of %s reads an array it does not write" % f.name)


# ---------------------------------------------------------------------------------------------------------------------------------
# PG-INV (C12): pivot growth compares column j of U with the column of A that became column j of A*Pc
# ---------------------------------------------------------------------------------------------------------------------------------
def rule_pivot_growth_column(mod, rep):
    from ..ir import expr_loads
    rep.rule("PG-INV", "?PivotGrowth: column j of the factors belongs to column inv(perm_c)(j) of A (perm_c[i] = j says that column i of A is column j of A*Pc). The extent "
             "Astore->colptr[c] .. colptr[c+1] read next to column j of U is therefore indexed by a value loaded from an inverse the routine builds itself (INV-FILL checks its "
             "construction), never by perm_c[j] itself - the two agree only for involutions such as the natural ordering the tests use", floor=4)
    for prec, f in fam(mod, "?PivotGrowth"):
        rep.scope([f.name])
        kA = f.pindex("A"); kp = f.pindex("perm_c")
        n = 0; bad = None
        for L in f.insts():
            if L.op != "load":
                continue
            ps = f.addr_paths(L)
            if not any(p and p[0] == ("A", kA) and path_has_field(p, "colptr") and p[-1] == ("i",) for p in ps):
                continue
            idx = gep_index(f, L.ops[0])
            if idx is None:
                continue
            n += 1
            for d in expr_loads(f, idx):
                if any(p and p[0] == ("A", kp) for p in f.addr_paths(d)):
                    bad = (L, d)
        if n == 0:
            rep.brk("ANALYSIS-BROKEN PG-INV: %s does not read A's column pointers" % f.name)
            continue
        rep.check(bad is None, "PG-INV", "%s#A-column" % f.name, "A's column is selected through the inverse of perm_c (%d extent reads)" % n,
                  "the column of A compared with column j of U is perm_c[j] (loaded at %s): that is where column j of A went, not the column that arrived at j" % (bad[1].loc if bad else ""),
                  bad[0].loc if bad else f.file, f.name)


# ---------------------------------------------------------------------------------------------------------------------------------
# QUICK-RET (C19): y / C is left untouched only when beta == 1 (or a dimension is zero)
# ---------------------------------------------------------------------------------------------------------------------------------
def rule_quick_return(mod, rep, floor=8):
    from .. import effects
    from ..ir import expr_insts
    E = effects.get(mod)
    rep.rule("QUICK-RET", "sp_?gemv / sp_?gemm compute y := alpha*op(A)*x + beta*y: a normal return that is reached without any write to the output operand (a store rooted at "
             "y / c, or a call that writes through a pointer into it; a loop that contains such a write counts as the write, its trip count being a dimension) must lie behind an "
             "edge on which a floating comparison that involves beta holds with equality, or behind a test of an integer dimension against zero, or behind the error handler: "
             "with alpha == 0 alone the result is beta*y, not y", floor=floor)
    for pat, outp in (("sp_?gemv", "y"), ("sp_?gemm", "c")):
        for prec, f in fam(mod, pat):
            rep.scope([f.name])
            ko = f.pindex(outp)
            if ko is None:
                rep.brk("ANALYSIS-BROKEN QUICK-RET: %s has no parameter %s" % (f.name, outp))
                continue
            # beta is the C parameter in front of the output operand; a by-value complex is coerced into one or two unnamed IR arguments with the same C position
            beta_args = {k for k in range(len(f.params)) if f.cpos[k] == f.cpos[ko] - 1}
            if not beta_args or not all(f.pname(k) in ("beta", "") for k in beta_args):
                rep.brk("ANALYSIS-BROKEN QUICK-RET: %s: the parameter in front of %s is not beta" % (f.name, outp))
                continue
            writes = set()
            for x in f.insts():
                if x.op == "store" and any(p and p[0] == ("A", ko) and len(p) > 1 for p in f.addr_paths(x)):
                    writes.add(x.i)
                elif x.op == "call" and x.callee and not x.callee.startswith("llvm.dbg"):
                    for k, o in enumerate(x.ops):
                        if f.is_ptr(o) and any(p and p[0] == ("A", ko) for p in f.paths(o)):
                            if x.callee in mod.funcs and mod.funcs[x.callee].blocks:
                                if E.writes_via_arg(x.callee, k):
                                    writes.add(x.i)
                            else:
                                writes.add(x.i)
            if not writes:
                rep.brk("ANALYSIS-BROKEN QUICK-RET: %s never writes %s" % (f.name, outp))
                continue
            hdr_stop = set()
            for h, body in f.loops():
                if any(f.inst[w].bb.id in body for w in writes):
                    hdr_stop.add(f.blocks[h].insts[0].i)
            # the local copy of beta (address-taken by-value parameter): allocas that receive a beta argument
            beta_cells = set()
            for x in f.insts():
                if x.op == "store":
                    src = strip_casts(f, x.ops[0])
                    if src[0] == "a" and src[1] in beta_args:
                        for p in f.addr_paths(x):
                            if p and p[0][0] == "L":
                                beta_cells.add(p[0])

            def involves_beta(o):
                for d in expr_insts(f, o, through_loads=False, through_calls=False, limit=200):
                    if d.op == "load" and any(p and (p[0] in beta_cells or (p[0][0] == "A" and p[0][1] in beta_args)) for p in f.addr_paths(d)):
                        return True
                    for y in d.ops if d.ops else ():
                        if y and y[0] == "a" and y[1] in beta_args:
                            return True
                so = strip_casts(f, o)
                return so[0] == "a" and so[1] in beta_args

            dead = set()
            for b in f.blocks:
                t = b.insts[-1]
                if t.op != "br" or not t.ops or t.ops[0][0] != "v" or len(t.tgt) < 2:
                    continue
                c = f.inst[t.ops[0][1]]
                if c.op == "fcmp" and (involves_beta(c.ops[0]) or involves_beta(c.ops[1])):
                    if c.pred in ("oeq", "ueq"):
                        dead.add((b.id, t.tgt[0]))
                    elif c.pred in ("one", "une"):
                        dead.add((b.id, t.tgt[1]))
                elif c.op == "icmp" and c.pred in ("eq", "ne", "sle", "slt", "sgt", "sge"):
                    a0, a1 = strip_casts(f, c.ops[0]), strip_casts(f, c.ops[1])
                    zero = (is_const(a1, 0) or is_const(a0, 0))
                    if zero and c.pred == "eq":
                        dead.add((b.id, t.tgt[0]))
                    elif zero and c.pred == "ne":
                        dead.add((b.id, t.tgt[1]))
                    elif zero and c.pred in ("sle", "slt") and is_const(a1, 0):
                        dead.add((b.id, t.tgt[0]))

            def stop(x):
                return x.i in writes or x.i in hdr_stop or (x.op == "call" and x.callee in ("xerbla_", "superlu_abort_and_exit"))
            ent = f.blocks[0].insts[0]
            R = f.reach([ent], stop=stop, dead_edges=dead, include_start=True)
            bad = [f.inst[i] for i in R if f.inst[i].op == "ret"]
            rep.check(not bad, "QUICK-RET", "%s#untouched-%s" % (f.name, outp), "every write-free return lies behind beta == 1, a zero dimension or the error handler",
                      "the return at %s is reachable without any write to %s on a path that tests neither beta for equality nor a dimension for zero: %s := beta*%s is skipped "
                      "(e.g. alpha == 0 with beta != 1)" % (bad[0].loc if bad else "", outp, outp, outp), bad[0].loc if bad else f.file, f.name)


# ---------------------------------------------------------------------------------------------------------------------------------
# P-COLUMN (C02 C08): every magnitude the pivot policy looks at is an entry of the current column
# ---------------------------------------------------------------------------------------------------------------------------------
def _vsig(f, o, depth=0):
    """index-sensitive structural signature of an integer value (loads are named by their array AND the signature of their index)"""
    o = strip_casts(f, o)
    if o[0] == "c":
        return ("c", o[1])
    if o[0] == "a":
        return ("a", o[1])
    if o[0] != "v" or depth > 8:
        return tuple(o[:2])
    x = f.inst[o[1]]
    if x.op in ("add", "sub", "mul"):
        a, b = _vsig(f, x.ops[0], depth + 1), _vsig(f, x.ops[1], depth + 1)
        if x.op != "sub" and repr(b) < repr(a):
            a, b = b, a
        return (x.op, a, b)
    if x.op == "load":
        gi = gep_index(f, x.ops[0])
        return ("ld", tuple(sorted(fmt_path(p) for p in f.addr_paths(x))), _vsig(f, gi, depth + 1) if gi is not None else None)
    return ("v", x.i)


def rule_pivot_column(mod, rep):
    from .pivot import _absval_of
    rep.rule("P-COLUMN", "p?gstrf_pivotL: every |x| that is compared (column maximum, threshold test of the diagonal, threshold test of the recorded row under usepr) is an element "
             "of one and the same column of the supernode: the element addresses have the same base - the same SSA pointer, or the same array with the same offset polynomial "
             "(lusup + xlusup[jcol]); a magnitude taken from the supernode's first column (lusup + xlusup[fsupc]) at the same row position passes or fails the threshold "
             "for the wrong number", floor=4)
    for prec, f in fam(mod, "p?gstrf_pivotL"):
        rep.scope([f.name])
        P = _Poly(f)
        sigs = {}
        for c in f.insts():
            if c.op != "fcmp":
                continue
            for o in c.ops:
                av = _absval_of(f, o)
                if not av or av[0] is None:
                    continue
                x = av[1]
                addr = x.ops[0] if x.op == "load" else ["v", x.i]
                dg = _direct_gep(f, addr)
                if not dg:
                    continue
                base = strip_casts(f, dg[0])
                sig = ("ssa",) + tuple(base[:2])
                if base[0] == "v" and f.inst[base[1]].op == "getelementptr":
                    g2 = _direct_gep(f, base)
                    if g2:
                        sig = ("gep", tuple(sorted(fmt_path(p) for p in f.paths(g2[0]))), _vsig(f, g2[1]))
                sigs.setdefault(sig, []).append(x)
        if not sigs:
            rep.brk("ANALYSIS-BROKEN P-COLUMN: no compared magnitude found in %s" % f.name)
            continue
        if len(sigs) == 1:
            rep.ok("P-COLUMN", "%s#magnitudes" % f.name, "%d compared magnitudes, one column base" % sum(len(v) for v in sigs.values()), f.file, f.name)
        else:
            major = max(sigs.values(), key=len)
            odd = [x for v in sigs.values() if v is not major for x in v]
            rep.fail("P-COLUMN", "%s#magnitudes" % f.name, "the magnitude compared at %s is read relative to a different base than the %d other candidates of the column "
                     "(another column of the supernode): the pivot policy is applied to the wrong number" % (odd[0].loc, len(major)), odd[0].loc, f.name)


# ---------------------------------------------------------------------------------------------------------------------------------
# SNODE-LD (C07 C19 C12): inside a supernode of L the distance between two columns is the supernode's row count
# ---------------------------------------------------------------------------------------------------------------------------------
def _poly_init(f, P, o, depth=0):
    """polynomial of an index value where loop-carried phis are replaced by the value they enter the loop with (the start of a cursor)"""
    o = strip_casts(f, o)
    if o[0] == "v" and depth < 6:
        x = f.inst[o[1]]
        if x.op == "phi":
            loops = dict(f.loops())
            body = loops.get(x.bb.id)
            if body is not None:
                init = [v for v, b in zip(x.ops, x.inb) if b not in body]
                if len(init) == 1:
                    return _poly_init(f, P, init[0], depth + 1)
    return P.of(o)      # below the cursor itself nothing is substituted: (jcol - fsupc) * stride keeps its product


def _cursor_starts(f, P, o):
    """polynomials of the values a cursor starts from: the index itself, the entry value of a loop-carried phi, or - for a scalar kept in an address-taken local -
    every value stored to it that is not an update of the local itself"""
    from ..ir import expr_loads
    o = strip_casts(f, o)
    if o[0] == "v" and f.inst[o[1]].op == "load":
        L = f.inst[o[1]]
        aps = f.addr_paths(L)
        if aps and all(len(p) == 1 and p[0][0] == "L" for p in aps):
            outs = []
            for st in f.insts():
                if st.op == "store" and f.addr_paths(st) == aps:
                    if any(f.addr_paths(d) == aps for d in expr_loads(f, st.ops[0])):
                        continue        # i++ / i += k
                    outs.append(P.of(st.ops[0]))
            if outs:
                return outs
    return [_poly_init(f, P, o)]


def rule_snode_ld(mod, rep, pats=("sp_?trsv", "?gstrs", "?PivotGrowth"), floor=4):
    rep.rule("SNODE-LD", "solve kernels: a supernode of L is stored as a dense block with leading dimension nsupr = rowind_colend[fsupc] - rowind_colptr[fsupc]. Whenever the "
             "index of an access to L's values (or the start of a cursor into them) contains a product - a column offset times a stride - the stride is made of those two "
             "extents; a product with the column count (xsup) addresses the right entry only in the supernode's first column. Accesses without a product (per-column "
             "nzval_colptr cursors) are not concerned", floor=floor)
    for pat in pats:
        for prec, f in fam(mod, pat):
            rep.scope([f.name])
            P = _Poly(f)
            n = 0; bad = None
            # scalars kept in address-taken locals (nsupr goes to BLAS by reference): a local all of whose stores are row extents is a row extent
            rowext = set()
            by_cell = {}
            for st in f.insts():
                if st.op == "store":
                    aps = f.addr_paths(st)
                    if aps and all(len(p_) == 1 and p_[0][0] == "L" for p_ in aps):
                        by_cell.setdefault(aps, []).append(st)
            for aps, sts in by_cell.items():
                polys = [P.of(st.ops[0]) for st in sts]
                if polys and all(pl and all(k and all("rowind_col" in t for t in k) for k in pl) for pl in polys):
                    rowext.add("ld:" + "|".join(sorted(fmt_path(p_) for p_ in aps)))
            for x in f.insts():
                if x.op != "getelementptr":
                    continue
                ps = f.paths(["v", x.i])
                if not any(p and p[-1] == ("i",) and len(p) >= 3 and p[-2] == ("*",) and p[-3][0] == "f" and p[-3][1] == "SCPformat" and p[-3][2] == "nzval" for p in ps):
                    continue
                idxs = [st["v"] for st in x.gep if st["k"] == "idx"]
                if len(idxs) != 1:
                    continue
                n += 1
                for poly in _cursor_starts(f, P, idxs[0]):
                    for mono, co in poly.items():
                        if len(mono) >= 2 and not any("rowind_col" in t or t in rowext for t in mono):
                            bad = (x, mono)
            if n == 0:
                if pat == "?PivotGrowth" or pat == "?gstrs":
                    continue
                rep.brk("ANALYSIS-BROKEN SNODE-LD: %s has no access to L's values" % f.name)
                continue
            rep.check(bad is None, "SNODE-LD", "%s#Lval" % f.name, "%d accesses to L's values: every column stride is the row count of the supernode" % n,
                      "the access at %s addresses L's values with the product %s, which is not the row count nsupr of the supernode: inside the supernode, columns after the first "
                      "are read at the wrong place" % (bad[0].loc if bad else "", "*".join(bad[1]) if bad else ""), bad[0].loc if bad else f.file, f.name)


# ---------------------------------------------------------------------------------------------------------------------------------
# LUSUP-STATIC (C05): in the static scheme the supernode storage is allocated with the predicted bound, unreduced
# ---------------------------------------------------------------------------------------------------------------------------------
def rule_lusup_static(mod, rep):
    rep.rule("LUSUP-STATIC", "p?gstrf_MemInit, static scheme (Glu->dynamic_snode_bound != YES): ?PresetMap has laid out every supernode inside Glu->nzlumax values and "
             "Glu_alloc(LUSUP) performs no capacity test in this scheme, so the count handed to p?gstrf_expand(.., LUSUP, ..) is the loaded Glu->nzlumax itself: every "
             "definition of the count that reaches the call along edges that are feasible for dynamic_snode_bound = NO is that load (a tunable estimate such as "
             "sp_ienv(6)*nnz(A), or the smaller of the two, lets supernodes whose slot lies beyond it be written outside lusup[] with info = 0)", floor=4)
    e = mod.enums
    for prec, f in fam(mod, "p?gstrf_MemInit"):
        rep.scope([f.name])
        calls = [c for c in f.calls("p%sgstrf_expand" % prec) if len(c.ops) > 1 and is_const(strip_casts(f, c.ops[1]), e["LUSUP"])]
        if not calls:
            rep.brk("ANALYSIS-BROKEN LUSUP-STATIC: %s has no p?gstrf_expand(.., LUSUP, ..) call" % f.name)
            continue
        first = min(calls, key=lambda c: c.i)
        cell = f.paths(first.ops[0])
        if not cell or not all(len(p) == 1 and p[0][0] == "L" for p in cell):
            rep.brk("ANALYSIS-BROKEN LUSUP-STATIC: the count of the LUSUP request in %s is not a local cell" % f.name)
            continue
        dead = set()
        for b in f.blocks:
            t = b.insts[-1]
            if t.op != "br" or not t.ops or t.ops[0][0] != "v" or len(t.tgt) < 2:
                continue
            c = f.inst[t.ops[0][1]]
            if c.op != "icmp" or c.pred not in ("eq", "ne"):
                continue
            for k in (0, 1):
                a = strip_casts(f, c.ops[k]); o = strip_casts(f, c.ops[1 - k])
                if a[0] == "v" and f.inst[a[1]].op == "load" and any(p and p[-1][0] == "f" and p[-1][2] == "dynamic_snode_bound" for p in f.addr_paths(f.inst[a[1]])) and o[0] == "c":
                    val = (e["NO"] == o[1]) if c.pred == "eq" else (e["NO"] != o[1])
                    dead.add((b.id, t.tgt[1] if val else t.tgt[0]))
        stores = [s for s in f.insts() if s.op == "store" and f.addr_paths(s) == cell]
        bad = None; n = 0
        for s in stores:
            R = f.reach([s], stop=lambda x: x.op == "store" and f.addr_paths(x) == cell, dead_edges=dead)
            if first.i not in R:
                continue
            # is the store itself on a path that is live for the static scheme?
            R0 = f.reach([f.blocks[0].insts[0]], dead_edges=dead, include_start=True)
            if s.i not in R0:
                continue
            n += 1
            v = strip_casts(f, s.ops[0])
            ok = v[0] == "v" and f.inst[v[1]].op == "load" and any(p and p[-1][0] == "f" and p[-1][2] == "nzlumax" for p in f.addr_paths(f.inst[v[1]]))
            if not ok:
                bad = s
        if n == 0:
            rep.brk("ANALYSIS-BROKEN LUSUP-STATIC: no definition of the LUSUP count reaches the request in %s" % f.name)
            continue
        rep.check(bad is None, "LUSUP-STATIC", "%s#lusup-count" % f.name, "%d reaching definition(s), all the preset bound" % n,
                  "in the static scheme the value stored at %s reaches the LUSUP request at %s and is not the preset bound Glu->nzlumax: supernode slots beyond it lie outside lusup[]"
                  % (bad.loc if bad else "", first.loc), bad.loc if bad else f.file, f.name)


# ---------------------------------------------------------------------------------------------------------------------------------
# OPT-INIT (C18): the simple driver's option block is an uninitialised automatic: p?gstrf_init defines every field that is read
# ---------------------------------------------------------------------------------------------------------------------------------
def rule_options_init(mod, rep):
    rep.rule("OPT-INIT", "p?gssv hands an uninitialised automatic superlumt_options_t to p?gstrf_init: every field of that structure that any routine reachable from p?gssv reads "
             "is stored by p?gstrf_init on every path to its return (or by p?gssv itself before the first use) - a field left to the caller keeps whatever earlier calls left "
             "at that stack address, and the result of a first-time call then depends on the call history", floor=40)
    for prec, f in fam(mod, "p?gssv"):
        rep.scope([f.name])
        init = mod.funcs.get("p%sgstrf_init" % prec)
        if init is None:
            rep.brk("ANALYSIS-BROKEN OPT-INIT: p%sgstrf_init not found" % prec)
            continue
        ko = init.pindex("superlumt_options")
        # must-written fields of init: with the branches on init's own by-value parameters decided by the constants p?gssv passes (refact = NO), no return is reachable
        # from the entry without passing a store to the field
        call = [c for c in f.calls(init.name)]
        dead = set()
        if call:
            cargs = {k: strip_casts(f, o) for k, o in enumerate(call[0].ops)}
            for b in init.blocks:
                t = b.insts[-1]
                if t.op != "br" or not t.ops or t.ops[0][0] != "v" or len(t.tgt) < 2:
                    continue
                c = init.inst[t.ops[0][1]]
                if c.op != "icmp" or c.pred not in ("eq", "ne"):
                    continue
                for k in (0, 1):
                    a = strip_casts(init, c.ops[k]); o = strip_casts(init, c.ops[1 - k])
                    if a[0] == "a" and o[0] == "c" and a[1] in cargs and cargs[a[1]][0] == "c":
                        val = (cargs[a[1]][1] == o[1]) if c.pred == "eq" else (cargs[a[1]][1] != o[1])
                        dead.add((b.id, t.tgt[1] if val else t.tgt[0]))
        fields = {}
        for s in init.insts():
            if s.op != "store":
                continue
            for p in init.addr_paths(s):
                if len(p) == 2 and p[0] == ("A", ko) and p[1][0] == "f" and p[1][1] == "superlumt_options_t":
                    fields.setdefault(p[1][2], set()).add(s.i)
        # a field whose address is handed to a helper that writes through it (init_int_array(&options->etree, ..)): the call is the store site
        from .. import effects as _eff
        E = _eff.get(mod)
        for c in init.insts():
            if c.op != "call" or not c.callee or c.callee not in mod.funcs:
                continue
            for k, o in enumerate(c.ops):
                if not init.is_ptr(o):
                    continue
                for p in init.paths(o):
                    if len(p) == 2 and p[0] == ("A", ko) and p[1][0] == "f" and p[1][1] == "superlumt_options_t" and any(len(suf) == 0 for suf in E.writes_via_arg(c.callee, k)):
                        fields.setdefault(p[1][2], set()).add(c.i)
        must = set()
        for fld, sts in fields.items():
            R = init.reach([init.blocks[0].insts[0]], stop=lambda x, sts=sts: x.i in sts, dead_edges=dead, include_start=True)
            if not any(init.inst[i].op == "ret" for i in R):
                must.add(fld)
        for s in f.insts():
            if s.op == "store":
                for p in f.addr_paths(s):
                    if len(p) == 2 and p[0][0] == "L" and p[1][0] == "f" and p[1][1] == "superlumt_options_t":
                        must.add(p[1][2])
        # fields read anywhere below p?gssv
        reach = mod.transitive_callees([f.name])
        read = {}
        for gn in sorted(reach | {f.name}):
            g = mod.funcs.get(gn)
            if g is None or not g.blocks:
                continue
            for L in g.insts():
                if L.op != "load":
                    continue
                for p in g.addr_paths(L):
                    if len(p) >= 2 and p[-1][0] == "f" and p[-1][1] == "superlumt_options_t":
                        read.setdefault(p[-1][2], L)
        if not read:
            rep.brk("ANALYSIS-BROKEN OPT-INIT: no read of an option field below %s" % f.name)
            continue
        for fld, L in sorted(read.items()):
            rep.check(fld in must, "OPT-INIT", "%s#%s" % (f.name, fld), "options->%s is defined by p?gstrf_init / the driver" % fld,
                      "options->%s is read at %s (%s) but neither p%sgstrf_init (on every path) nor %s stores it: the simple driver passes an uninitialised automatic structure, so the "
                      "value is whatever an earlier call left on the stack" % (fld, L.loc, L.fn.name, prec, f.name), L.loc, f.name)


# ---------------------------------------------------------------------------------------------------------------------------------
# SNODE-BND (C16 C05): a supernode of L never extends across a boundary of the predicted partition
# ---------------------------------------------------------------------------------------------------------------------------------
def rule_snode_boundary(mod, rep):
    rep.rule("SNODE-BND", "p?gstrf_column_dfs: the column joins the previous supernode only if super_bnd[jcol] == 0 - the routine contains a test of the loaded super_bnd[jcol] "
             "against 0, and the code that opens a new supernode (the call of NewNsuper) is reachable from its non-zero edge without passing the test again. ?PresetMap reserves "
             "storage per supernode of the predicted partition (in symmetric mode: the fundamental supernodes of chol(A'+A), which is NOT coarser than L's T2 supernodes), so a "
             "supernode that runs across a boundary is stored with the wrong leading dimension and overlaps its neighbour", floor=4)
    for prec, f in fam(mod, "p?gstrf_column_dfs"):
        rep.scope([f.name])
        kb = f.pindex("super_bnd"); kj = f.pindex("jcol")
        news = [c for c in f.calls("NewNsuper")]
        tests = []
        for b in f.blocks:
            t = b.insts[-1]
            if t.op != "br" or not t.ops or t.ops[0][0] != "v" or len(t.tgt) < 2:
                continue
            c = f.inst[t.ops[0][1]]
            if c.op != "icmp" or c.pred not in ("eq", "ne"):
                continue
            for k in (0, 1):
                a = strip_casts(f, c.ops[k]); o = strip_casts(f, c.ops[1 - k])
                if a[0] == "v" and f.inst[a[1]].op == "load" and is_const(o, 0):
                    L = f.inst[a[1]]
                    if any(p == (("A", kb), ("i",)) for p in f.addr_paths(L)) and same_val(gep_index(f, L.ops[0]), ["a", kj]):
                        tests.append((t, c, t.tgt[0] if c.pred == "ne" else t.tgt[1]))
        ok = False
        if tests and news:
            for (t, c, nz) in tests:
                R = f.reach([f.blocks[nz].insts[0]], include_start=True)
                if any(n.i in R for n in news):
                    ok = True
        if kb is None or not news:
            rep.brk("ANALYSIS-BROKEN SNODE-BND: %s has no parameter super_bnd / no NewNsuper call" % f.name)
            continue
        rep.check(ok, "SNODE-BND", "%s#super_bnd" % f.name, "a boundary of the predicted partition starts a new supernode",
                  "super_bnd[jcol] is not tested (or its non-zero edge does not lead to a new supernode): L's supernodes may run across the boundaries ?PresetMap reserved storage for",
                  f.file, f.name)


# ---------------------------------------------------------------------------------------------------------------------------------
# FB-FRESH (C03): the busy chain recorded for a parent panel is the one of the child taken last
# ---------------------------------------------------------------------------------------------------------------------------------
def rule_fb_fresh(mod, rep):
    from ..ir import expr_loads
    rep.rule("FB-FRESH", "pxgstrf_scheduler: fb_cols[dad] (the farthest busy descendant the thread that later takes dad has to wait for) is overwritten by every child that "
             "passes it on: no store to fb_cols[] is control dependent on a comparison that reads fb_cols[] (a 'keep the smaller one' merge keeps the column of a sibling that "
             "finished long ago; walking up from that DONE column reaches dad itself, the thread waits for nothing and factors its panel without the updates of the still-busy "
             "chain)", floor=1)
    f = mod.funcs.get("pxgstrf_scheduler")
    if f is None:
        rep.brk("ANALYSIS-BROKEN FB-FRESH: pxgstrf_scheduler not found")
        return
    rep.scope([f.name])
    helpers = [f]
    from .ext import _owned_helpers
    for (h, call_, g_) in _owned_helpers(mod, f):
        helpers.append(h)
    n = 0
    for g in helpers:
        cd = g.control_deps()
        for s in g.insts():
            if s.op != "store" or not any(p and p[-1] == ("i",) and any(st[0] == "f" and st[2] == "fb_cols" for st in p) for p in g.addr_paths(s)):
                continue
            n += 1
            bad = None
            seen = set(); work = [s.bb.id]
            while work and bad is None:
                b = work.pop()
                for (cb, _e) in cd.get(b, ()):
                    if cb in seen:
                        continue
                    seen.add(cb); work.append(cb)
                    t = g.blocks[cb].insts[-1]
                    if t.op == "br" and t.ops and t.ops[0][0] == "v":
                        for L in expr_loads(g, t.ops[0]):
                            if any(p and p[-1] == ("i",) and any(st[0] == "f" and st[2] == "fb_cols" for st in p) for p in g.addr_paths(L)):
                                bad = t
            rep.check(bad is None, "FB-FRESH", "%s#fb_cols@%d" % (g.name, n), "the record is overwritten unconditionally",
                      "the store to fb_cols[] at %s is executed only under a comparison with the value already recorded (%s): a stale record of a finished sibling survives" % (
                          s.loc, bad.loc if bad else ""), s.loc, g.name)
    if n == 0:
        rep.brk("ANALYSIS-BROKEN FB-FRESH: no store to fb_cols[] in the scheduler")


# ---------------------------------------------------------------------------------------------------------------------------------
# ARG-LD (C15): the leading-dimension test of a dense argument is not weakened by a conjunct
# ---------------------------------------------------------------------------------------------------------------------------------
def rule_arg_ld(mod, rep, floor=12):
    rep.rule("ARG-LD", "argument prologues: the comparison of a dense matrix's leading dimension (DNformat.lda) with the row count is evaluated whenever the tests before it "
             "found no error: every branch the comparison is immediately control dependent on leaves, on its other edge, to a store of a negative code into *info (it is an "
             "earlier alternative of the same `||` or an earlier `else if`), never to the error-free continuation - `nrhs > 1 && ldb < n` accepts an undersized single "
             "column that the kernels then address with that stride", floor=floor)
    n = 0
    for f in mod.funcs.values():
        if not f.blocks:
            continue
        ki = f.pindex("info")
        if ki is None:
            continue
        cd = None
        for c in f.insts():
            if c.op != "icmp" or c.pred not in ("slt", "sgt", "sle", "sge"):
                continue
            ld = None
            for o in c.ops:
                o = strip_casts(f, o)
                if o[0] == "v" and f.inst[o[1]].op == "load":
                    L0 = f.inst[o[1]]
                    aps = f.addr_paths(L0)
                    if aps and all(len(p) == 1 and p[0][0] == "L" for p in aps):
                        # a copy kept in an address-taken local (its address goes to BLAS): follow the unique store
                        sts = [s2 for s2 in f.insts() if s2.op == "store" and f.addr_paths(s2) == aps]
                        if len(sts) == 1:
                            v = strip_casts(f, sts[0].ops[0])
                            if v[0] == "v" and f.inst[v[1]].op == "load":
                                L0 = f.inst[v[1]]
                    if any(p and p[-1][0] == "f" and p[-1][2] == "lda" and p[0][0] == "A" for p in f.addr_paths(L0)):
                        ld = L0
            if ld is None:
                continue
            # it must be an argument test: one edge of the branch on it reaches a negative store to *info
            def neg_store_block(bid, depth=0):
                b = f.blocks[bid]
                for x in b.insts:
                    if x.op == "store" and (("A", ki),) in f.addr_paths(x):
                        v = strip_casts(f, x.ops[0])
                        return v[0] == "c" and v[1] < 0
                t = b.insts[-1]
                if t.op == "br" and (not t.ops or t.ops[0][0] != "v") and t.tgt and depth < 3:
                    return neg_store_block(t.tgt[0], depth + 1)
                return False
            t = c.bb.insts[-1]
            if not (t.op == "br" and t.ops and t.ops[0] == ["v", c.i] and len(t.tgt) == 2):
                continue
            if not (neg_store_block(t.tgt[0]) or neg_store_block(t.tgt[1])):
                continue
            cd = f.control_deps()
            n += 1
            bad = None
            for (cb, succ) in cd.get(c.bb.id, ()):
                tb = f.blocks[cb].insts[-1]
                if tb.op != "br" or len(tb.tgt or ()) != 2:
                    continue
                other = tb.tgt[1] if tb.tgt[0] == succ else tb.tgt[0]
                if other == succ:
                    continue
                # the select diamond of SUPERLU_MAX(0, n) sits in front of the comparison: both arms lead here, none leaves the routine
                R = f.reach([f.blocks[other].insts[0]], include_start=True, stop=lambda x: x.bb.id == c.bb.id)
                if c.bb.insts[0].i in R and not any(f.inst[i].op == "ret" for i in R):
                    continue
                if not neg_store_block(other):
                    bad = tb
            rep.scope([f.name])
            rep.check(bad is None, "ARG-LD", "%s#lda@%s" % (f.name, fmt_path(sorted(f.addr_paths(ld))[0], f)), "the leading-dimension test is reached whenever the earlier tests pass",
                      "the leading-dimension test at %s is only evaluated under the condition at %s, whose other edge continues without an error code: an undersized leading "
                      "dimension is accepted there" % (c.loc, bad.loc if bad else ""), c.loc, f.name)


# ---------------------------------------------------------------------------------------------------------------------------------
# ETREE-SCAN (C10 C16): the elimination-tree builders look at every entry of every column
# ---------------------------------------------------------------------------------------------------------------------------------
def rule_etree_scan(mod, rep, names=("sp_coletree", "sp_symetree"), floor=6):
    rep.rule("ETREE-SCAN", "sp_coletree / sp_symetree: every counted loop (over the columns, and over the entries acolst[col] .. acolend[col] of one column) is left only "
             "through its own loop test: Liu's algorithm links the current column with the subtree of EVERY earlier row/column that appears in it; entries are not sorted by "
             "first column, so leaving the scan at the first entry that needs no link (break instead of continue) misses links whenever a 'new' row is stored before an "
             "'old' one (any non-natural ordering)", floor=floor)
    for nm in names:
        f = mod.funcs.get(nm)
        if f is None or not f.blocks:
            rep.brk("ANALYSIS-BROKEN ETREE-SCAN: %s not found" % nm)
            continue
        rep.scope([f.name])
        n = 0
        for h, body in f.loops():
            lb = loop_bound(f, h, body)
            if not lb or lb[0].bb.id != h:
                continue
            # counted: the induction phi advances by one
            n += 1
            exits = [(b, s.id) for b in body for s in f.blocks[b].succ if s.id not in body]
            extra = [(b, s) for (b, s) in exits if b != h]
            rets = [i for b in body for i in f.blocks[b].insts if i.op == "ret"]
            where = f.blocks[extra[0][0]].insts[-1].loc if extra else (rets[0].loc if rets else "")
            rep.check(not extra and not rets, "ETREE-SCAN", "%s#loop@%d" % (f.name, n), "single exit through the loop test",
                      "the scan can be left early (break/return at %s): the remaining entries of the column are never linked into the tree" % where, f.blocks[h].insts[0].loc, f.name)
        if n == 0:
            rep.brk("ANALYSIS-BROKEN ETREE-SCAN: no counted loop in %s" % nm)


# ---------------------------------------------------------------------------------------------------------------------------------
# ORDER-STEP (C10): COLAMD reserves as many order positions for a column as that column is thick
# ---------------------------------------------------------------------------------------------------------------------------------
def rule_order_step(mod, rep, names=("find_ordering",)):
    rep.rule("ORDER-STEP", "colamd find_ordering(): after `Col[c].shared2.order = k` the order counter advances by the thickness of that very column: the value added to the "
             "stored k (the update that feeds the counter of the next column) is loaded from Col[c].shared1 with the same index c - a thickness left over in a local from an "
             "earlier loop reserves the wrong number of positions whenever super-columns of different sizes meet, and the returned permutation has duplicates and holes", floor=1)
    for nm in names:
        f = mod.funcs.get(nm) or mod.funcs.get(nm.replace("find_ordering", "find_ordering_l"))
        if f is None or not f.blocks:
            rep.brk("ANALYSIS-BROKEN ORDER-STEP: %s not found" % nm)
            continue
        rep.scope([f.name])
        n = 0
        for s in f.insts():
            if s.op != "store" or not any(len(p) == 3 and p[1] == ("i",) and p[2][0] == "f" and p[2][2] == "shared2" and "Col" in p[2][1] for p in f.addr_paths(s)):
                continue
            k = strip_casts(f, s.ops[0])
            if k[0] != "v" or f.inst[k[1]].op != "phi":
                continue            # only stores of the running order counter (a loop-carried value)
            col = gep_index_first(f, s.ops[1])
            # the update of k in the same block
            upd = [x for x in s.bb.insts if x.op == "add" and any(same_val(strip_casts(f, o), k) for o in x.ops)]
            if not upd:
                continue
            n += 1
            x = upd[0]
            other = [o for o in x.ops if not same_val(strip_casts(f, o), k)]
            ok = False
            if other:
                o = strip_casts(f, other[0])
                if o[0] == "v" and f.inst[o[1]].op == "load":
                    L = f.inst[o[1]]
                    if any(len(p) == 3 and p[2][0] == "f" and p[2][2] == "shared1" for p in f.addr_paths(L)) and same_val(gep_index_first(f, L.ops[0]), col):
                        ok = True
                elif o[0] == "c" and o[1] == 1:
                    ok = True       # a column known to be of thickness one
            rep.check(ok, "ORDER-STEP", "%s#order@%d" % (f.name, n), "k advances by the thickness of the column just ordered",
                      "after Col[c].shared2.order = k at %s the counter advances by a value that is not Col[c].shared1.thickness of the same column c" % s.loc, x.loc, f.name)
        if n == 0:
            rep.brk("ANALYSIS-BROKEN ORDER-STEP: no `order = k; k += thickness` site found in %s" % f.name)


def gep_index_first(f, addr):
    """the first non-constant index of the GEP chain producing this address (the array subscript of Col[c].field)"""
    o = addr
    found = None
    while o[0] == "v":
        ins = f.inst[o[1]]
        if ins.op == "bitcast":
            o = ins.ops[0]
            continue
        if ins.op == "getelementptr":
            for st in ins.gep:
                if st["k"] == "idx" and st["v"][0] != "c":
                    found = strip_casts(f, st["v"])
            o = ins.ops[0]
            continue
        break
    return found


# ---------------------------------------------------------------------------------------------------------------------------------
# PRUNE-SPLIT (C01 C02 C03): a supernode that continues past irep is not pruned at irep;  DFS-BUSY: rows pivoted below the panel are not explored
# ---------------------------------------------------------------------------------------------------------------------------------
def _arr_is(f, x, k):
    """is the load/store x an element access of the array named k - a parameter index, or a field name such as Glu->supno"""
    for p in f.addr_paths(x):
        if not p or p[-1] != ("i",):
            continue
        if isinstance(k, int) and p == (("A", k), ("i",)):
            return True
        if isinstance(k, str) and len(p) >= 3 and p[-2] == ("*",) and p[-3][0] == "f" and p[-3][2] == k:
            return True
    return False


def _is_load_of(f, o, kparam, idx_pred=None):
    o = strip_casts(f, o)
    if o[0] != "v" or f.inst[o[1]].op != "load":
        return None
    L = f.inst[o[1]]
    if not _arr_is(f, L, kparam):
        return None
    gi = gep_index(f, L.ops[0])
    if idx_pred is not None and not idx_pred(gi):
        return None
    return L


def rule_prune_split(mod, rep):
    rep.rule("PRUNE-SPLIT", "pxgstrf_pruneL: the stores that prune supernode representative irep (xprune[irep], ispruned[irep]) are reached only on the edge on which "
             "supno[irep] != supno[irep + 1] - a supernode that has grown past irep into the current panel is pruned at its last column, not here: its row subscripts would "
             "be permuted while the numeric values of the columns added later stay where they are", floor=1)
    f = mod.funcs.get("pxgstrf_pruneL")
    if f is None:
        rep.brk("ANALYSIS-BROKEN PRUNE-SPLIT: pxgstrf_pruneL not found")
        return
    rep.scope([f.name])
    ks = f.pindex("supno") if f.pindex("supno") is not None else "supno"
    kx = f.pindex("xprune") if f.pindex("xprune") is not None else "xprune"
    kp = f.pindex("ispruned") if f.pindex("ispruned") is not None else "ispruned"
    tests = []
    for b in f.blocks:
        t = b.insts[-1]
        if t.op != "br" or not t.ops or t.ops[0][0] != "v" or len(t.tgt) < 2:
            continue
        c = f.inst[t.ops[0][1]]
        if c.op != "icmp" or c.pred not in ("eq", "ne"):
            continue
        La = _is_load_of(f, c.ops[0], ks); Lb = _is_load_of(f, c.ops[1], ks)
        if not La or not Lb:
            continue
        ia, ib = gep_index(f, La.ops[0]), gep_index(f, Lb.ops[0])
        def plus1(x, y):
            x = strip_casts(f, x)
            return x[0] == "v" and f.inst[x[1]].op == "add" and any(same_val(strip_casts(f, o), y) for o in f.inst[x[1]].ops) and any(is_const(strip_casts(f, o), 1) for o in f.inst[x[1]].ops)
        if ia is None or ib is None or not (plus1(ia, ib) or plus1(ib, ia)):
            continue
        tests.append((t, t.tgt[0] if c.pred == "eq" else t.tgt[1], ib if plus1(ia, ib) else ia))
    stores = [s for s in f.insts() if s.op == "store" and (_arr_is(f, s, kx) or _arr_is(f, s, kp))]
    if not stores:
        rep.brk("ANALYSIS-BROKEN PRUNE-SPLIT: no store to xprune[] / ispruned[] in pxgstrf_pruneL")
        return
    ok = False; why = "no comparison of supno[irep] with supno[irep + 1]"
    for (t, eqtgt, irep) in tests:
        hdrs = {h for h, body in f.loops() if t.bb.id in body}
        R = f.reach([f.blocks[eqtgt].insts[0]], include_start=True, stop=lambda x: x.bb.id in hdrs and x.pos == 0)
        hit = [s for s in stores if s.i in R]
        # and with the test's != edge removed no prune store is reachable from the loop entry
        if not hit:
            ok = True
        else:
            why = "the prune stores are reachable from the edge on which supno[irep] == supno[irep + 1] (%s)" % hit[0].loc
    if ok:
        # every prune store must lie behind the test: remove the != edge and look from the function entry
        dead = set()
        for (t, eqtgt, irep) in tests:
            other = [x for x in t.tgt if x != eqtgt][0]
            dead.add((t.bb.id, other))
        # the equal edge continues with the next iteration: stop at loop headers reached from it is not needed here, reachability through the header is legitimate only via the != edge
        R = f.reach([f.blocks[0].insts[0]], include_start=True, dead_edges=dead)
        hit = [s for s in stores if s.i in R]
        if hit:
            ok = False; why = "a prune store (%s) is reachable without passing the edge supno[irep] != supno[irep + 1]" % hit[0].loc
    rep.check(ok, "PRUNE-SPLIT", "pxgstrf_pruneL#continuing-supernode", "pruning only where the supernode ends at irep", why, stores[0].loc, f.name)


def rule_dfs_busy(mod, rep):
    rep.rule("DFS-BUSY", "p?gstrf_column_dfs: a row is treated as a row of U (its supernode is looked up through supno[perm_r[krow]] and searched) only on the edge on which "
             "perm_r[krow] >= fstcol, the first column of the panel: rows pivoted by columns below the panel belong to busy supernodes whose updates arrive through the panel "
             "update, and their supernode numbers may not even be assigned yet - with one thread every pivoted row is below the panel or in it, so `!= EMPTY` behaves the same", floor=4)
    for prec, f in fam(mod, "p?gstrf_column_dfs"):
        rep.scope([f.name])
        kpr = f.pindex("perm_r"); kf = f.pindex("fstcol"); ks = f.pindex("supno") if f.pindex("supno") is not None else "supno"
        tests = []
        for b in f.blocks:
            t = b.insts[-1]
            if t.op != "br" or not t.ops or t.ops[0][0] != "v" or len(t.tgt) < 2:
                continue
            c = f.inst[t.ops[0][1]]
            if c.op != "icmp" or c.pred not in ("sge", "slt", "sgt", "sle"):
                continue
            for k in (0, 1):
                L = _is_load_of(f, c.ops[k], kpr)
                o = strip_casts(f, c.ops[1 - k])
                if L is not None and o == ["a", kf]:
                    pred = c.pred if k == 0 else {"sge": "sle", "sle": "sge", "slt": "sgt", "sgt": "slt"}[c.pred]
                    if pred in ("sge", "slt"):
                        tests.append((t, L, t.tgt[0] if pred == "sge" else t.tgt[1], t.tgt[1] if pred == "sge" else t.tgt[0]))
        ok = False; why = "no test perm_r[krow] >= fstcol"
        for (t, L, getgt, lttgt) in tests:
            # supno[kperm] reads indexed by that load must not be reachable from the < edge within the iteration
            hdrs = {h for h, body in f.loops() if t.bb.id in body}
            R = f.reach([f.blocks[lttgt].insts[0]], include_start=True, stop=lambda x: x.bb.id in hdrs and x.pos == 0)
            uses = [x for x in f.insts() if x.op == "load" and _arr_is(f, x, ks) and same_val(gep_index(f, x.ops[0]), ["v", L.i])]
            if uses and not any(u.i in R for u in uses):
                ok = True
            elif not uses:
                why = "supno[perm_r[krow]] is not read"
            else:
                why = "supno[perm_r[krow]] is read on the edge perm_r[krow] < fstcol"
        rep.check(ok, "DFS-BUSY", "%s#U-row" % f.name, "U-rows are the rows pivoted inside the panel", why + ": rows of busy supernodes below the panel are explored", f.file, f.name)


# ---------------------------------------------------------------------------------------------------------------------------------
# BARRIER-ALL (C04): a thread that other threads wait for at a barrier arrives there on every path
# ---------------------------------------------------------------------------------------------------------------------------------
def _barrier_escapes(f):
    """returns of f that are reachable from its entry without passing a pthread_barrier_wait, for functions that call one"""
    waits = [c for c in f.calls("pthread_barrier_wait")]
    if not waits:
        return None
    ws = {c.i for c in waits}
    R = f.reach([f.blocks[0].insts[0]], include_start=True, stop=lambda x: x.i in ws)
    return [f.inst[i] for i in R if f.inst[i].op == "ret"]


def rule_barrier_all(mod, rep):
    rep.rule("BARRIER-ALL", "a barrier is initialised for a fixed number of participants (nprocs): a function that calls pthread_barrier_wait has no return that is reachable from "
             "its entry without passing a wait - a worker that leaves early (it could not get its work arrays) never arrives, the others block for ever and pthread_join never "
             "returns. No instance on today's tree (the library uses no barrier); the rule carries a positive example (sa/positive/barrier.c) that is judged on every run", floor=0)
    import os
    from .. import build as _b, ir as _ir
    try:
        pm = _ir.Module(_b.build_snippet(os.path.join(os.path.dirname(_b.IRDUMP), "positive", "barrier.c")))
        v = {fn: bool(_barrier_escapes(pm.funcs[fn])) for fn in ("barrier_bad", "barrier_good")}
        if v != {"barrier_bad": True, "barrier_good": False}:
            rep.brk("ANALYSIS-BROKEN BARRIER-ALL: positive example misjudged: %r" % v)
        else:
            rep.note("BARRIER-ALL positive example sa/positive/barrier.c: early return before / after the barrier told apart")
    except Exception as e:
        rep.brk("ANALYSIS-BROKEN BARRIER-ALL: positive example failed: %s" % e)
    for f in mod.funcs.values():
        if not f.blocks:
            continue
        esc = _barrier_escapes(f)
        if esc is None:
            continue
        rep.scope([f.name])
        rep.check(not esc, "BARRIER-ALL", "%s#barrier" % f.name, "every return lies behind the barrier",
                  "%s can return at %s without arriving at the barrier the other threads wait at: they block for ever" % (f.name, esc[0].loc if esc else ""), esc[0].loc if esc else f.file, f.name)


# ---------------------------------------------------------------------------------------------------------------------------------
# MAX1-SCAN (C12 C13): i?max1_ looks at every component and returns a 1-based position
# ---------------------------------------------------------------------------------------------------------------------------------
def rule_max1_scan(mod_unused, rep, config="pthread"):
    from .. import build as _b, ir as _ir
    from .more import _PRED
    rep.rule("MAX1-SCAN", "icmax1_ / izmax1_ (argmax of |re x_i| for ?lacon_): analysed on the two units compiled with the configuration's flags after function-scope statics that are "
             "provably written before read (every load dominated by a store, sa/promote) were promoted to SSA registers - f2c keeps icmax1_'s loop counters in statics. Per "
             "counted loop: (a) the trip count, evaluated from start, step and exit predicate for n = 2..9, is n - 1 (component 1 initialises the maximum; an unrolled loop "
             "without clean-up drops the last component for even n); (b) in the unit-stride loop the compared component is cx[i - 1] for the induction value i that is recorded "
             "as the result, and the recorded value is the induction variable itself (the callers subtract 1: a 0-based result selects the neighbour of the largest component)", floor=4)
    try:
        um = _ir.Module(_b.build_units(["icmax1.c", "izmax1.c"], config=config))
    except Exception as e:
        rep.brk("ANALYSIS-BROKEN MAX1-SCAN: %s" % e)
        return
    for nm in ("icmax1_", "izmax1_"):
        f = um.funcs.get(nm)
        if f is None or not f.blocks:
            rep.brk("ANALYSIS-BROKEN MAX1-SCAN: %s not found" % nm)
            continue
        rep.scope([nm])
        P = _Poly(f)
        LI = _loop_info(f)
        kcx = f.pindex("cx")
        if not LI:
            rep.fail("MAX1-SCAN", "%s#loops" % nm, "no counted loop with its exit test in the header was found: the scan over the components is not of the form the rule can bound "
                     "(start, constant step, exit predicate on the counter)", f.file, nm)
            continue
        nloop = 0
        for pid, (init, pred, bound, step, body) in sorted(LI.items()):
            nloop += 1
            ph = f.inst[pid]
            pi = P.of(init); pb = P.of(bound)
            syms = sorted({t for k in list(pi) + list(pb) for t in k})

            def ev(poly, nval):
                tot = 0
                for k, v in poly.items():
                    tot += v * (nval ** len(k))
                return tot
            trips_ok = True; got = []
            if len(syms) > 1 or pred not in _PRED:
                trips_ok = False
            else:
                for nval in range(2, 10):
                    i = ev(pi, nval); b = ev(pb, nval); cnt = 0
                    while _PRED[pred](i, b) and cnt < 50:
                        cnt += 1; i += step
                    got.append(cnt)
                    if cnt != nval - 1:
                        trips_ok = False
            rep.check(trips_ok, "MAX1-SCAN", "%s#trips@%d" % (nm, nloop), "n - 1 iterations for n = 2..9",
                      "the scan loop at %s does not run n - 1 times (iterations for n = 2..9: %s; start %s, step %d, bound %s): components are skipped or read past the end"
                      % (ph.loc, got, pfmt(pi), step, pfmt(pb)), ph.loc, nm)
            # recorded result: int phis of the header (other than the counter and other cursors) take, inside the body, their own value or counter + c
            t = "v%d" % pid
            coff = None; rec_bad = None; rec_seen = False
            for q in f.blocks[ph.bb.id].insts:
                if q.op != "phi" or q.i == pid or not (q.ty or "").startswith("i"):
                    continue
                leaves = []
                work = [o for o, bb in zip(q.ops, q.inb) if bb in body]; seen = set()
                while work:
                    o = strip_casts(f, work.pop())
                    if o[0] == "v" and o[1] in seen:
                        continue
                    if o[0] == "v":
                        seen.add(o[1])
                        x = f.inst[o[1]]
                        if x.op == "phi" and x.bb.id in body and x.i not in (q.i, pid):
                            work.extend(x.ops); continue
                        if x.op == "select":
                            work.extend(x.ops[1:]); continue
                    leaves.append(o)
                others = [o for o in leaves if not (o[0] == "v" and o[1] == q.i)]
                # a second cursor (ix += incx) is not a recorded position
                if any(o[0] == "v" and f.inst[o[1]].op == "add" and any(strip_casts(f, z) == ["v", q.i] for z in f.inst[o[1]].ops) for o in others):
                    continue
                for o in others:
                    rec_seen = True
                    pr = P.of(o)
                    if set(pr) <= {(t,), ()} and pr.get((t,), 0) == 1:
                        c = pr.get((), 0)
                        if coff is None:
                            coff = c
                        elif coff != c:
                            rec_bad = o
                    else:
                        rec_bad = o
            if rec_seen:
                rep.check(rec_bad is None, "MAX1-SCAN", "%s#result@%d" % (nm, nloop), "the recorded position is the counter plus a constant (%s)" % coff,
                          "the position recorded in the loop at %s is not `counter + constant` (one and the same constant at every site): it is not a fixed function of the component "
                          "just compared" % ph.loc, ph.loc, nm)
            coff = coff or 0
            # loads of cx components in the body, index as a polynomial of the induction variable
            idxs = []
            for b in body:
                for x in f.blocks[b].insts:
                    if x.op == "load" and any(p and p[0] == ("A", kcx) for p in f.addr_paths(x)):
                        gi = gep_index_first(f, x.ops[0])
                        if gi is not None:
                            idxs.append((x, P.of(gi)))
            # position 1 is component 0: the index polynomial of a component addressed through the counter vanishes at i = 1 (cx[i - 1], cx[(i - 1) * incx])
            viaI = [(x, p) for x, p in idxs if any(t in k for k in p) and not any(_is_ssa_sym(t2) for k in p for t2 in k if t2 != t)]
            if viaI:
                def at1(p):
                    # the index polynomial at the counter value for which the recorded position is 1 (t = 1 - c): must be component 0
                    out = {}
                    for k, v in p.items():
                        k2 = tuple(z for z in k if z != t)
                        out[k2] = out.get(k2, 0) + v * ((1 - coff) ** k.count(t))
                    return {k: v for k, v in out.items() if v}
                badc = [(x, p) for x, p in viaI if at1(p)]
                rep.check(not badc, "MAX1-SCAN", "%s#component@%d" % (nm, nloop), "the component compared for counter i is component i - 1 (0-based)",
                          "the component compared at %s is cx[%s] for counter i, and i is what is recorded as the result: position 1 does not correspond to the first component - the "
                          "result is not the 1-based index the callers expect" % (badc[0][0].loc if badc else "", pfmt(badc[0][1]).replace(t, "i") if badc else ""),
                          viaI[0][0].loc, nm)
            # components addressed through a second cursor of the same loop (ix += incx): component index a0 + k*s in iteration k, counter i0 + k:
            # the counter is the 1-based position of the component iff a0 == (i0 - 1) * s
            for q in f.blocks[ph.bb.id].insts:
                if q.op != "phi" or q.i == pid or not (q.ty or "").startswith("i"):
                    continue
                tq = "v%d" % q.i
                viaC = [(x, p) for x, p in idxs if p.get((tq,), 0) == 1 and not any(tq in k and len(k) > 1 for k in p)
                        and not any(_is_ssa_sym(t2) for k in p for t2 in k if t2 != tq)]
                if not viaC:
                    continue
                qi = [o for o, bb in zip(q.ops, q.inb) if bb not in body]
                qn = [o for o, bb in zip(q.ops, q.inb) if bb in body]
                if len(qi) != 1 or not qn:
                    continue
                nx = strip_casts(f, qn[0])
                if nx[0] != "v" or f.inst[nx[1]].op != "add":
                    continue
                oth = [o for o in f.inst[nx[1]].ops if strip_casts(f, o) != ["v", q.i]]
                if len(oth) != 1:
                    continue
                sp = P.of(oth[0]); a_init = P.of(qi[0])
                if len(pi) > 1 or any(k for k in pi):
                    continue
                i0 = pi.get((), 0)
                for x, pidx in viaC:
                    d = {k: v for k, v in pidx.items() if k != (tq,)}
                    a0 = padd(a_init, d, 1)
                    want = pmul(sp, pconst(i0 + coff - 1))
                    okc = (padd(a0, want, -1) == {})
                    rep.check(okc, "MAX1-SCAN", "%s#cursor@%d" % (nm, nloop), "the counter is the 1-based position of the component the cursor addresses",
                              "the strided scan at %s compares component %s + k*(%s) in its k-th iteration while the counter, which is recorded as the result, is %d + k: the result "
                              "is not the 1-based position of that component (expected first component index %s)" % (x.loc, pfmt(a0), pfmt(sp), i0, pfmt(want)), x.loc, nm)
                    break


# ---------------------------------------------------------------------------------------------------------------------------------
# LACON-ALT (C12): the alternating-sign test vector of the norm estimator
# ---------------------------------------------------------------------------------------------------------------------------------
def rule_lacon_altvector(mod_unused, rep, config="pthread"):
    from .. import build as _b, ir as _ir
    rep.rule("LACON-ALT", "?lacon_ (Hager/Higham): the final stage multiplies inv(A) with x_k = (-1)^k (1 + k/(n-1)), k = 0..n-1, and scales the result by 2/(3n) - a lower bound only "
             "for exactly these weights (they rise from 1 to 2). Analysed on the four units after promotion of the written-before-read f2c statics (sa/promote): in the loop that "
             "stores the vector, the integer numerator of the quotient equals the index polynomial of the stored component (x[i-1] gets (i-1)/(n-1), x[i] gets i/(n-1)), and the "
             "denominator is n - 1: a numerator shifted against the index over-weights the vector and the estimate can exceed the true norm", floor=4)
    try:
        um = _ir.Module(_b.build_units(["slacon.c", "dlacon.c", "clacon.c", "zlacon.c"], config=config))
    except Exception as e:
        rep.brk("ANALYSIS-BROKEN LACON-ALT: %s" % e)
        return
    for prec in "sdcz":
        f = um.funcs.get("%slacon_" % prec)
        if f is None or not f.blocks:
            rep.brk("ANALYSIS-BROKEN LACON-ALT: %slacon_ not found" % prec)
            continue
        rep.scope([f.name])
        P = _Poly(f)
        kx = f.pindex("x"); kn = f.pindex("n")
        found = 0
        for d in f.insts():
            if d.op != "fdiv":
                continue
            num = strip_casts(f, d.ops[0]); den = strip_casts(f, d.ops[1])
            if not (num[0] == "v" and f.inst[num[1]].op == "sitofp" and den[0] == "v" and f.inst[den[1]].op == "sitofp"):
                continue
            pn = P.of(f.inst[num[1]].ops[0]); pd = P.of(f.inst[den[1]].ops[0])
            # the store into x[] this quotient flows into (same block)
            st = None
            for s in d.bb.insts:
                if s.op == "store" and s.pos > d.pos and any(p and p[0] == ("A", kx) for p in f.addr_paths(s)):
                    from ..ir import expr_insts
                    if any(z.i == d.i for z in expr_insts(f, s.ops[0], limit=60)):
                        st = s
                        break
            if st is None:
                continue
            found += 1
            pidx = P.of(gep_index_first(f, st.ops[1]))
            nsym = [t for k in pd for t in k]
            okden = len(nsym) == 1 and pd == {(nsym[0],): 1, (): -1}
            oknum = (pn == pidx)
            rep.check(oknum and okden, "LACON-ALT", "%s#weights" % f.name, "component k is weighted 1 + k/(n-1)",
                      "the component stored at %s has index %s but the quotient's numerator is %s (denominator %s): the weights are not 1 + k/(n-1) for k = 0..n-1, the 2/(3n) "
                      "normalisation no longer gives a lower bound" % (st.loc, pfmt(pidx), pfmt(pn), pfmt(pd)), st.loc, f.name)
        if not found:
            rep.brk("ANALYSIS-BROKEN LACON-ALT: the weight quotient was not found in %s" % f.name)
