"""Rules added in round 6 (general engines rather than site rules).

ALLOC-RANGE: a classical static bounds check by polynomial inclusion, applied to every array a routine allocates itself."""
from ..util import *
from ..ir import strip_casts, fmt_path
from .more import _Poly
from .layout import padd, pmul, pconst, pfmt
from .threads import loop_bound

_TYPED = {"intMalloc": None, "intCalloc": None, "int32Malloc": 4, "int32Calloc": 4, "floatMalloc": 4, "floatCalloc": 4, "doubleMalloc": 8, "doubleCalloc": 8,
          "complexMalloc": 8, "complexCalloc": 8, "doublecomplexMalloc": 16, "doublecomplexCalloc": 16}
_TSZ = {"double": 8, "float": 4, "i8": 1, "i16": 2, "i32": 4, "i64": 8}


def _esize(ty):
    if not ty or not ty.endswith("*"):
        return None
    b = ty[:-1]
    if b.endswith("*"):
        return 8
    if b in _TSZ:
        return _TSZ[b]
    if "doublecomplex" in b:
        return 16
    if "complex" in b:
        return 8
    return None


def _direct_gep(f, addr):
    """(base operand, index operand) when addr is one single-index GEP (possibly behind casts) - else None"""
    o = addr
    while o[0] == "v" and f.inst[o[1]].op == "bitcast":
        o = f.inst[o[1]].ops[0]
    if o[0] != "v":
        return None
    g = f.inst[o[1]]
    if g.op != "getelementptr" or len(g.gep) != 1 or g.gep[0]["k"] != "idx":
        return None
    return g.ops[0], g.gep[0]["v"], g


def _alloc_of(f, base):
    """the allocation call a pointer value is (a cast of), or None - no phis, no loads: the SSA value itself"""
    o = base
    seen = 0
    while o[0] == "v" and seen < 8:
        x = f.inst[o[1]]
        if x.op == "bitcast":
            o = x.ops[0]; seen += 1
            continue
        if x.op == "call":
            return x
        return None
    return None


def _loop_info(f):
    """header phi id -> (init operand, pred, bound operand, step, body) for counted loops with a constant step"""
    out = {}
    for h, body in f.loops():
        lb = loop_bound(f, h, body)
        if not lb:
            continue
        ph, pred, bound = lb
        inits = [o for o, b in zip(ph.ops, ph.inb) if b not in body]
        nexts = [o for o, b in zip(ph.ops, ph.inb) if b in body]
        if len(inits) != 1 or not nexts:
            continue
        step = None
        for nx in nexts:
            nx = strip_casts(f, nx)
            s = None
            if nx[0] == "v" and f.inst[nx[1]].op in ("add", "sub"):
                a = f.inst[nx[1]]
                x0, x1 = strip_casts(f, a.ops[0]), strip_casts(f, a.ops[1])
                if x0 == ["v", ph.i] and x1[0] == "c":
                    s = x1[1] if a.op == "add" else -x1[1]
                elif a.op == "add" and x1 == ["v", ph.i] and x0[0] == "c":
                    s = x0[1]
            if s is None or (step is not None and s != step):
                step = None
                break
            step = s
        if step is None or step == 0:
            continue
        # the exit test must be the only way out of the loop that matters: we only use it as an upper bound, which holds on every iteration
        # that passed the test; require the test to sit in the header (checked before the body runs)
        t = None
        for b in body:
            tt = f.blocks[b].insts[-1]
            if tt.op == "br" and tt.ops and tt.ops[0][0] == "v" and not all(x in body for x in tt.tgt):
                c = f.inst[tt.ops[0][1]]
                if c.op == "icmp" and (strip_casts(f, c.ops[0]) == ["v", ph.i] or strip_casts(f, c.ops[1]) == ["v", ph.i]):
                    t = (b, tt, c)
                    break
        if t is None or t[0] != h:
            continue
        # the edge that stays in the loop must be the one on which `phi pred bound` is true
        tt, c = t[1], t[2]
        stay_true = tt.tgt[0] in body
        out[ph.i] = (inits[0], pred if stay_true else _neg(pred), bound, step, body)
    return out


def _neg(p):
    return {"slt": "sge", "sge": "slt", "sle": "sgt", "sgt": "sle", "ult": "uge", "uge": "ult", "ule": "ugt", "ugt": "ule", "eq": "ne", "ne": "eq"}.get(p, p)


def psubst(poly, env):
    """substitute symbols by polynomials (symbols not in env stay)"""
    out = {}
    for k, v in poly.items():
        term = pconst(v) if v else {}
        for t in k:
            term = pmul(term, env[t] if t in env else {(t,): 1})
        out = padd(out, term, 1)
    return out


def _is_ssa_sym(t):
    return (t.startswith("v") and t[1:].isdigit()) or t.startswith("?")


def _max_index(f, P, LI, s, idx):
    """polynomial of the largest value of the index operand idx at access s (induction variables replaced by their extreme values), or None when undecided.
    Returns (poly, guard_phis)."""
    ip = P.of(idx)
    guard_syms = []
    for _ in range(4):
        phis = [k for k in ip if any(t.startswith("v") and t[1:].isdigit() and int(t[1:]) in LI for t in k)]
        if not phis:
            break
        t = [t for t in phis[0] if t.startswith("v") and t[1:].isdigit() and int(t[1:]) in LI][0]
        pid = int(t[1:])
        init, pred, bound, step, body = LI[pid]
        if s.bb.id not in body:
            return None
        if any(k.count(t) > 1 for k in ip) or any(len(k) > 1 and t in k for k in ip):
            return None
        coef = ip.get((t,), 0)
        hi = None
        if step > 0 and pred in ("slt", "ult", "ne"):
            hi = padd(P.of(bound), pconst(1), -1)
        elif step > 0 and pred in ("sle", "ule"):
            hi = P.of(bound)
        elif step < 0 and pred in ("sge", "sgt", "uge", "ugt", "ne"):
            hi = P.of(init)
        lo = P.of(init) if step > 0 else None
        if step != 1 and step != -1 and pred == "ne":
            return None
        val = hi if coef > 0 else lo
        if val is None:
            return None
        guard_syms.append(pid)
        rest = {k: v for k, v in ip.items() if k != (t,)}
        ip = padd(rest, pmul(val, pconst(coef)), 1)
    if guard_syms and _guarded(f, s, guard_syms):
        return None
    return ip, guard_syms


def _guarded(f, s, guard_syms):
    """is the access (transitively) control dependent on a further integer test of one of the induction variables, or on a non-integer test?"""
    cdeps = f.control_deps()
    seen = set(); work = [s.bb.id]
    hdrs = {f.inst[g].bb.id for g in guard_syms}
    while work:
        b = work.pop()
        for (cb, _e) in cdeps.get(b, ()):
            if cb in seen:
                continue
            seen.add(cb)
            tt = f.blocks[cb].insts[-1]
            if tt.op == "br" and tt.ops and tt.ops[0][0] == "v":
                c = f.inst[tt.ops[0][1]]
                if c.op == "icmp":
                    for k in (0, 1):
                        for x in expr_insts_ids(f, c.ops[k]):
                            if x in guard_syms and cb not in hdrs:
                                return True
            elif tt.op == "switch":
                return True
            if cb not in hdrs:
                work.append(cb)
    return False


def expr_insts_ids(f, o, depth=0):
    o = strip_casts(f, o)
    if o[0] != "v" or depth > 6:
        return set()
    x = f.inst[o[1]]
    out = {x.i}
    if x.op in ("add", "sub", "mul", "sext", "zext", "trunc"):
        for y in x.ops:
            out |= expr_insts_ids(f, y, depth + 1)
    return out


def _wrappers(mod, isz):
    """discovered allocation wrappers: name -> (count polynomial in the wrapper's parameter names, element size or None for 'bytes')"""
    out = {}
    for g in mod.funcs.values():
        if not g.blocks or g.name in _TYPED or g.name == "superlu_malloc":
            continue
        rets = [r for r in g.rets() if r.ops]
        if not rets:
            continue
        calls = set()
        okr = True
        for r in rets:
            o = r.ops[0]
            vals = [o]
            x = strip_casts(g, o)
            if x[0] == "v" and g.inst[x[1]].op == "phi":
                vals = g.inst[x[1]].ops
            for v in vals:
                if v[0] == "null":
                    continue
                c = _alloc_of(g, v)
                if c is None or not (c.callee in _TYPED or c.callee == "superlu_malloc"):
                    okr = False
                else:
                    calls.add(c.i)
        if not okr or len(calls) != 1:
            continue
        c = g.inst[list(calls)[0]]
        cnt = _Poly(g).of(c.ops[0])
        pn = {g.pname(k) for k in range(len(g.params))}
        if any(t not in pn for k in cnt for t in k):
            continue
        out[g.name] = (g, cnt, None if c.callee == "superlu_malloc" else (_TYPED[c.callee] or isz))
    return out


def _callee_extents(mod, LIs):
    """callee name -> {param index: [(max index polynomial over the callee's scalar parameter names, site)]} for accesses through a pointer parameter"""
    out = {}
    for g in mod.funcs.values():
        if not g.blocks:
            continue
        P = None
        pn = {g.pname(k): k for k in range(len(g.params)) if not g.is_ptr(["a", k])}
        for s in g.insts():
            if s.op not in ("load", "store"):
                continue
            addr = s.ops[0] if s.op == "load" else s.ops[1]
            dg = _direct_gep(g, addr)
            if not dg:
                continue
            base = dg[0]
            while base[0] == "v" and g.inst[base[1]].op == "bitcast":
                base = g.inst[base[1]].ops[0]
            if base[0] != "a":
                continue
            P = P or _Poly(g)
            if g.name not in LIs:
                LIs[g.name] = _loop_info(g)
            r = _max_index(g, P, LIs[g.name], s, dg[1])
            if r is None:
                continue
            ip = r[0]
            if any(t not in pn for k in ip for t in k):
                continue
            out.setdefault(g.name, {}).setdefault(base[1], []).append((ip, s, _esize(g.otype(dg[2].ops[0]))))
    return out


def rule_alloc_range(mod, rep, floor=60, sel=None):
    rep.rule("ALLOC-RANGE", "static bounds check by polynomial inclusion: for an array the routine allocates itself (typed allocators, superlu_malloc with the element size of "
             "the access, and allocation wrappers discovered from the code: functions returning one allocation whose count is a polynomial of their parameters) every load/store "
             "whose index is an affine function of the induction variables of the enclosing counted loops (constant step, exit test in the header) and of symbols is evaluated at "
             "the largest value the induction variables can take; the same is done for accesses a callee makes through a pointer parameter when the array is handed to it "
             "(callee summary: largest index as a polynomial of the callee's scalar parameters, translated through the actual arguments). An access is discharged when "
             "count - 1 - max has no negative coefficient, and it is a violation when max - count has no negative coefficient (for all non-negative sizes the last iteration is "
             "outside the block). Accesses guarded by a further test on the induction variable, and indices with other symbols, are left undecided (counted, not reported)", floor=floor)
    im = mod.funcs.get("intMalloc")
    isz = 8 if (im is not None and im.params and im.params[0].get("ty") == "i64") else 4
    W = _wrappers(mod, isz)
    LIs = {}
    CE = _callee_extents(mod, LIs)
    n_ok = n_und = 0

    def decide(f, call, cnt, ip, s, via=None):
        nonlocal n_ok, n_und
        syms = {t for k in ip for t in k} | {t for k in cnt for t in k}
        if any(_is_ssa_sym(t) for t in syms):
            n_und += 1
            return
        slack = padd(padd(cnt, pconst(1), -1), ip, -1)       # count - 1 - max
        over = padd(ip, cnt, -1)                              # max - count
        where = s.loc if via is None else "%s (in %s, called at %s)" % (s.loc, s.fn.name, via.loc)
        if all(v >= 0 for v in slack.values()):
            n_ok += 1
            rep.scope([f.name])
            rep.check(True, "ALLOC-RANGE", "%s#%s@%s[%s%s]" % (f.name, call.callee, call.ln, s.ln, "" if via is None else "/" + s.fn.name),
                      "largest index %s < %s elements" % (pfmt(ip), pfmt(cnt)), "", s.loc, f.name)
        elif all(v >= 0 for v in over.values()):
            rep.scope([f.name])
            rep.check(False, "ALLOC-RANGE", "%s#%s[%s]%s" % (f.name, call.callee, pfmt(ip), "" if via is None else "/" + s.fn.name), "",
                      "the array allocated at %s has %s elements but the access at %s reaches index %s in the last iteration of its loop: one element past the block is %s"
                      % (call.loc, pfmt(cnt), where, pfmt(ip), "written" if s.op == "store" else "read"), s.loc if via is None else via.loc, f.name)
        else:
            n_und += 1

    for f in mod.funcs.values():
        if not f.blocks or (sel is not None and not sel(f)):
            continue
        allocs = {}
        P = None
        for c in f.calls():
            if c.callee in _TYPED or c.callee == "superlu_malloc" or c.callee in W:
                allocs[c.i] = c
        if not allocs:
            continue
        P = _Poly(f)
        if f.name not in LIs:
            LIs[f.name] = _loop_info(f)
        LI = LIs[f.name]

        def count_of(call, esz_access):
            """element count polynomial of the allocation for an access with the given element size, or None"""
            if call.callee in W:
                g, wc, wes = W[call.callee]
                env = {g.pname(k): P.of(call.ops[k]) for k in range(min(len(g.params), len(call.ops)))}
                cnt = psubst(wc, env)
                es = wes
            else:
                cnt = P.of(call.ops[0])
                es = None if call.callee == "superlu_malloc" else (_TYPED[call.callee] or isz)
            if es is None:
                if not esz_access or any(v % esz_access for v in cnt.values()):
                    return None
                return {k: v // esz_access for k, v in cnt.items()}
            if esz_access != es:
                return None
            return cnt

        for s in f.insts():
            if s.op in ("load", "store"):
                addr = s.ops[0] if s.op == "load" else s.ops[1]
                dg = _direct_gep(f, addr)
                if not dg:
                    continue
                base, idx, g = dg
                call = _alloc_of(f, base)
                if call is None or call.i not in allocs:
                    continue
                cnt = count_of(call, _esize(f.otype(g.ops[0])))
                if cnt is None:
                    n_und += 1
                    continue
                r = _max_index(f, P, LI, s, idx)
                if r is None:
                    n_und += 1
                    continue
                decide(f, call, cnt, r[0], s)
            elif s.op == "call" and s.callee in CE:
                g = mod.funcs[s.callee]
                for k, lst in CE[s.callee].items():
                    if k >= len(s.ops):
                        continue
                    call = _alloc_of(f, s.ops[k])
                    if call is None or call.i not in allocs:
                        continue
                    env = {g.pname(j): P.of(s.ops[j]) for j in range(min(len(g.params), len(s.ops))) if not g.is_ptr(["a", j])}
                    for (ip, site, esz) in lst:
                        cnt = count_of(call, esz)
                        if cnt is None:
                            n_und += 1
                            continue
                        decide(f, call, cnt, psubst(ip, env), site, via=s)
    rep.note("ALLOC-RANGE: %d accesses discharged, %d left undecided (non-affine index, guarded, or symbols that do not occur in the allocation count); %d allocation wrappers "
             "discovered (%s), %d callees with parameter-extent summaries" % (n_ok, n_und, len(W), ", ".join(sorted(W)), len(CE)))


# ---------------------------------------------------------------------------------------------------------------------------------
# PREC-FAMILY: a routine of one precision calls the routines of its own precision family
# ---------------------------------------------------------------------------------------------------------------------------------
import re as _re

_COMPAT = {"s": "s", "d": "d", "c": "cs", "z": "zd"}


def _prec_of(mod, name):
    """(precision letter, template with '?') when the function is one of a set of precision twins present in the module"""
    for pat in (r"^(p)([sdcz])(.+)$", r"^(sp_)([sdcz])(.+)$", r"^(superlu_)([sdcz])(.+)$", r"^()([sdcz])(.+)$"):
        m = _re.match(pat, name)
        if not m:
            continue
        pre, p, rest = m.groups()
        twins = [pre + q + rest for q in "sdcz" if q != p]
        have = [t for t in twins if t in mod.funcs or t in mod.decls]
        if have:
            return p, pre + "?" + rest, have
    return None


def rule_precision_family(mod, rep, floor=300, sel=None):
    rep.rule("PREC-FAMILY", "a routine that is one of a set of precision twins (s/d/c/z variants of one name, all present in the library) calls, among routines that have precision "
             "twins themselves, only those of its own family: s calls s, d calls d, c calls c or s (real helpers), z calls z or d. A call into the other family (dlamch_ from "
             "slaqgs: the double-precision safe minimum underflows to 0 in float) compiles and passes every double-precision test", floor=floor)
    if not hasattr(mod, "decls"):
        mod.decls = set()
    n = 0
    for f in mod.funcs.values():
        if not f.blocks:
            continue
        pf = _prec_of(mod, f.name)
        if not pf or (sel is not None and not sel(f)):
            continue
        for c in f.calls():
            if not c.callee:
                continue
            pc = _prec_of(mod, c.callee)
            if not pc:
                continue
            n += 1
            ok = pc[0] in _COMPAT[pf[0]]
            rep.scope([f.name])
            rep.check(ok, "PREC-FAMILY", "%s->%s" % (f.name, c.callee), "same precision family",
                      "%s (precision '%s') calls %s (precision '%s'): the routine of the other precision family is used%s" % (
                          f.name, pf[0], c.callee, pc[0], "" if pc[1].replace("?", pf[0]) not in mod.funcs and pc[1].replace("?", pf[0]) not in mod.decls else
                          "; %s exists" % pc[1].replace("?", _COMPAT[pf[0]][-1] if pc[1].replace("?", pf[0]) not in mod.funcs else pf[0])), c.loc, f.name)


# ---------------------------------------------------------------------------------------------------------------------------------
# EQUED-LAST (C11): once A may have been scaled, the flag that says how is written by nobody but the routine that scaled it
# ---------------------------------------------------------------------------------------------------------------------------------
def rule_equed_last(mod, rep):
    rep.rule("EQUED-LAST", "p?gssvx: no store to *equed is reachable from the call of ?laqgs (the only routine that scales A, and the one that sets the flag accordingly): whatever "
             "happens afterwards - out of memory, a singular matrix, a workspace query - A and B stay scaled as the flag says, so a later 'tidying' store of NOEQUIL on a "
             "failure path makes the returned flag contradict the returned A and B. Stores inside helpers the driver owns are followed through EFF", floor=4)
    from .. import effects
    for prec, f in fam(mod, "p?gssvx"):
        rep.scope([f.name])
        kq = f.pindex("equed")
        calls = list(f.calls("%slaqgs" % prec))
        if not calls or kq is None:
            rep.brk("ANALYSIS-BROKEN EQUED-LAST: %s has no call of %slaqgs / no parameter equed" % (f.name, prec))
            continue
        R = f.reach(calls)
        bad = None
        for i in sorted(R):
            x = f.inst[i]
            if x.op == "store" and (("A", kq),) in f.addr_paths(x):
                bad = x
                break
            if x.op == "call" and x.callee in mod.funcs and mod.funcs[x.callee].blocks and x.callee != "%slaqgs" % prec:
                # a helper that receives equed itself
                for k, o in enumerate(x.ops):
                    if o == ["a", kq] and x.callee not in ("%sgsrfs" % prec,):
                        g = mod.funcs[x.callee]
                        if any(s.op == "store" and (("A", k),) in g.addr_paths(s) for s in g.insts()):
                            bad = x
                if bad:
                    break
        rep.check(bad is None, "EQUED-LAST", "%s#after-laqgs" % f.name, "no store to *equed after the apply step",
                  "*equed is overwritten at %s after ?laqgs may have scaled A: the returned flag no longer describes the returned A and B" % (bad.loc if bad else ""),
                  bad.loc if bad else f.file, f.name)
