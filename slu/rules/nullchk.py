"""NULL engine (C14): results of non-aborting allocators are tested before they are used.

Non-aborting allocators: superlu_malloc, malloc, calloc, ?user_malloc, p?gstrf_expand.  The typed wrappers
(intMalloc, doubleCalloc, ...) are shown to be *aborting* on every run: inside them every path from the
superlu_malloc call to a return passes the non-NULL edge of a test of the result.

For a result v:
  deref   = a load/store whose address derives from v, or v handed to a module function other than a release
  publish = v stored into memory (a struct field, an out-parameter, a global)
  check   = a branch on (v == NULL) / (v != NULL)
violation  = a path from the allocation to a deref with no check before it, or a path from a publish to a
             return with no check anywhere on it (the NULL would be dereferenced later through that memory)."""
from ..util import *
from ..ir import strip_casts, fmt_path

RAW = {"superlu_malloc", "malloc", "calloc"}
RELEASE = {"superlu_free", "free"}


def _derives(f, o, P0):
    if o[0] not in ("v", "a", "ce"):
        return False
    for p in f.paths(o):
        if p[:len(P0)] == P0:
            return True
    return False


def _is_value(f, o, P0):
    return o[0] in ("v",) and any(p == P0 for p in f.paths(o))


def aborting_wrappers(mod):
    """functions whose pointer result is a RAW allocation that is non-NULL on every path to return: the result is tested, from the NULL edge of every such test
    no return is reachable (all those paths end in a no-return call), and no return is reachable from the allocation without passing a test"""
    out = set()
    for f in mod.funcs.values():
        if not f.ret.endswith("*"):
            continue
        calls = [c for c in f.calls() if c.callee in RAW]
        if len(calls) != 1:
            continue
        c = calls[0]
        P0 = (("C", c.callee, c.i),)
        rets = f.rets()
        if not rets:
            continue
        nonnull, tests = _check_edges(f, P0)
        if not tests:
            continue
        noret = lambda x: x.op == "call" and (x.callee or "") in mod.noreturn
        ok = True
        for b in tests:
            t = f.blocks[b].insts[-1]
            for tg in t.tgt:
                if (b, tg) in nonnull:
                    continue
                r = f.reach([f.blocks[tg].insts[0]], stop=noret, include_start=True)
                if any(f.inst[i].op == "ret" for i in r):
                    ok = False            # the NULL edge can reach a return: the wrapper may hand NULL (or anything) back
        testbr = {f.blocks[b].insts[-1].i for b in tests}
        r0 = f.reach([c], stop=lambda x: x.i in testbr or noret(x))
        if any(f.inst[i].op == "ret" for i in r0):
            ok = False
        if ok:
            out.add(f.name)
    return out


def _check_edges(f, P0):
    """set of (block id, successor id) edges on which v is known non-NULL, and the set of branch blocks that test v"""
    nonnull = set(); tests = set()
    for b in f.blocks:
        t = b.insts[-1]
        if t.op != "br" or not t.ops or t.ops[0][0] != "v":
            continue
        C = f.inst[t.ops[0][1]]
        neg = False
        while C.op == "xor":
            oth = [x for x in C.ops if x[0] == "v"]
            if not oth:
                break
            C = f.inst[oth[0][1]]; neg = not neg
        if C.op != "icmp" or C.pred not in ("eq", "ne"):
            continue
        a, bb = C.ops
        for x, y in ((a, bb), (bb, a)):
            if (y[0] == "null" or is_const(y, 0)) and _is_value(f, strip_casts(f, x), P0):
                nn_true = (C.pred == "ne") != neg
                nonnull.add((b.id, t.tgt[0] if nn_true else t.tgt[1]))
                tests.add(b.id)
    return nonnull, tests


def _unchecked_exits(f, c, P0):
    """rets reachable from the allocation without passing a test of v (either edge counts as 'tested': the NULL edge must not return v)"""
    nonnull, tests = _check_edges(f, P0)
    null_edges = set()
    for b in tests:
        t = f.blocks[b].insts[-1]
        for tg in t.tgt:
            if (b, tg) not in nonnull:
                null_edges.add((b, tg))
    # explore from the call; crossing a test block marks the path as checked (stop); returning on the NULL edge with v is a violation handled by caller
    r = f.reach([c], stop=lambda x: x.bb.id in tests and x is x.bb.insts[-1])
    return [f.inst[x] for x in r if f.inst[x].op == "ret"]


def _base_ids(f, o, depth=0):
    """SSA ids an operand is a cast / element address of (not through phis or loads)"""
    out = set()
    while o[0] == "v" and depth < 12:
        out.add(o[1])
        ins = f.inst[o[1]]
        if ins.op in ("bitcast", "getelementptr", "addrspacecast", "ptrtoint", "inttoptr"):
            o = ins.ops[0]; depth += 1
            continue
        if ins.op in ("add", "sub", "and") and ins.ops[1][0] == "c":
            o = ins.ops[0]; depth += 1      # pointer arithmetic (alignment) on the integer image of the pointer
            continue
        break
    return out


def _cell_key(f, addr_operand):
    """identity of a memory cell for re-read detection: (its single access path, the index value if it is an array element)"""
    ps = f.paths(addr_operand)
    if len(ps) != 1:
        return None
    p = list(ps)[0]
    if ("i",) in p:
        idx = gep_index(f, addr_operand)
        if idx is None or idx[0] not in ("a", "v", "c") or p.count(("i",)) != 1:
            return None
        return (p, tuple(idx[:2]))
    return (p, None)


def _null_test(f, br, holders, cond=None):
    """(edge target on which the tested holder is non-NULL, other target) or None"""
    if br.op != "br" or not br.ops or br.ops[0][0] != "v":
        return None
    cond = cond or br.ops[0]
    if cond[0] != "v":
        return None
    C = f.inst[cond[1]]
    neg = False
    while C.op == "xor":
        oth = [x for x in C.ops if x[0] == "v"]
        if not oth:
            return None
        C = f.inst[oth[0][1]]; neg = not neg
    if C.op != "icmp" or C.pred not in ("eq", "ne"):
        return None
    a, b = C.ops
    for x, y in ((a, b), (b, a)):
        if (y[0] == "null" or is_const(y, 0)) and (_base_ids(f, strip_casts(f, x)) & holders):
            nn_true = (C.pred == "ne") != neg
            return (br.tgt[0], br.tgt[1]) if nn_true else (br.tgt[1], br.tgt[0])
    return None


def analyse(mod, f, allocs):
    """yield (call, kind, site instruction, detail) for unchecked uses; path-sensitive on which SSA values hold the result"""
    for c in f.calls():
        if c.callee not in allocs:
            continue
        found = None
        seen = set()
        work = [(c.bb.id, c.pos + 1, frozenset([c.i]), False, None, None, frozenset())]
        steps = 0
        while work and found is None and steps < 20000:
            steps += 1
            bid, pos, holders, checked, pub, prev, cells = work.pop()
            key = (bid, pos, holders, checked, pub is not None, prev if (pos == 0 and f.blocks[bid].insts[0].op == "phi") else -1, cells)
            if key in seen:
                continue
            seen.add(key)
            b = f.blocks[bid]
            hs = set(holders)
            cl = set(cells)
            stop = False
            for ins in b.insts[pos:]:
                if ins.op == "phi":
                    if prev is None:
                        continue
                    inc = None
                    for o, pb in zip(ins.ops, ins.inb):
                        if pb == prev:
                            inc = o
                    if inc is not None and (_base_ids(f, strip_casts(f, inc)) & hs):
                        hs.add(ins.i)
                    else:
                        hs.discard(ins.i)
                    continue
                if ins.op in ("bitcast", "getelementptr") :
                    continue
                if ins.op in ("load", "store"):
                    addr = ins.ops[0] if ins.op == "load" else ins.ops[1]
                    if _base_ids(f, addr) & hs:
                        if not checked:
                            found = (c, "deref", ins, "result of %s() is dereferenced with no NULL test on the way" % c.callee)
                            break
                    if ins.op == "store" and f.is_ptr(ins.ops[0]) and (_base_ids(f, strip_casts(f, ins.ops[0])) & hs):
                        qs = f.addr_paths(ins)
                        if any(q[0][0] in ("A", "G", "C") for q in qs) and pub is None:
                            pub = ins
                        ck = _cell_key(f, ins.ops[1])
                        if ck is not None:
                            cl.add(ck)
                    elif ins.op == "store":
                        qs = f.addr_paths(ins)
                        for q in list(cl):
                            if q[0] in qs:
                                cl.discard(q)
                    elif ins.op == "load" and _cell_key(f, ins.ops[0]) in cl:
                        hs.add(ins.i)      # re-read of the cell the result was stored into
                elif ins.op == "call":
                    cal = ins.callee or ""
                    if cal.startswith("llvm.dbg") or cal.startswith("llvm.lifetime"):
                        continue
                    if cal in mod.noreturn:
                        stop = True; break
                    args = [o for o in ins.ops if f.is_ptr(o) and (_base_ids(f, strip_casts(f, o)) & hs)]
                    if args:
                        if cal in RELEASE:
                            stop = True; break       # released: this value is gone
                        if not checked and (cal in mod.funcs or cal.startswith("llvm.mem") or cal in ("pthread_mutex_init", "pthread_create", "memcpy", "memset")):
                            found = (c, "deref", ins, "result of %s() is handed to %s() with no NULL test on the way" % (c.callee, cal))
                            break
                elif ins.op == "ret":
                    if ins.ops and f.is_ptr(ins.ops[0]) and (_base_ids(f, strip_casts(f, ins.ops[0])) & hs):
                        stop = True; break      # returned to the caller, who is responsible for the test
                    if pub is not None and not checked:
                        found = (c, "publish", pub, "result of %s() is stored into %s and the function returns without ever testing it" % (c.callee, fmt_paths(f, f.addr_paths(pub))))
                    stop = True; break
                elif ins.op == "unreachable":
                    stop = True; break
            if found or stop:
                continue
            t = b.insts[-1]
            # short-circuit conditions: br on a phi of constants is decided by the incoming edge
            if t.op == "br" and t.ops and t.ops[0][0] == "v" and pos == 0 and prev is not None:
                ph = f.inst[t.ops[0][1]]
                if ph.op == "phi" and ph.bb is b:
                    cst = [o for o, pb in zip(ph.ops, ph.inb) if pb == prev]
                    if cst and cst[0][0] == "c":
                        tg = t.tgt[0] if cst[0][1] != 0 else t.tgt[1]
                        work.append((tg, 0, frozenset(hs), checked, pub, bid, frozenset(cl)))
                        continue
                    if cst and cst[0][0] == "v":
                        nt = _null_test(f, t, hs, cond=cst[0])
                        if nt is not None:
                            work.append((nt[0], 0, frozenset(hs), True, pub, bid, frozenset(cl)))
                            continue
            nt = _null_test(f, t, hs)
            if nt is not None:
                work.append((nt[0], 0, frozenset(hs), True, pub, bid, frozenset(cl)))
                # on the NULL edge the value is NULL: nothing more to check on it
                continue
            for sblk in b.succ:
                work.append((sblk.id, 0, frozenset(hs), checked, pub, bid, frozenset(cl)))
        if found:
            yield found


def rule_null_checks(mod, rep, scope_entry):
    rep.rule("NULL", "every result of a non-aborting allocator (superlu_malloc, malloc, calloc, ?user_malloc, p?gstrf_expand) made in a function reachable from the entry "
             "points is tested against NULL before it is dereferenced or handed to a callee, and is not published into a structure / out-parameter by a function "
             "that never tests it; the typed wrappers (intMalloc, doubleCalloc, ...) are shown to abort on failure", floor=60)
    wr = aborting_wrappers(mod)
    expected_wr = {"intMalloc", "intCalloc", "floatMalloc", "floatCalloc", "doubleMalloc", "doubleCalloc", "complexMalloc", "complexCalloc", "doublecomplexMalloc", "doublecomplexCalloc"}
    for w in sorted(expected_wr):
        if w in mod.funcs:
            rep.check(w in wr, "NULL", "%s#aborts-on-failure" % w, "%s returns non-NULL or exits" % w, "%s can return NULL (its callers do not test the result)" % w, mod.funcs[w].file, w)
    allocs = set(RAW)
    for p in "sdcz":
        allocs.add("%suser_malloc" % p); allocs.add("p%sgstrf_expand" % p)
    scope = mod.transitive_callees(scope_entry)
    for name in sorted(scope):
        f = mod.funcs.get(name)
        if f is None or name in wr:
            continue
        seen = {}
        sites = [c for c in f.calls() if c.callee in allocs]
        if not sites:
            continue
        rep.scope([name])
        bad = {}
        for c, kind, site, detail in analyse(mod, f, allocs):
            bad[c.i] = (kind, site, detail)
        ordn = {}
        for c in sites:
            ordn[c.callee] = ordn.get(c.callee, 0) + 1
            key = "%s#%s@%d" % (name, c.callee, ordn[c.callee])
            if c.i in bad:
                kind, site, detail = bad[c.i]
                rep.fail("NULL", key, detail + " (allocated at %s)" % c.loc, site.loc, name)
            else:
                rep.ok("NULL", key, "result tested before use (or only returned/released)", c.loc, name)
