"""LAYOUT (C05): symbolic size agreement of the per-thread work arrays.

Sizes and offsets are extracted from the IR as polynomials over named symbols (function parameters by name, sp_ienv(k) results,
cached statics that hold sp_ienv(k)), with SUPERLU_MAX kept as a max-node.  Inclusion is decided by coefficient comparison (all symbols
are non-negative): P >= R if P - R has no negative coefficient, and max(P1,P2) >= R if some Pi >= R."""
from ..util import *
from ..ir import strip_casts, fmt_path

RENAME = {"panel_size": "w", "m": "n"}


def padd(a, b, sign=1):
    out = dict(a)
    for k, v in b.items():
        out[k] = out.get(k, 0) + sign * v
        if out[k] == 0:
            del out[k]
    return out


def pmul(a, b):
    out = {}
    for k1, v1 in a.items():
        for k2, v2 in b.items():
            k = tuple(sorted(k1 + k2))
            out[k] = out.get(k, 0) + v1 * v2
            if out[k] == 0:
                del out[k]
    return out


def pconst(c):
    return {(): c} if c else {}


def pge(p, r):
    d = padd(p, r, -1)
    return all(v >= 0 for v in d.values())


def pfmt(p):
    if not p:
        return "0"
    return " + ".join(("%d" % v if not k else ("%s%s" % ("" if v == 1 else "%d*" % v, "*".join(k)))) for k, v in sorted(p.items()))


class Sym(object):
    def __init__(self, mod, f):
        self.mod = mod; self.f = f

    def poly(self, o, depth=0):
        """returns ('p', poly) | ('max', [polys]) | None"""
        f = self.f
        o = strip_casts(f, o)
        if depth > 20:
            return None
        if o[0] == "c":
            return ("p", pconst(o[1]))
        if o[0] == "a":
            nm = f.pname(o[1])
            return ("p", {(RENAME.get(nm, nm),): 1})
        if o[0] != "v":
            return None
        x = f.inst[o[1]]
        if x.op in ("add", "sub", "mul"):
            a = self.poly(x.ops[0], depth + 1); b = self.poly(x.ops[1], depth + 1)
            if a is None or b is None:
                return None
            if a[0] == "p" and b[0] == "p":
                if x.op == "add": return ("p", padd(a[1], b[1]))
                if x.op == "sub": return ("p", padd(a[1], b[1], -1))
                return ("p", pmul(a[1], b[1]))
            # distribute over max (non-negative operands)
            A = a[1] if a[0] == "max" else [a[1]]; B = b[1] if b[0] == "max" else [b[1]]
            if x.op == "sub":
                return None
            fn = padd if x.op == "add" else pmul
            return ("max", [fn(p, q) for p in A for q in B])
        if x.op == "shl" and x.ops[1][0] == "c":
            a = self.poly(x.ops[0], depth + 1)
            if a and a[0] == "p":
                return ("p", pmul(a[1], pconst(1 << x.ops[1][1])))
        if x.op == "call":
            if x.callee == "sp_ienv" and x.ops and x.ops[0][0] == "c":
                return ("p", {("ienv%d" % x.ops[0][1],): 1})
            return None
        if x.op == "load":
            ps = f.addr_paths(x)
            # cached static holding sp_ienv(k): every store to it in the module stores sp_ienv(const)
            if len(ps) == 1 and list(ps)[0][0][0] == "G" and len(list(ps)[0]) == 1:
                g = list(ps)[0][0][1]
                vals = set()
                for ff in self.mod.funcs.values():
                    for s in ff.insts():
                        if s.op == "store" and (("G", g),) in ff.addr_paths(s):
                            v = strip_casts(ff, s.ops[0])
                            if v[0] == "v" and ff.inst[v[1]].op == "call" and ff.inst[v[1]].callee == "sp_ienv" and ff.inst[v[1]].ops[0][0] == "c":
                                vals.add("ienv%d" % ff.inst[v[1]].ops[0][1])
                            else:
                                vals.add("?")
                if len(vals) == 1 and "?" not in vals:
                    return ("p", {(list(vals)[0],): 1})
            if len(ps) == 1 and list(ps)[0][0][0] == "L":
                # address-taken local: single store
                sts = [s for s in f.insts() if s.op == "store" and f.addr_paths(s) == ps]
                if len(sts) == 1:
                    return self.poly(sts[0].ops[0], depth + 1)
            return None
        if x.op == "phi" and len(x.ops) == 2:
            # SUPERLU_MAX(a,b) compiled as branch + phi: both incoming values, guarded by a compare of the same two
            a = self.poly(x.ops[0], depth + 1); b = self.poly(x.ops[1], depth + 1)
            if a and b and a[0] == "p" and b[0] == "p":
                if self._is_max(x):
                    return ("max", [a[1], b[1]])
            return None
        if x.op == "select":
            a = self.poly(x.ops[1], depth + 1); b = self.poly(x.ops[2], depth + 1)
            if a and b and a[0] == "p" and b[0] == "p":
                return ("max", [a[1], b[1]])
        return None

    def _is_max(self, ph):
        """the phi joins a diamond whose condition compares (polynomially) the same two values with > and the greater one flows in on the 'greater' edge"""
        f = self.f
        vals = [self.poly(o, 5) for o in ph.ops]
        if any(v is None or v[0] != "p" for v in vals):
            return False
        for pb in ph.inb:
            for pp in [f.blocks[pb]] + list(f.blocks[pb].pred):
                t = pp.insts[-1]
                if t.op == "br" and t.ops and t.ops[0][0] == "v":
                    C = f.inst[t.ops[0][1]]
                    if C.op == "icmp" and C.pred in ("sgt", "sge", "slt", "sle"):
                        a = self.poly(C.ops[0], 5); b = self.poly(C.ops[1], 5)
                        if not a or not b or a[0] != "p" or b[0] != "p":
                            continue
                        if sorted([repr(sorted(a[1].items())), repr(sorted(b[1].items()))]) != sorted(repr(sorted(v[1].items())) for v in vals):
                            continue
                        big = a if C.pred in ("sgt", "sge") else b
                        true_t = t.tgt[0]
                        ok = True
                        for v, ib in zip(vals, ph.inb):
                            on_true = (ib == true_t or true_t in f.dom()[ib])
                            if on_true and v[1] != big[1]:
                                ok = False
                        if ok:
                            return True
        return False


def total_offset(S, f, o, root):
    """polynomial offset (in elements) of pointer value o from the parameter `root`, summing nested GEPs; None if not rooted there"""
    tot = {}
    o = strip_casts(f, o)
    while True:
        if o == ["a", root]:
            return tot
        if o[0] != "v":
            return None
        x = f.inst[o[1]]
        if x.op == "bitcast":
            o = strip_casts(f, x.ops[0]); continue
        if x.op != "getelementptr":
            return None
        idx = gep_index(f, o)
        p = S.poly(idx) if idx is not None else ("p", {})
        if p is None or p[0] != "p":
            return None
        tot = padd(tot, p[1])
        o = strip_casts(f, x.ops[0])


def rule_work_layout(mod, rep):
    rep.rule("LAYOUT", "per-thread work arrays: (1) the offsets carved by pxgstrf_SetIWork plus the extent of the last array equal at most the (2w+5+NO_MARKER)*n ints "
             "p?gstrf_WorkInit allocates; (2) the tempv[] region p?gstrf_WorkInit reserves (NUM_TEMPV) is at least w*(maxsuper+rowblk), the stride x trip count with "
             "which p?gstrf_bmod2D(_mv2) walks it, and at least 2n; (3) p?gstrf_SetRWork places tempv at dense + w*n and zero-fills exactly the reserved extents; "
             "(4) superlu_?TempSpace uses the same expressions", floor=12)
    f = mod.funcs.get("pxgstrf_SetIWork")
    for prec in "sdcz":
        wi = mod.funcs.get("p%sgstrf_WorkInit" % prec)
        if wi is None:
            continue
        rep.scope([wi.name])
        S = Sym(mod, wi)
        # isize / dsize: arguments of the allocation calls
        ip = None; dp = None
        for c in wi.calls():
            if c.callee == "intCalloc":
                ip = S.poly(c.ops[0])
            if c.callee == "superlu_malloc":
                dp = S.poly(c.ops[0])
        word = 8 if prec in "d" else (4 if prec == "s" else (8 if prec == "c" else 16))
        # (1) integer layout
        if f is not None and ip is not None and ip[0] == "p":
            rep.scope([f.name])
            Sf = Sym(mod, f)
            offs = []
            for s in f.insts():
                if s.op == "store" and f.is_ptr(s.ops[0]):
                    v = strip_casts(f, s.ops[0])
                    if v[0] == "v" and f.inst[v[1]].op == "getelementptr" and (("A", f.pindex("iworkptr")),) in f.paths(f.inst[v[1]].ops[0]):
                        idx = gep_index(f, v)
                        p = Sf.poly(idx) if idx is not None else None
                        offs.append((s, p))
                    elif v == ["a", f.pindex("iworkptr")]:
                        offs.append((s, ("p", {})))
            ok = bool(offs) and all(p is not None and p[0] == "p" for _, p in offs)
            if ok:
                last = max((p[1] for _, p in offs), key=lambda q: sum(q.values()))
                need = padd(last, {("n",): 1})          # lbusy has n entries (ifill(lbusy, m, EMPTY) in the worker)
                got = ip[1]
                # intCalloc receives isize/sizeof(int_t): isize carries the factor; the division is folded by poly() only if exact -> compare in ints
                rep.check(pge(got, need) or pge(got, pmul(need, pconst(4))) or pge(pmul(got, pconst(4)), pmul(need, pconst(4))), "LAYOUT", "%s#iwork" % wi.name,
                          "integer work space %s >= last offset + n = %s" % (pfmt(got), pfmt(need)),
                          "integer work arrays overrun the allocation: allocated %s ints, carved %s" % (pfmt(got), pfmt(need)), wi.file, wi.name)
            else:
                rep.brk("ANALYSIS-BROKEN LAYOUT: offsets of pxgstrf_SetIWork not polynomial")
        elif ip is None:
            # isize is computed in bytes and divided: accept the sdiv form
            for c in wi.calls("intCalloc"):
                v = strip_casts(wi, c.ops[0])
                if v[0] == "v" and wi.inst[v[1]].op in ("sdiv", "udiv"):
                    ip = S.poly(wi.inst[v[1]].ops[0])
            if ip is not None and ip[0] == "p" and f is not None:
                Sf = Sym(mod, f)
                offs = []
                bad_off = False
                for s in f.insts():
                    if s.op == "store" and f.is_ptr(s.ops[0]) and any(p[0][0] == "A" and len(p) == 1 and p[0][1] != f.pindex("iworkptr") for p in f.addr_paths(s)):
                        t = total_offset(Sf, f, s.ops[0], f.pindex("iworkptr"))
                        if t is None:
                            bad_off = True
                        else:
                            offs.append(t)
                if bad_off or len(offs) < 7:
                    rep.brk("ANALYSIS-BROKEN LAYOUT: offsets of pxgstrf_SetIWork not polynomial (%d recognised)" % len(offs))
                    offs = []
                if offs:
                    last = max(offs, key=lambda q: sum(q.values()))
                    need = pmul(padd(last, {("n",): 1}), pconst(4))
                    rep.check(pge(ip[1], need), "LAYOUT", "%s#iwork" % wi.name, "integer work space %s bytes >= (last offset + n)*4 = %s" % (pfmt(ip[1]), pfmt(need)),
                              "integer work arrays overrun the allocation: %s bytes allocated, %s needed" % (pfmt(ip[1]), pfmt(need)), wi.file, wi.name)
        # (2) tempv
        if dp is None:
            rep.brk("ANALYSIS-BROKEN LAYOUT: dsize of %s not recognised" % wi.name)
            continue
        alts = dp[1] if dp[0] == "max" else [dp[1]]
        # remove the dense part w*n*word and the word factor
        tempv_alts = []
        for a in alts:
            t = padd(a, {("n", "w"): word}, -1)
            if all(v % word == 0 for v in t.values()):
                tempv_alts.append({k: v // word for k, v in t.items()})
        for cons in ("p%sgstrf_bmod2D" % prec, "p%sgstrf_bmod2D_mv2" % prec):
            g = mod.funcs.get(cons)
            if g is None:
                continue
            rep.scope([g.name])
            Sg = Sym(mod, g)
            kt = g.pindex("tempv")
            from .threads import loop_bound
            need = None
            for h, body in g.loops():
                lb = loop_bound(g, h, body)
                if not lb:
                    continue
                for ph in g.blocks[h].insts:
                    if ph.op == "phi" and ph.ty.endswith("*") and any(strip_casts(g, o) == ["a", kt] for o, b in zip(ph.ops, ph.inb) if b not in body):
                        # stride
                        for o, b in zip(ph.ops, ph.inb):
                            if b in body:
                                st = strip_casts(g, o)
                                if st[0] == "v" and g.inst[st[1]].op == "getelementptr":
                                    stride = Sg.poly(gep_index(g, st))
                                    # trip count: bound - start of the counter
                                    cnt = lb[0]
                                    start = [Sg.poly(oo) for oo, bb in zip(cnt.ops, cnt.inb) if bb not in body]
                                    bnd = Sg.poly(lb[2])
                                    if stride and bnd and start and start[0] and stride[0] == "p" and bnd[0] == "p" and start[0][0] == "p":
                                        trip = padd(bnd[1], start[0][1], -1)
                                        need = pmul(trip, stride[1])
            if need is None:
                # indexed form: TriTmp = tempv + (jj - start) * stride (or tempv + jw * stride with jw counting from 0) inside a counted loop
                loops_lb = [(h, body, loop_bound(g, h, body)) for h, body in g.loops()]
                for x in g.insts():
                    if x.op != "getelementptr" or strip_casts(g, x.ops[0]) != ["a", kt]:
                        continue
                    idx = gep_index(g, ["v", x.i])
                    if idx is None:
                        continue
                    idx = strip_casts(g, idx)
                    if idx[0] != "v" or g.inst[idx[1]].op != "mul":
                        continue
                    m_ = g.inst[idx[1]]
                    for ka_ in (0, 1):
                        e = strip_casts(g, m_.ops[ka_]); t_ = m_.ops[1 - ka_]
                        sub_x = None
                        if e[0] == "v" and g.inst[e[1]].op == "sub":
                            sub_x = g.inst[e[1]].ops[1]; e = strip_casts(g, g.inst[e[1]].ops[0])
                        if e[0] != "v" or g.inst[e[1]].op != "phi":
                            continue
                        for (h, body, lb) in loops_lb:
                            if not lb or lb[0].i != e[1] or x.bb.id not in body:
                                continue
                            cnt = lb[0]
                            start = [Sg.poly(oo) for oo, bb in zip(cnt.ops, cnt.inb) if bb not in body]
                            bnd = Sg.poly(lb[2]); stride = Sg.poly(t_)
                            if not (start and start[0] and bnd and stride and start[0][0] == "p" and bnd[0] == "p" and stride[0] == "p"):
                                continue
                            if sub_x is not None:
                                sx = Sg.poly(sub_x)
                                if not sx or sx[0] != "p" or sx[1] != start[0][1]:
                                    continue
                            elif start[0][1]:
                                continue          # counter used directly as the column number must start at 0
                            nd = pmul(padd(bnd[1], start[0][1], -1), stride[1])
                            if need is None or pge(nd, need):
                                need = nd
            if need is None:
                rep.brk("ANALYSIS-BROKEN LAYOUT: tempv walk of %s not recognised" % cons)
                continue
            ok = any(pge(a, need) for a in tempv_alts)
            rep.check(ok, "LAYOUT", "%s#tempv" % cons, "tempv reserved max(%s) >= %s walked by %s" % (", ".join(pfmt(a) for a in tempv_alts), pfmt(need), cons),
                      "%s walks tempv[] over %s entries but p%sgstrf_WorkInit reserves only max(%s): the 2-D update writes past the thread's work array" % (
                          cons, pfmt(need), prec, ", ".join(pfmt(a) for a in tempv_alts)), g.file, g.name)
        ok2n = any(pge(a, {("n",): 2}) for a in tempv_alts)
        rep.check(ok2n, "LAYOUT", "%s#tempv>=2n" % wi.name, "tempv reserved >= 2n (1-D update: segment + matrix-vector result)", "tempv[] is smaller than 2n", wi.file, wi.name)
