"""LOCK engine: lock identity, must-held locksets, pairing (L1), guarded-by table (L2),
new-supernode atomicity / post-pass hazard (L3 = D1 of C09)."""
from ..util import *
from ..ir import strip_casts, fmt_path, expr_insts

LU_LOCK_NAMES = ["ULOCK", "LLOCK", "LULOCK", "NSUPER_LOCK", "SCHED_LOCK"]


def lock_id(mod, f, call):
    """('acq'|'rel', lock name) for a lock/unlock call, else None"""
    c = call.callee
    if c in ("pthread_mutex_lock", "pthread_mutex_unlock"):
        kind = "acq" if c.endswith("_lock") and not c.endswith("unlock") else "rel"
        o = call.ops[0]
        for p in f.paths(o):
            if len(p) >= 3 and p[-1][0] == "i" and p[-2][0] == "*" and p[-3][0] == "f" and p[-3][2] == "lu_locks":
                k = _const_gep_index(f, o)
                name = None
                for n in LU_LOCK_NAMES:
                    if mod.enums.get(n) == k:
                        name = n
                return (kind, name or "lu_locks[%s]" % k)
            if len(p) >= 2 and p[-1][0] == "*" and p[-2][0] == "f" and p[-2][2] == "lu_locks":
                # &lu_locks[0]
                for n in LU_LOCK_NAMES:
                    if mod.enums.get(n) == 0:
                        return (kind, n)
            if p[-1][0] == "f" and p[-1][2] == "lock" and p[-1][1] == "LU_stack_t":
                return (kind, "stack.lock")
        return (kind, "?" + fmt_paths(f, f.paths(o)))
    if c in ("__kmpc_critical", "__kmpc_end_critical", "__kmpc_critical_with_hint"):
        kind = "rel" if "end" in c else "acq"
        o = call.ops[2]
        name = None
        if o[0] == "g":
            name = o[1]
        m = name or ""
        m = m.replace(".gomp_critical_user_", "").replace(".var", "")
        if m == "STACK_LOCK":
            m = "stack.lock"      # same logical lock as the pthread build's stack.lock mutex
        return (kind, m or "?")
    return None


def _const_gep_index(f, o):
    while o[0] == "v":
        ins = f.inst[o[1]]
        if ins.op == "bitcast":
            o = ins.ops[0]; continue
        if ins.op == "getelementptr":
            for st in reversed(ins.gep):
                if st["k"] == "idx":
                    v = st["v"]
                    return v[1] if v[0] == "c" else None
        return None
    return None


def locksets(mod, f, entry=frozenset()):
    """must-held lockset before each instruction: dict inst id -> frozenset; plus events list.
    `entry` = locks held at every call site of f (see entry_locks)"""
    TOP = None
    IN = {b.id: TOP for b in f.blocks}
    IN[f.blocks[0].id] = frozenset(entry)
    OUT = {}
    held_at = {}
    events = []
    changed = True
    it = 0
    while changed and it < 50:
        changed = False
        it += 1
        for b in f.blocks:
            if b is not f.blocks[0]:
                ps = [OUT[p.id] for p in b.pred if p.id in OUT and OUT[p.id] is not TOP]
                if not ps:
                    continue
                new_in = frozenset.intersection(*ps)
                if IN[b.id] is TOP or new_in != IN[b.id]:
                    IN[b.id] = new_in
            cur = IN[b.id]
            if cur is TOP:
                continue
            for i in b.insts:
                held_at[i.i] = cur
                if i.op == "call":
                    ev = lock_id(mod, f, i)
                    if ev:
                        if ev[0] == "acq":
                            cur = cur | {ev[1]}
                        else:
                            cur = cur - {ev[1]}
            if OUT.get(b.id, TOP) != cur:
                OUT[b.id] = cur
                changed = True
    for i in f.insts():
        if i.op == "call":
            ev = lock_id(mod, f, i)
            if ev:
                events.append((i, ev))
    return held_at, events


_entry_cache = {}


def entry_locks(mod, context=None):
    """locks that are held at *every* call site of a function (interprocedural must-held set at entry).  Functions without a caller, and functions whose
    address is taken (thread start routines), start with the empty set.  Greatest fixpoint over the direct call graph.  With `context` (a set of function
    names, e.g. everything reachable from the worker routine) only call sites inside that context count: a helper that is also used by the single-threaded
    set-up code is judged by its uses while the threads run."""
    key_ = (id(mod), frozenset(context) if context is not None else None)
    if key_ in _entry_cache:
        return _entry_cache[key_]
    taken = set()
    for f in mod.funcs.values():
        for i in f.insts():
            for o in i.ops:
                if isinstance(o, (list, tuple)) and o and o[0] == "fn":
                    taken.add(o[1])
    TOP = None
    entry = {}
    for f in mod.funcs.values():
        cs = [c for c in mod.callers.get(f.name, []) if c.fn.name != f.name and (context is None or c.fn.name in context)]
        entry[f.name] = TOP if (cs and f.name not in taken) else frozenset()
    # only functions that sit below a lock region matter; iterate a few rounds
    for _ in range(40):
        changed = False
        cand = {}
        for f in mod.funcs.values():
            if context is not None and f.name not in context:
                continue
            e = entry[f.name]
            if e is TOP:
                continue
            calls = [c for c in f.insts() if c.op == "call" and c.callee in mod.funcs and c.callee != f.name]
            if not calls:
                continue
            has_lock = bool(e) or any(lock_id(mod, f, c) for c in f.insts() if c.op == "call")
            held_at = locksets(mod, f, e)[0] if has_lock else None
            for c in calls:
                h = (held_at.get(c.i) if held_at is not None else frozenset()) or frozenset()
                cand[c.callee] = h if c.callee not in cand else (cand[c.callee] & h)
        for name, h in cand.items():
            if name in taken:
                continue
            # all callers must have been evaluated: callers still at TOP contribute nothing yet (optimistic), re-checked next round
            if entry[name] is TOP or entry[name] != h:
                if entry[name] is TOP or h != entry[name]:
                    entry[name] = h
                    changed = True
        if not changed:
            break
    for k, v in entry.items():
        if v is TOP:
            entry[k] = frozenset()
    _entry_cache[key_] = entry
    return entry


def worker_context(mod):
    roots = [f.name for _, f in fam(mod, "p?gstrf_thread")]
    # OpenMP: outlined parallel bodies
    for f in mod.funcs.values():
        if ".omp_outlined." in f.name or f.name.startswith(".omp_outlined"):
            roots.append(f.name)
    return mod.transitive_callees(roots)


def rule_L1_pairing(mod, rep, config="pthread"):
    rep.rule("L1", "every lock acquisition is released on every path to every return, no unlock without the lock held, no re-acquisition while held (all functions of the module)", floor=20)
    for f in sorted(mod.funcs.values(), key=lambda x: x.name):
        held_at, events = locksets(mod, f)
        if not events:
            continue
        rep.scope([f.name])
        acq = [(i, ev) for i, ev in events if ev[0] == "acq"]
        for n, (i, ev) in enumerate(acq):
            key = "%s#%s#%d" % (f.name, ev[1], n)
            # must-not-hold before acquiring; every ret reachable from here: lock not held (may-analysis via reach avoiding releases)
            rels = [j for j, e2 in events if e2[0] == "rel" and e2[1] == ev[1]]
            r = f.reach([i], stop=lambda x: x in rels)
            leaks = [f.inst[x] for x in r if f.inst[x].op == "ret"]
            again = [j for j, e2 in acq if j.i in r and e2[1] == ev[1] and j is not i]
            ok = not leaks and not again and bool(rels) and not ev[1].startswith("?")
            why = []
            if leaks: why.append("a path from the acquisition reaches return at %s without releasing %s" % (leaks[0].loc, ev[1]))
            if again: why.append("%s re-acquired at %s while possibly held" % (ev[1], again[0].loc))
            if not rels: why.append("no release of %s in this function" % ev[1])
            if ev[1].startswith("?"): why.append("lock identity not resolved: %s" % ev[1])
            rep.check(ok, "L1", key, "%s acquired and released on every path" % ev[1], "; ".join(why), i.loc, f.name)
        for n, (i, ev) in enumerate(events):
            if ev[0] == "rel":
                h = held_at.get(i.i)
                if h is not None and ev[1] not in h:
                    rep.fail("L1", "%s#unlock-%s#%d" % (f.name, ev[1], n), "release of %s on a path where it is not held" % ev[1], i.loc, f.name)


# guarded-by table: (description, predicate(f, ins) -> bool, lock name, applies to 'load','store' or both)
def _guard_table(mod):
    BUSY = mod.enums.get("BUSY"); CANPIPE = mod.enums.get("CANPIPE"); DONE = mod.enums.get("DONE")
    T = []
    def add(name, pred, lock, kinds):
        T.append((name, pred, lock, kinds))
    add("taskq.head", lambda f, i: addr_is_field_cell(f, i, "head", "queue_t"), "SCHED_LOCK", ("load", "store"))
    add("taskq.tail", lambda f, i: addr_is_field_cell(f, i, "tail", "queue_t"), "SCHED_LOCK", ("load", "store"))
    add("taskq.count", lambda f, i: addr_is_field_cell(f, i, "count", "queue_t"), "SCHED_LOCK", ("load", "store"))
    add("taskq.queue[]", lambda f, i: addr_is_elem_of(f, i, "queue", "queue_t"), "SCHED_LOCK", ("load", "store"))
    add("pan_status[].ukids", lambda f, i: addr_has_field(f, i, "ukids", "pan_status_t"), "SCHED_LOCK", ("load", "store"))
    add("fb_cols[]", lambda f, i: addr_is_elem_of(f, i, "fb_cols", "pxgstrf_shared_t"), "SCHED_LOCK", ("load", "store"))
    add("tasks_remain(write)", lambda f, i: addr_is_field_cell(f, i, "tasks_remain", "pxgstrf_shared_t"), "SCHED_LOCK", ("store",))
    add("pan_status[].state(write non-DONE)", lambda f, i: addr_has_field(f, i, "state", "pan_status_t") and not is_const(i.ops[0], DONE), "SCHED_LOCK", ("store",))
    add("spin_locks[](set busy)", lambda f, i: addr_is_elem_of(f, i, "spin_locks", "pxgstrf_shared_t") and not is_const(i.ops[0], 0), "SCHED_LOCK", ("store",))
    add("Glu.nextu", lambda f, i: addr_is_field_cell(f, i, "nextu", "GlobalLU_t"), "ULOCK", ("load", "store"))
    add("Glu.nextl", lambda f, i: addr_is_field_cell(f, i, "nextl", "GlobalLU_t"), "LLOCK", ("load", "store"))
    add("Glu.nextlu", lambda f, i: addr_is_field_cell(f, i, "nextlu", "GlobalLU_t"), "LULOCK", ("load", "store"))
    add("Glu.nsuper", lambda f, i: addr_is_field_cell(f, i, "nsuper", "GlobalLU_t"), "NSUPER_LOCK", ("load", "store"))
    add("stack.top1", lambda f, i: addr_is_field_cell(f, i, "top1", "LU_stack_t"), "stack.lock", ("load", "store"))
    add("stack.top2", lambda f, i: addr_is_field_cell(f, i, "top2", "LU_stack_t"), "stack.lock", ("load", "store"))
    add("stack.used", lambda f, i: addr_is_field_cell(f, i, "used", "LU_stack_t"), "stack.lock", ("load", "store"))
    return T


# frozen exceptions: (function pattern, cell, kind) -> reason
L2_EXCEPTIONS = {
    ("p?gstrf_factor_snode", "Glu.nextu", "load"): "value only delimits an empty U extent of a relaxed-supernode column; author's comment 'race condition (no problem!)'",
}


def rule_L2_guarded_by(mod, rep, config="pthread"):
    rep.rule("L2", "in worker context (everything reachable from p?gstrf_thread) each access to a cell of the guarded-by table happens with its lock in the must-held set: "
             "taskq.*, pan_status[].ukids, fb_cols[], writes of tasks_remain, writes of BUSY/CANPIPE states, spin_locks[]:=1 -> SCHED_LOCK; Glu.nextu->ULOCK; "
             "Glu.nextl->LLOCK; Glu.nextlu->LULOCK; Glu.nsuper (incl. NewNsuper's *data)->NSUPER_LOCK; stack.top1/top2/used->stack.lock", floor=30)
    wc = worker_context(mod)
    T = _guard_table(mod)
    exc = {}
    for (pat, cell, kind), why in L2_EXCEPTIONS.items():
        for p in "sdcz":
            exc[(pat.replace("?", p), cell, kind)] = why
    n = 0
    for name in sorted(wc):
        f = mod.funcs.get(name)
        if f is None:
            continue
        held_at = None
        for i in f.insts():
            if i.op not in ("load", "store"):
                continue
            for cell, pred, lk, kinds in T:
                if i.op not in kinds:
                    continue
                try:
                    hit = pred(f, i)
                except Exception:
                    hit = False
                if not hit:
                    continue
                if held_at is None:
                    held_at, _ = locksets(mod, f, entry_locks(mod, wc).get(f.name, frozenset()))
                    rep.scope([f.name])
                n += 1
                key = "%s#%s#%s" % (f.name, cell, i.op)
                h = held_at.get(i.i) or frozenset()
                if (f.name, cell, i.op) in exc:
                    rep.ok("L2", key, "frozen exception: " + exc[(f.name, cell, i.op)], i.loc, f.name)
                    continue
                rep.check(lk in h, "L2", key, "%s of %s under %s" % (i.op, cell, lk),
                          "%s of %s without %s held (held: %s)" % (i.op, cell, lk, sorted(h)), i.loc, f.name)
    # NewNsuper: *data accessed under NSUPER_LOCK, and callers pass &Glu->nsuper
    f = mod.funcs.get("NewNsuper")
    if f is None:
        rep.brk("ANALYSIS-BROKEN L2: NewNsuper not found")
    else:
        held_at, _ = locksets(mod, f)
        kd = f.pindex("data")
        acc = [i for i in f.insts() if i.op in ("load", "store") and (("A", kd),) in f.addr_paths(i)]
        for i in acc:
            h = held_at.get(i.i) or frozenset()
            rep.check("NSUPER_LOCK" in h, "L2", "NewNsuper#*data#%s" % i.op, "%s of *data under NSUPER_LOCK" % i.op,
                      "%s of the supernode counter without NSUPER_LOCK" % i.op, i.loc, f.name)
        if not acc:
            rep.fail("L2", "NewNsuper#*data", "NewNsuper does not touch *data", f.file, f.name)
        for c in mod.callers.get("NewNsuper", []):
            g = c.fn
            ok = any(p[-1] == ("f", "GlobalLU_t", "nsuper") for p in g.paths(c.ops[2]))
            rep.check(ok, "L2", "%s#NewNsuper-arg" % g.name, "NewNsuper is applied to &Glu->nsuper", "NewNsuper is applied to %s" % fmt_paths(g, g.paths(c.ops[2])), c.loc, g.name)
    rep.stats["L2.worker_context_functions"] = len(wc)


def rule_L3_new_supernode_atomic(mod, rep):
    """D1 of C09: supernode numbers (NewNsuper) and subscript storage (Glu_alloc LSUB) must be issued in the same order,
    or the fixupL post-pass must not depend on that order."""
    rep.rule("L3", "(A) at every new-supernode site the NewNsuper call and the following Glu_alloc(...,LSUB,...) call lie in one common critical section, or "
             "(B) fixupL has no read of Glu->lsub[] reachable after a write of Glu->lsub[] (it compacts through a copy), so its result does not depend on "
             "storage order == supernode-number order", floor=8)
    LSUB = mod.enums.get("LSUB")
    f = mod.funcs.get("fixupL")
    B_ok = False
    if f is None:
        rep.brk("ANALYSIS-BROKEN L3: fixupL not found")
    else:
        rep.scope(["fixupL"])
        kG = f.pindex("Glu")
        lds = [i for i in f.insts() if i.op == "load" and addr_is_elem_of(f, i, "lsub", "GlobalLU_t")]
        sts = [i for i in f.insts() if i.op == "store" and addr_is_elem_of(f, i, "lsub", "GlobalLU_t")]
        r = f.reach(sts) if sts else set()
        haz = [l for l in lds if l.i in r]
        B_ok = bool(sts) and not haz
        rep.stats["L3.fixupL"] = {"lsub_loads": len(lds), "lsub_stores": len(sts), "loads_after_store": len(haz)}
        if B_ok:
            rep.ok("L3", "fixupL#hazard-free", "fixupL never reads Glu->lsub[] after writing it: in-place order dependence is gone", f.file, f.name)
        else:
            rep.note("L3: fixupL compacts lsub[] in place (%d reads reachable after a write): correctness depends on discipline (A)" % len(haz))
    sites = 0
    for pat in ("p?gstrf_column_dfs", "p?gstrf_snode_dfs"):
        for prec, g in fam(mod, pat):
            rep.scope([g.name])
            held_at, _ = locksets(mod, g)
            for c in g.calls("NewNsuper"):
                sites += 1
                allocs = [a for a in g.calls("Glu_alloc") if is_const(a.ops[3], LSUB)]
                r = g.reach([c])
                nxt = [a for a in allocs if a.i in r]
                key = "%s#new-supernode" % g.name
                common = None
                if nxt:
                    between = g.reach([c], stop=lambda x: x in nxt)
                    hs = [held_at.get(c.i) or frozenset()] + [held_at.get(x) or frozenset() for x in between]
                    common = frozenset.intersection(*hs)
                A_ok = bool(nxt) and bool(common)
                if A_ok:
                    rep.ok("L3", key, "supernode number and subscript storage issued under %s" % sorted(common), c.loc, g.name)
                elif B_ok:
                    rep.ok("L3", key, "number/storage issued under different locks, harmless because fixupL is order-independent (B)", c.loc, g.name)
                else:
                    rep.fail("L3", key, "supernode number (NewNsuper, NSUPER_LOCK) and its subscript storage (Glu_alloc LSUB, LLOCK) are issued under different locks "
                             "while fixupL compacts lsub[] in place in supernode-number order: with T1:NewNsuper->k, T2:NewNsuper->k+1, T2:Glu_alloc, T1:Glu_alloc "
                             "supernode k's compaction overwrites supernode k+1's unread subscripts (wrong L, wrong X with info=0)", c.loc, g.name)
    if f is not None and not B_ok and sites == 0:
        rep.brk("ANALYSIS-BROKEN L3: no NewNsuper call sites found")
    if f is not None and not B_ok:
        pass
