"""C04 rules: thread create/join pairing, tasks_remain discipline, owner exit, queue writers."""
from ..util import *
from ..ir import strip_casts, fmt_path, expr_insts, dead_edges
from . import lock as lockmod
from . import sync


def loop_of(f, ins):
    """innermost natural loop (header id, body) containing instruction"""
    best = None
    for h, body in f.loops():
        if ins.bb.id in body:
            if best is None or len(body) < len(best[1]):
                best = (h, body)
    return best


def loop_bound(f, h, body):
    """(induction phi inst, pred, bound operand) for the exit test of loop h, or None"""
    for b in sorted(body):
        t = f.blocks[b].insts[-1]
        if t.op != "br" or not t.ops or t.ops[0][0] != "v":
            continue
        if all(x in body for x in t.tgt):
            continue
        c = f.inst[t.ops[0][1]]
        if c.op != "icmp":
            continue
        for k in (0, 1):
            a = strip_casts(f, c.ops[k])
            if a[0] == "v" and f.inst[a[1]].op == "phi" and f.inst[a[1]].bb.id == h:
                return f.inst[a[1]], c.pred if k == 0 else _swap(c.pred), c.ops[1 - k]
    return None


def _swap(p):
    return {"slt": "sgt", "sgt": "slt", "sle": "sge", "sge": "sle", "ult": "ugt", "ugt": "ult", "ule": "uge", "uge": "ule"}.get(p, p)


def rule_T1_create_join(mod, rep, config="pthread"):
    rep.rule("T1", "in p?gstrf every pthread_create (start routine p?gstrf_thread) sits in a loop bounded by nprocs and is followed, on every non-abort path to "
             "p?gstrf_thread_finalize and to return, by a pthread_join loop with the same bound over the same handle array (OpenMP: the fork call joins implicitly)", floor=4)
    for prec, f0 in fam(mod, "p?gstrf"):
        rep.scope([f0.name])
        key = "%s#create-join" % f0.name
        f = f0
        hcall = None
        if not list(f0.calls("pthread_create")) and not list(f0.calls("__kmpc_fork_call")):
            # creation and join moved together into a static helper of p?gstrf: analyse the helper, read its bound through the call
            from .ext import _owned_helpers
            for (hh_, call_, g_) in _owned_helpers(mod, f0):
                if g_ is f0 and list(hh_.calls("pthread_create")):
                    f = hh_; hcall = call_
                    rep.scope([hh_.name])
        creates = list(f.calls("pthread_create"))
        joins = list(f.calls("pthread_join"))
        forks = list(f.calls("__kmpc_fork_call"))
        if forks and not creates:
            # outlined body must call the worker; the fork call returns after all threads finished
            outl = []
            for c in forks:
                for o in c.ops:
                    if o[0] == "ce":
                        for x in o[2].get("ops", []):
                            if x[0] == "fn":
                                outl.append(x[1])
                    if o[0] == "fn":
                        outl.append(o[1])
            callees = mod.transitive_callees(outl)
            rep.check("p%sgstrf_thread" % prec in callees, "T1", key, "OpenMP parallel region runs p?gstrf_thread; implicit join at region end",
                      "OpenMP parallel region does not reach p%sgstrf_thread" % prec, forks[0].loc, f.name)
            continue
        if not creates:
            rep.fail("T1", key, "no thread creation found in %s" % f0.name, f0.file, f0.name)
            continue
        why = []
        for c in creates:
            if not (c.ops[2][0] == "fn" and c.ops[2][1] == "p%sgstrf_thread" % prec):
                why.append("start routine is not p%sgstrf_thread" % prec)
        lc = loop_of(f, creates[0]); lj = loop_of(f, joins[0]) if joins else None
        if not joins:
            why.append("no pthread_join")
        if lc is None:
            why.append("pthread_create not in a loop")
        if joins and lj is None:
            why.append("pthread_join not in a loop")
        if lc and lj:
            bc = loop_bound(f, *lc); bj = loop_bound(f, *lj)
            if not bc or not bj:
                why.append("loop bounds not recognised")
            else:
                if bc[1] != bj[1] or f.paths(bc[2]) != f.paths(bj[2]):
                    why.append("create loop bound %s %s differs from join loop bound %s %s" % (bc[1], fmt_paths(f, f.paths(bc[2])), bj[1], fmt_paths(f, f.paths(bj[2]))))
                nk = f.pindex("superlumt_options")
                bpaths = f.paths(bc[2])
                bo = strip_casts(f, bc[2])
                if hcall is not None and bo[0] == "a" and bo[1] < len(hcall.ops):
                    bpaths = f0.paths(hcall.ops[bo[1]])          # the helper's bound parameter, as passed by p?gstrf
                if not any((len(p) >= 2 and p[-2][0] == "f" and p[-2][2] == "nprocs") or (p[-1][0] == "f" and p[-1][2] == "nprocs") for p in bpaths):
                    why.append("create loop is not bounded by options->nprocs: %s" % fmt_paths(f, f.paths(bc[2])))
                # start values both 0 and step +1
                for nm, b in (("create", bc), ("join", bj)):
                    ph = b[0]
                    st = [o for o in ph.ops if o[0] == "c"]
                    if not st or st[0][1] != 0:
                        why.append("%s loop does not start at 0" % nm)
            # handles: create stores into &arr[i], join loads arr[i]; same array root
            ca = set()
            for c in creates:
                for p in f.paths(c.ops[0]):
                    ca.add(p[:-1] if p[-1] == ("i",) else p)
            ja = set()
            for j in joins:
                for p in f.paths(j.ops[0]):
                    q = p[:-1] if p[-1] == ("*",) else p
                    ja.add(q[:-1] if q and q[-1] == ("i",) else q)
            if ca != ja:
                why.append("join waits on handles %s but threads were created into %s" % (fmt_paths(f, ja), fmt_paths(f, ca)))
            # every path from a create to ret / finalize passes the join loop header
            jh = f.blocks[lj[0]].insts[0]
            r = f.reach(creates, stop=lambda x: x.i == jh.i)
            fin = list(f.calls("p%sgstrf_thread_finalize" % prec))
            if hcall is not None:
                # in p?gstrf itself the helper call precedes finalize on every path
                fin0 = list(f0.calls("p%sgstrf_thread_finalize" % prec))
                r0 = f0.reach([f0.entry()], stop=lambda x: x.i == hcall.i, include_start=True)
                if any(x.i in r0 for x in fin0):
                    why.append("p?gstrf_thread_finalize is reachable without the call that runs and joins the threads")
            bad = [f.inst[x] for x in r if f.inst[x].op == "ret" or f.inst[x] in fin]
            if bad:
                why.append("%s reachable from pthread_create without passing the join loop" % bad[0].loc)
        rep.check(not why, "T1", key, "create loop and join loop agree (bound, handles) and the join loop is on every path to finalize/return", "; ".join(why), creates[0].loc, f.name)


def rule_T2_tasks_remain(mod, rep):
    rep.rule("T2", "tasks_remain is stored only by ParallelInit, EnqueueRelaxSnode (EnqueueDomains) and pxgstrf_scheduler; the scheduler's only store is a decrement by 1 "
             "that, with the BUSY store and the spin_locks[]:=1 loop, lies exactly on the edge where the panel written to *cur_pan is not EMPTY", floor=5)
    allowed = {"ParallelInit", "EnqueueRelaxSnode", "EnqueueDomains", "pxgstrf_scheduler"}
    for f in mod.funcs.values():
        for i in f.insts():
            if i.op == "store" and addr_is_field_cell(f, i, "tasks_remain", "pxgstrf_shared_t"):
                rep.check(f.name in allowed, "T2", "%s#tasks_remain-writer" % f.name, "writer %s is in the allowed set" % f.name,
                          "tasks_remain written in %s (allowed: %s)" % (f.name, sorted(allowed)), i.loc, f.name)
    f = mod.funcs.get("pxgstrf_scheduler")
    if f is None:
        rep.brk("ANALYSIS-BROKEN T2: pxgstrf_scheduler not found")
        return
    rep.scope([f.name])
    EMPTY = -1
    BUSY = mod.enums.get("BUSY")
    kc = f.pindex("cur_pan")
    outs = [s for s in f.insts() if s.op == "store" and (("A", kc),) in f.addr_paths(s)]
    decs = [s for s in f.insts() if s.op == "store" and addr_is_field_cell(f, s, "tasks_remain", "pxgstrf_shared_t")]
    busy = [s for s in f.insts() if s.op == "store" and addr_has_field(f, s, "state", "pan_status_t") and is_const(s.ops[0], BUSY)]
    spin = [s for s in f.insts() if s.op == "store" and addr_is_elem_of(f, s, "spin_locks", "pxgstrf_shared_t") and is_const(s.ops[0], 1)]
    key = "pxgstrf_scheduler#take"
    why = []
    if len(outs) != 1: why.append("expected exactly one store to *cur_pan, found %d" % len(outs))
    if len(decs) != 1: why.append("expected exactly one store to tasks_remain, found %d" % len(decs))
    if not busy: why.append("no BUSY store")
    if not spin: why.append("no spin_locks[]:=1 store")
    if not why:
        V = strip_casts(f, outs[0].ops[0])
        # decrement shape
        d = decs[0]
        dv = strip_casts(f, d.ops[0])
        okdec = False
        if dv[0] == "v":
            di = f.inst[dv[1]]
            if di.op in ("add", "sub"):
                a, b = di.ops
                ld = strip_casts(f, a)
                if ld[0] == "v" and f.inst[ld[1]].op == "load" and addr_is_field_cell(f, f.inst[ld[1]], "tasks_remain") and \
                        ((di.op == "add" and is_const(b, -1)) or (di.op == "sub" and is_const(b, 1))):
                    okdec = True
        if not okdec:
            why.append("the store to tasks_remain is not tasks_remain - 1")
        # take edge: icmp(V, EMPTY)
        take_blocks = []
        for C in f.insts():
            if C.op == "icmp" and C.pred in ("eq", "ne"):
                a, b = strip_casts(f, C.ops[0]), strip_casts(f, C.ops[1])
                if (same_val(a, V) and is_const(b, EMPTY)) or (same_val(b, V) and is_const(a, EMPTY)):
                    for bid, eq_t, ne_t in eq_edge(f, C):
                        take_blocks.append((bid, ne_t, eq_t))
        if not take_blocks:
            why.append("no test of the returned panel against EMPTY guards the take actions")
        else:
            bid, tb, nb = take_blocks[-1]
            T = f.blocks[tb]
            if len(T.pred) != 1:
                why.append("take block has several predecessors")
            dom = f.dom()
            for nm, sites in (("tasks_remain decrement", decs), ("BUSY store", busy), ("spin_locks[]:=1", spin)):
                for s in sites:
                    if tb not in dom[s.bb.id]:
                        why.append("%s at %s is not confined to the take edge (panel != EMPTY)" % (nm, s.loc))
            # on the take edge every path to the *cur_pan store passes the decrement, the BUSY store and the spin loop
            heads = set()
            for h, body in f.loops():
                if any(s.bb.id in body for s in spin):
                    heads.add(f.blocks[h].insts[0].i)
            for nm, stopset in (("tasks_remain decrement", set(x.i for x in decs)), ("BUSY store", set(x.i for x in busy)), ("spin_locks[]:=1 loop", set(x.i for x in spin) | heads)):
                r = f.reach([T.insts[0]], stop=lambda x: x.i in stopset, include_start=True)
                if outs[0].i in r:
                    why.append("a take path reaches the *cur_pan store without the %s" % nm)
            # spin loop covers jcol..jcol+w-1: index phi starts at V and bound is V + pan_status[V].size
            for s in spin:
                lp = loop_of(f, s)
                if not lp:
                    why.append("spin_locks[]:=1 is not in a loop"); continue
                lb = loop_bound(f, *lp)
                if not lb:
                    why.append("spin loop bound not recognised"); continue
                ph, pred, bound = lb
                starts = [strip_casts(f, o) for o in ph.ops]
                if not any(same_val(x, V) for x in starts):
                    why.append("spin loop does not start at the taken panel's first column")
                bi = strip_casts(f, bound)
                okb = False
                if bi[0] == "v" and f.inst[bi[1]].op == "add":
                    ops = [strip_casts(f, o) for o in f.inst[bi[1]].ops]
                    if any(same_val(o, V) for o in ops):
                        oth = [o for o in ops if not same_val(o, V)]
                        if oth and oth[0][0] == "v" and f.inst[oth[0][1]].op == "load" and addr_has_field(f, f.inst[oth[0][1]], "size", "pan_status_t"):
                            okb = pred == "slt"
                if not okb:
                    why.append("spin loop does not run over jcol .. jcol+size-1")
                if not same_val(gep_index(f, s.ops[1]), ["v", ph.i]):
                    why.append("spin store index is not the loop variable")
    rep.check(not why, "T2", key, "take => {--tasks_remain, STATE:=BUSY, spin_locks[jcol..jcol+w-1]:=1}; no take => none of them", "; ".join(why),
              decs[0].loc if decs else f.file, f.name)


def rule_T3_owner_exit(mod, rep):
    rep.rule("T3", "in p?gstrf_thread no feasible path leads from a scheduler call that returned a panel (jcol != EMPTY) to a return without passing the DONE store "
             "(feasibility: branches on constant-return callees are folded; '*info > n' tests are folded when only pivot-column codes can arrive)", floor=4)
    DONE = mod.enums.get("DONE")
    from . import kinds
    for prec, f in fam(mod, "p?gstrf_thread"):
        sched = list(f.calls("pxgstrf_scheduler"))
        dones = [s for s in f.insts() if s.op == "store" and is_const(s.ops[0], DONE) and addr_has_field(f, s, "state", "pan_status_t")]
        dead = dead_edges(f) | kinds.dead_error_edges(mod, f)
        # the no-panel edge
        nop = set()
        for c in sched:
            slot = f.paths(c.ops[3])
            for C in f.insts():
                if C.op == "icmp" and C.pred in ("eq", "ne"):
                    a, b = strip_casts(f, C.ops[0]), strip_casts(f, C.ops[1])
                    for u, v in ((a, b), (b, a)):
                        if is_const(v, -1) and u[0] == "v" and f.inst[u[1]].op == "load" and f.addr_paths(f.inst[u[1]]) == slot:
                            for bid, eq_t, ne_t in eq_edge(f, C):
                                nop.add((bid, eq_t))
        did = set(x.i for x in dones); sid = set(x.i for x in sched)
        r = f.reach(sched, stop=lambda x: x.i in did or x.i in sid, dead_edges=dead | nop)
        bad = [f.inst[x] for x in r if f.inst[x].op == "ret"]
        # report each offending return site (by the call/branch that guards it)
        if not bad:
            rep.ok("T3", "%s#owner-exit" % f.name, "every feasible path from a successful scheduler call to return passes the DONE store (%d dead edges folded)" % len(dead), f.file, f.name)
        else:
            # distinguish exits by the last call before them
            r2 = {}
            for b in f.blocks:
                t = b.insts[-1]
                if t.op == "br" and len(t.tgt) == 2:
                    for tg in t.tgt:
                        tb = f.blocks[tg]
                        if any(i.op == "ret" or (i.op == "br" and len(i.tgt) == 1 and any(x.op == "ret" for x in f.blocks[i.tgt[0]].insts)) for i in tb.insts) and t.i in r and (b.id, tg) not in dead:
                            calls = [i for i in b.insts if i.op == "call" and i.callee and not i.callee.startswith("llvm.")]
                            nm = calls[-1].callee if calls else "cond@%d" % t.ln
                            r2[nm] = t
            if not r2:
                r2 = {"return": bad[0]}
            for nm, t in sorted(r2.items()):
                rep.fail("T3", "%s#exit-after-%s" % (f.name, nm.replace("p%sgstrf_" % prec, "")),
                         "worker may return while owning a panel (its columns stay busy, the panel never becomes DONE, waiting threads spin forever): exit guarded at %s" % t.loc, t.loc, f.name)


def rule_T4_queue_writers(mod, rep):
    rep.rule("T4", "stores into taskq.queue[]/tail occur only in EnqueueRelaxSnode, Enqueue, EnqueueDomains, queue_init and the scheduler; the scheduler's enqueue is "
             "guarded by dad < n and ukids[dad] == 1 and stores CANPIPE first; queue_init allocates n slots", floor=4)
    allowed = {"EnqueueRelaxSnode", "Enqueue", "EnqueueDomains", "queue_init", "pxgstrf_scheduler"}
    for f in mod.funcs.values():
        for i in f.insts():
            if i.op == "store" and (addr_is_elem_of(f, i, "queue", "queue_t") or addr_is_field_cell(f, i, "tail", "queue_t")):
                rep.check(f.name in allowed, "T4", "%s#queue-writer#%s" % (f.name, "tail" if addr_is_field_cell(f, i, "tail", "queue_t") else "slot"),
                          "queue writer %s is in the allowed set" % f.name, "task queue written in %s" % f.name, i.loc, f.name)
    f = mod.funcs.get("pxgstrf_scheduler")
    if f:
        CANPIPE = mod.enums.get("CANPIPE")
        enq = [s for s in f.insts() if s.op == "store" and addr_is_elem_of(f, s, "queue", "queue_t")]
        for n, s in enumerate(enq):
            guards = {"ukids==1": False, "dad<n": False}
            kn = f.pindex("n")
            for C in f.insts():
                if C.op != "icmp":
                    continue
                a, b = strip_casts(f, C.ops[0]), strip_casts(f, C.ops[1])
                if C.pred in ("eq", "ne") and is_const(b, 1) and a[0] == "v" and f.inst[a[1]].op == "load" and addr_has_field(f, f.inst[a[1]], "ukids", "pan_status_t"):
                    for bid, eq_t, ne_t in eq_edge(f, C):
                        if eq_t in f.dom()[s.bb.id] and ne_t not in f.dom()[s.bb.id]:
                            guards["ukids==1"] = True
                if C.pred == "slt" and b[0] == "a" and b[1] == kn and same_val(a, strip_casts(f, s.ops[0])):
                    for blk, t, fl in branch_edges_on(f, C):
                        if t in f.dom()[s.bb.id]:
                            guards["dad<n"] = True
            cp = [x for x in f.insts() if x.op == "store" and is_const(x.ops[0], CANPIPE) and addr_has_field(f, x, "state", "pan_status_t") and f.dominates(x, s)]
            ok = all(guards.values()) and bool(cp)
            rep.check(ok, "T4", "pxgstrf_scheduler#enqueue%d" % n, "parent enqueued only when dad < n and exactly one unfinished child remains, after STATE(dad):=CANPIPE",
                      "scheduler enqueue not guarded as required: %s, CANPIPE-first=%s" % (guards, bool(cp)), s.loc, f.name)
    q = mod.funcs.get("queue_init")
    if q:
        kn = q.pindex("n")
        al = [c for c in q.calls("superlu_malloc")]
        ok = bool(al) and any(any(x.op == "mul" or True for x in expr_insts(q, c.ops[0])) and any(p == (("A", kn),) for i in expr_insts(q, c.ops[0]) for o in i.ops for p in q.paths(o)) for c in al)
        rep.check(ok, "T4", "queue_init#slots", "queue_init allocates a multiple of n slots", "queue_init's allocation size does not depend on n", q.file, q.name)
