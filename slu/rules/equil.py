"""C11: ?laqgs decision table (B.4) and ?gsequ error codes."""
import itertools
from ..util import *
from ..ir import fmt_path, strip_casts, expr_insts
from ..absint import TOP, Partition, Interp, value_roots

DT = {"s": "SLU_S", "d": "SLU_D", "c": "SLU_C", "z": "SLU_Z"}


class LaqPart(Partition):
    def __init__(self, mod, f, prec, r, a1, a2, c, empty=False):
        Partition.__init__(self, rowcnd_ok=r, amax_ge_small=a1, amax_le_large=a2, colcnd_ok=c, empty=empty)
        self.f = f
        kA = f.pindex("A")
        self.k = {"rowcnd": f.pindex("rowcnd"), "colcnd": f.pindex("colcnd"), "amax": f.pindex("amax")}
        self.dim = [(("A", kA), ("f", "SuperMatrix", "nrow"), ("*",)), (("A", kA), ("f", "SuperMatrix", "ncol"), ("*",))]

    def cmp(self, interp, pred, a, b):
        def arg(x, name):
            return x[0] == "p" and x[1] == (("A", self.k[name]),)
        kw = self.kw
        if pred in ("oge", "uge") and arg(a, "rowcnd") and b[0] == "f":
            return kw["rowcnd_ok"]
        if pred in ("oge", "uge") and arg(a, "colcnd") and b[0] == "f":
            return kw["colcnd_ok"]
        if pred in ("oge", "uge") and arg(a, "amax"):
            return kw["amax_ge_small"]
        if pred in ("ole", "ule") and arg(a, "amax"):
            return kw["amax_le_large"]
        if a[0] == "p" and a[1] in self.dim and b == ("c", 0):
            if kw["empty"]:
                return {"sle": True, "sgt": False, "eq": True, "slt": False}.get(pred)
            return {"sle": False, "sgt": True, "eq": False, "slt": False, "ne": True}.get(pred)
        return None


def rule_laqgs_table(mod, rep):
    rep.rule("LAQGS", "?laqgs: for all 16 outcomes of (rowcnd>=0.1, amax>=small, amax<=large, colcnd>=0.1) plus the empty matrix, the flag stored through equed and the "
             "scale vectors multiplied into A's values agree: NOEQUIL<->no store to A; COL<->c only; ROW<->r only; BOTH<->r and c; exactly one flag value per outcome", floor=68)
    e = mod.enums
    rep.exhaustive = True
    for prec, f in fam(mod, "?laqgs"):
        rep.scope([f.name])
        kA = f.pindex("A"); kq = f.pindex("equed"); kr = f.pindex("r"); kc = f.pindex("c")

        def pred_A(it, ins, path, v):
            if path and path[0] == ("A", kA) and len(path) > 1:
                roots = value_roots(it, ins.ops[0])
                rs = set()
                for x in roots:
                    if x.startswith(fmt_path((("A", kr),), f) + "["):
                        rs.add("r")
                    elif x.startswith(fmt_path((("A", kc),), f) + "["):
                        rs.add("c")
                    elif x.startswith("A."):
                        rs.add("A")
                    else:
                        rs.add("other:" + x)
                tgt = "nzval" if any(s[0] == "f" and s[2] == "nzval" for s in path) else fmt_path(path, f)
                return (tgt, ",".join(sorted(rs)))

        def pred_q(it, ins, path, v):
            if path == (("A", kq),):
                return (it._show(v),)
        parts = [LaqPart(mod, f, prec, r, a1, a2, c) for r, a1, a2, c in itertools.product((True, False), repeat=4)]
        parts.append(LaqPart(mod, f, prec, True, True, True, True, empty=True))
        for part in parts:
            it = Interp(mod, f, part, atoms={}, store_atoms=[("A*=", pred_A), ("equed:=", pred_q)])
            it.run()
            kw = part.kw
            c1 = kw["rowcnd_ok"] and kw["amax_ge_small"] and kw["amax_le_large"]
            c2 = kw["colcnd_ok"]
            if kw["empty"] or (c1 and c2):
                exp = {("equed:=", e["NOEQUIL"])}
            elif c1 and not c2:
                exp = {("equed:=", e["COL"]), ("A*=", "nzval", "A,c")}
            elif (not c1) and c2:
                exp = {("equed:=", e["ROW"]), ("A*=", "nzval", "A,r")}
            else:
                exp = {("equed:=", e["BOTH"]), ("A*=", "nzval", "A,c,r")}
            got = set(a for a in it.atoms if a[0] in ("A*=", "equed:="))
            key = "%s#row=%s,amax>=small=%s,amax<=large=%s,col=%s%s" % (f.name, kw["rowcnd_ok"], kw["amax_ge_small"], kw["amax_le_large"], kw["colcnd_ok"], ",empty" if kw["empty"] else "")
            sites = [i.loc for i, a in it.events if a in (got - exp)]
            rep.check(got == exp, "LAQGS", key, "flag and applied factors agree: %s" % sorted(got, key=repr),
                      "flag/application mismatch: expected %s, code does %s" % (sorted(exp, key=repr), sorted(got, key=repr)), sites[0] if sites else f.file, f.name)


def rule_gsequ_codes(mod, rep):
    rep.rule("GSEQU", "?gsequ: the positive info codes are i+1 (zero row i, guarded by r[i]==0) and nrow+j+1 (zero column j, guarded by c[j]==0), each followed by an "
             "immediate return; the argument error is -1", floor=8)
    for prec, f in fam(mod, "?gsequ"):
        rep.scope([f.name])
        ki = f.pindex("info"); kA = f.pindex("A"); kr = f.pindex("r"); kc = f.pindex("c")
        sts = [s for s in f.insts() if s.op == "store" and (("A", ki),) in f.addr_paths(s) and s.ops[0][0] != "c"]
        kinds = {}
        for s in sts:
            v = strip_casts(f, s.ops[0])
            shape = None
            guard = None
            if v[0] == "v" and f.inst[v[1]].op == "add":
                a = f.inst[v[1]]
                ops = [strip_casts(f, o) for o in a.ops]
                if any(is_const(o, 1) for o in ops):
                    oth = [o for o in ops if not is_const(o, 1)][0]
                    if oth[0] == "v" and (f.inst[oth[1]].op == "phi" or (f.inst[oth[1]].op == "load" and all(p[0][0] == "L" and len(p) == 1 for p in f.addr_paths(f.inst[oth[1]])))):
                        shape = "i+1"; idx = oth
                    elif oth[0] == "v" and f.inst[oth[1]].op == "add":
                        b = f.inst[oth[1]]
                        bo = [strip_casts(f, o) for o in b.ops]
                        ld = [o for o in bo if o[0] == "v" and f.inst[o[1]].op == "load" and any(p[-2:] == (("f", "SuperMatrix", "nrow"), ) or (len(p) >= 2 and p[-1] == ("f", "SuperMatrix", "nrow")) for p in f.addr_paths(f.inst[o[1]]))]
                        ph = [o for o in bo if o[0] == "v" and (f.inst[o[1]].op == "phi" or (f.inst[o[1]].op == "load" and all(p[0][0] == "L" and len(p) == 1 for p in f.addr_paths(f.inst[o[1]]))))]
                        if ld and ph:
                            shape = "nrow+j+1"; idx = ph[0]
            # guard: block's single predecessor branches on fcmp oeq (load r[idx] / c[idx], 0.0)
            if shape:
                b = s.bb
                if len(b.pred) == 1:
                    t = b.pred[0].insts[-1]
                    if t.op == "br" and t.ops and t.ops[0][0] == "v":
                        C = f.inst[t.ops[0][1]]
                        if C.op == "fcmp" and C.pred == "oeq" and t.tgt[0] == b.id:
                            for o in C.ops:
                                o = strip_casts(f, o)
                                if o[0] == "v" and f.inst[o[1]].op == "load":
                                    L = f.inst[o[1]]
                                    which = kr if shape == "i+1" else kc
                                    gi = gep_index(f, L.ops[0])
                                    if (("A", which), ("i",)) in f.addr_paths(L) and gi is not None and same_value(f, gi, idx):
                                        guard = True
            # immediate return
            r = f.reach([s])
            imm = not any(f.inst[x].op in ("store", "call") for x in r) and any(f.inst[x].op == "ret" for x in r)
            ok = bool(shape) and bool(guard) and imm
            kinds[shape] = kinds.get(shape, 0) + 1
            rep.check(ok, "GSEQU", "%s#info=%s" % (f.name, shape or "?"), "code %s guarded by the zero test on the same index and returned immediately" % shape,
                      "positive info code malformed: shape=%s guard=%s immediate-return=%s" % (shape, guard, imm), s.loc, f.name)
        if set(kinds) != {"i+1", "nrow+j+1"}:
            rep.fail("GSEQU", "%s#codes" % f.name, "expected exactly the codes i+1 and nrow+j+1, found %s" % kinds, f.file, f.name)


def rule_gsequ_clip(mod, rep):
    rep.rule("GSEQU-CLIP", "?gsequ: each scale factor stored into r[] / c[] as a reciprocal is 1 / min(max(x, smlnum), bignum) with smlnum = ?lamch_(\"S\") and "
             "bignum = 1/smlnum (finite, positive factors); rowcnd/colcnd use the same clipped extremes", floor=8)
    from ..ir import expr_insts
    for prec, f in fam(mod, "?gsequ"):
        kr = f.pindex("r"); kc = f.pindex("c")
        sml = [c for c in f.calls() if (c.callee or "").endswith("lamch_") and c.ops and c.ops[0][0] == "s" and c.ops[0][1][:1].upper() == "S"]
        for which, k in (("r", kr), ("c", kc)):
            recips = []
            for s in f.insts():
                if s.op == "store" and (("A", k), ("i",)) in f.addr_paths(s) and s.ops[0][0] == "v":
                    v = f.inst[strip_casts(f, s.ops[0])[1]] if strip_casts(f, s.ops[0])[0] == "v" else None
                    if v is not None and v.op == "fdiv" and v.ops[0][0] == "f" and v.ops[0][1] == 1.0:
                        recips.append((s, v))
            ok = bool(recips) and bool(sml)
            why = []
            for s, v in recips:
                sl = expr_insts(f, v.ops[1], through_loads=False)
                cmps = [x for x in sl if x.op == "fcmp"]
                # divisor is a phi/select tree over compares against smlnum and bignum
                has_sml = any(any(strip_casts(f, o)[0] == "v" and f.inst[strip_casts(f, o)[1]] in sml for o in x.ops) for x in cmps) or any(x in sml for x in sl)
                has_big = any(x.op == "fdiv" and x.ops[0][0] == "f" and x.ops[0][1] == 1.0 and any(strip_casts(f, o)[0] == "v" and f.inst[strip_casts(f, o)[1]] in sml for o in x.ops[1:]) for x in sl)
                if not has_sml:
                    why.append("lower clip at the safe minimum missing")
                if not has_big:
                    why.append("upper clip at 1/safe-minimum missing")
            if not recips and sml:
                # the inversion loop may live in a static helper: ?scale_invert(n, v, smlnum, bignum)
                for c in f.calls():
                    h = mod.funcs.get(c.callee or "")
                    if h is None or not h.internal or not h.blocks:
                        continue
                    for j, o in enumerate(c.ops):
                        if not any(p == (("A", k),) for p in f.paths(o)):
                            continue
                        for s2 in h.insts():
                            if s2.op == "store" and (("A", j), ("i",)) in h.addr_paths(s2) and strip_casts(h, s2.ops[0])[0] == "v":
                                v2 = h.inst[strip_casts(h, s2.ops[0])[1]]
                                if v2.op == "fdiv" and v2.ops[0][0] == "f" and v2.ops[0][1] == 1.0:
                                    sl2 = expr_insts(h, v2.ops[1], through_loads=False)
                                    # parameters of the helper the divisor is compared with / selected from
                                    pars = set()
                                    for x in sl2:
                                        for z in x.ops:
                                            z = strip_casts(h, z)
                                            if z[0] == "a":
                                                pars.add(z[1])
                                    def is_sml(op):
                                        op = strip_casts(f, op)
                                        return op[0] == "v" and f.inst[op[1]] in sml
                                    def is_big(op):
                                        op = strip_casts(f, op)
                                        if op[0] != "v":
                                            return False
                                        x = f.inst[op[1]]
                                        return x.op == "fdiv" and x.ops[0][0] == "f" and x.ops[0][1] == 1.0 and is_sml(x.ops[1])
                                    has_s = any(q < len(c.ops) and is_sml(c.ops[q]) for q in pars)
                                    has_b = any(q < len(c.ops) and is_big(c.ops[q]) for q in pars)
                                    recips.append((c, v2))
                                    if not has_s:
                                        why.append("lower clip at the safe minimum missing")
                                    if not has_b:
                                        why.append("upper clip at 1/safe-minimum missing")
                ok = bool(recips) and bool(sml)
            rep.check(ok and not why, "GSEQU-CLIP", "%s#%s-factors" % (f.name, which), "1/min(max(x,smlnum),bignum)",
                      "scale factors %s[] are not clipped: %s" % (which, "; ".join(sorted(set(why))) or "no reciprocal store found"), recips[0][0].loc if recips else f.file, f.name)
