"""Rules on p?gstrf_pivotL: candidate guard (O8), return shape, pivot policy table (C02/C06/C16)."""
from ..util import *
from ..ir import strip_casts, fmt_path, expr_insts, expr_loads
from .threads import loop_bound


def _singular_edge(f):
    """(block id, target id) of the edge taken when pivmax == 0.0"""
    out = []
    for C in f.insts():
        if C.op != "fcmp" or C.pred not in ("oeq", "une", "ueq", "one"):
            continue
        if not any(o[0] == "f" and o[1] == 0.0 for o in C.ops):
            continue
        other = [o for o in C.ops if not (o[0] == "f" and o[1] == 0.0)]
        if not other or other[0][0] != "v":
            continue
        v = f.inst[strip_casts(f, other[0])[1]]
        if v.op != "phi":
            continue
        for blk, t, fl in branch_edges_on(f, C):
            out.append((C, blk.id, t if C.pred in ("oeq", "ueq") else fl, fl if C.pred in ("oeq", "ueq") else t))
    return out


def rule_O8_candidate_guard(mod, rep):
    rep.rule("O8", "in p?gstrf_pivotL, on the pivmax == 0 path, the read of the pivot row lsub[lptr+pivptr] is guarded by a test that the candidate range "
             "[nsupc, nsupr) is non-empty (pivptr < nsupr); otherwise a structurally empty column reads past the row list and stores perm_r[garbage]", floor=4)
    for prec, f in fam(mod, "p?gstrf_pivotL"):
        rep.scope([f.name])
        se = _singular_edge(f)
        if not se:
            rep.brk("ANALYSIS-BROKEN O8: pivmax == 0.0 test not found in %s" % f.name)
            continue
        C, bid, sing_t, ok_t = se[0]
        dom = f.dom()
        region = [b for b in f.blocks if sing_t in dom[b.id]]
        lds = [i for b in region for i in b.insts if i.op == "load" and addr_is_elem_of(f, i, "lsub", "GlobalLU_t")]
        if not lds:
            rep.ok("O8", "%s#singular-row-read" % f.name, "no read of the row list on the singular path", C.loc, f.name)
            continue
        # nsupr = bound of the scan loop (the loop whose body updates pivmax)
        bounds = []
        for h, body in f.loops():
            lb = loop_bound(f, h, body)
            if lb:
                bounds.append(lb)
        for n, L in enumerate(lds):
            idx = gep_index(f, L.ops[0])
            guarded = False
            for G in f.insts():
                if G.op != "icmp" or G.pred not in ("slt", "sgt", "sle", "sge"):
                    continue
                a, b = strip_casts(f, G.ops[0]), strip_casts(f, G.ops[1])
                # idx < nsupr  (nsupr: some loop bound value)
                for ph, pred, bound in bounds:
                    bv = strip_casts(f, bound)
                    lt_edge = None
                    if same_val(a, idx) and same_val(b, bv):
                        lt_edge = {"slt": "t", "sge": "f"}.get(G.pred)
                    elif same_val(b, idx) and same_val(a, bv):
                        lt_edge = {"sgt": "t", "sle": "f"}.get(G.pred)
                    if lt_edge is None:
                        continue
                    for blk, t, fl in branch_edges_on(f, G):
                        bad = fl if lt_edge == "t" else t
                        r = f.reach([f.blocks[bad].insts[0]], include_start=True, stop=lambda x: x.i == G.i)
                        if L.i not in r and f.dominates(G, L):
                            guarded = True
            rep.check(guarded, "O8", "%s#singular-row-read%d" % (f.name, n), "pivot-row read on the singular path is guarded by pivptr < nsupr",
                      "on the pivmax == 0 path lsub_ptr[pivptr] is read with no test that a candidate row exists (pivptr == nsupc == nsupr for a structurally empty column): "
                      "out-of-bounds read, then perm_r[garbage] = jcol", L.loc, f.name)


def rule_pivot_return_shape(mod, rep):
    rep.rule("P-RET", "p?gstrf_pivotL returns jcol+1 exactly on the pivmax == 0 edge and the constant 0 on every other path; on the singular edge *usepr is cleared", floor=4)
    for prec, f in fam(mod, "p?gstrf_pivotL"):
        se = _singular_edge(f)
        if not se:
            continue
        C, bid, sing_t, ok_t = se[0]
        dom = f.dom()
        kj = f.pindex("jcol")
        why = []
        n_sing = 0
        for r in f.rets():
            if not r.ops:
                why.append("void return"); continue
            v = strip_casts(f, r.ops[0])
            inc = []
            if v[0] == "v" and f.inst[v[1]].op == "phi":
                ph = f.inst[v[1]]
                inc = list(zip(ph.ops, ph.inb))
            else:
                inc = [(v, r.bb.id)]
            for val, b in inc:
                val = strip_casts(f, val)
                in_sing = sing_t in dom[b]
                is_col = val[0] == "v" and f.inst[val[1]].op == "add" and any(strip_casts(f, o) == ["a", kj] for o in f.inst[val[1]].ops) and any(is_const(o, 1) for o in f.inst[val[1]].ops)
                if in_sing:
                    n_sing += 1
                    if not is_col:
                        why.append("singular path returns something other than jcol+1")
                else:
                    if not is_const(val, 0):
                        why.append("non-singular path returns a non-zero / non-constant value")
        if n_sing == 0:
            why.append("singular edge does not reach a return of its own")
        ku = f.pindex("usepr")
        NO = mod.enums.get("NO")
        clr = [s for b in f.blocks if sing_t in dom[b.id] for s in b.insts if s.op == "store" and (("A", ku),) in f.addr_paths(s) and is_const(s.ops[0], NO)]
        if not clr:
            why.append("*usepr is not cleared on the singular path")
        rep.check(not why, "P-RET", "%s#returns" % f.name, "returns jcol+1 iff pivmax == 0, else 0", "; ".join(sorted(set(why))), C.loc, f.name)


def rule_min_tracking(mod, rep):
    from . import minacc
    rep.rule("M-MIN", "the zero-pivot position that reaches *info is the minimum of the non-zero positions seen: the accumulators in p?gstrf_thread (over pivotL / "
             "factor_snode results), p?gstrf_factor_snode (first non-zero, columns ascending) and p?gstrf_thread_finalize (over threads) are verified by symbolic "
             "case enumeration (V==0, S==0, V<S, V==S, V>S) of one loop iteration, and the accumulator is what is finally stored through info", floor=60)
    for prec in "sdcz":
        # worker
        f = mod.funcs.get("p%sgstrf_thread" % prec)
        if f:
            rep.scope([f.name])
            def cell1(x, f=f):
                return any(len(p) == 2 and p[0] == ("A", 0) and p[1][0] == "f" and p[1][2] == "info" for p in f.addr_paths(x))
            def isV(x, f=f):
                return x.op == "load" and cell1(x)
            n = minacc.verify(f, isV, True, rep, "M-MIN", "singular")
            if n == 0:
                rep.fail("M-MIN", "%s#no-accumulator" % f.name, "no accumulator of singular columns found (each pivotL result would overwrite the previous one)", f.file, f.name)
            _final_store(f, rep, lambda s: any(len(p) == 2 and p[0] == ("A", 0) and p[1][0] == "f" and p[1][2] == "info" for p in f.addr_paths(s)), "thread")
        g = mod.funcs.get("p%sgstrf_factor_snode" % prec)
        if g:
            rep.scope([g.name])
            ki = g.pindex("info")
            def isV2(x, g=g, ki=ki):
                return x.op == "load" and (("A", ki),) in g.addr_paths(x)
            n = minacc.verify(g, isV2, False, rep, "M-MIN", "singular")
            if n == 0:
                rep.fail("M-MIN", "%s#no-accumulator" % g.name, "no accumulator of singular columns found in the relaxed-supernode loop (a later column's status overwrites an earlier zero pivot)", g.file, g.name)
            _final_store(g, rep, lambda s: (("A", ki),) in g.addr_paths(s), "factor_snode")
        h = mod.funcs.get("p%sgstrf_thread_finalize" % prec)
        if h:
            rep.scope([h.name])
            def isV3(x, h=h):
                return x.op == "load" and any(p[0] == ("A", 0) and p[-1][0] == "f" and p[-1][2] == "info" and p[-1][1].endswith("threadarg_t") for p in h.addr_paths(x))
            n = minacc.verify(h, isV3, True, rep, "M-MIN", "iinfo")
            if n == 0:
                rep.fail("M-MIN", "%s#no-accumulator" % h.name, "thread results are not combined by a minimum", h.file, h.name)
            _final_store(h, rep, lambda s: any(len(p) >= 2 and p[-1] == ("*",) and p[-2][0] == "f" and p[-2][2] == "info" and p[-2][1] == "pxgstrf_shared_t" for p in h.addr_paths(s)), "finalize")


def _final_store(f, rep, is_info_store, label):
    """the store to the info cell that reaches the normal return last carries a loop-header phi (the accumulator)"""
    sts = [s for s in f.insts() if s.op == "store" and is_info_store(s)]
    last = []
    for s in sts:
        r = f.reach([s], stop=lambda x: x in sts)
        if any(f.inst[x].op == "ret" for x in r) and not any(x.i in r for x in sts if x is not s):
            last.append(s)
    ok = False
    for s in last:
        v = strip_casts(f, s.ops[0])
        if v[0] == "v" and f.inst[v[1]].op == "phi":
            ok = True
    # among 'last' stores, at least one is the accumulator and all others are constants / callee results on early exits
    rep.check(ok, "M-MIN", "%s#final-store" % f.name, "the value stored through info before the normal return is the accumulator",
              "no store of the accumulated minimum reaches the normal return (%s)" % label, last[0].loc if last else f.file, f.name)
