"""Rules on p?gstrf_pivotL: candidate guard (O8), return shape, pivot policy table (C02/C06/C16)."""
from ..util import *
from ..ir import strip_casts, fmt_path, expr_insts, expr_loads
from .threads import loop_bound


def _singular_edge(f):
    """(block id, target id) of the edge taken when pivmax == 0.0"""
    out = []
    for C in f.insts():
        if C.op != "fcmp" or C.pred not in ("oeq", "une", "ueq", "one"):
            continue
        if not any(o[0] == "f" and o[1] == 0.0 for o in C.ops):
            continue
        other = [o for o in C.ops if not (o[0] == "f" and o[1] == 0.0)]
        if not other or other[0][0] != "v":
            continue
        v = f.inst[strip_casts(f, other[0])[1]]
        if v.op != "phi":
            continue
        for blk, t, fl in branch_edges_on(f, C):
            out.append((C, blk.id, t if C.pred in ("oeq", "ueq") else fl, fl if C.pred in ("oeq", "ueq") else t))
    return out


def rule_O8_candidate_guard(mod, rep):
    rep.rule("O8", "in p?gstrf_pivotL, on the pivmax == 0 path, the read of the pivot row lsub[lptr+pivptr] is guarded by a test that the candidate range "
             "[nsupc, nsupr) is non-empty (pivptr < nsupr); otherwise a structurally empty column reads past the row list and stores perm_r[garbage]", floor=4)
    for prec, f in fam(mod, "p?gstrf_pivotL"):
        rep.scope([f.name])
        se = _singular_edge(f)
        if not se:
            rep.brk("ANALYSIS-BROKEN O8: pivmax == 0.0 test not found in %s" % f.name)
            continue
        C, bid, sing_t, ok_t = se[0]
        dom = f.dom()
        region = [b for b in f.blocks if sing_t in dom[b.id]]
        lds = [i for b in region for i in b.insts if i.op == "load" and addr_is_elem_of(f, i, "lsub", "GlobalLU_t")]
        if not lds:
            rep.ok("O8", "%s#singular-row-read" % f.name, "no read of the row list on the singular path", C.loc, f.name)
            continue
        # nsupr = bound of the scan loop (the loop whose body updates pivmax)
        bounds = []
        for h, body in f.loops():
            lb = loop_bound(f, h, body)
            if lb:
                bounds.append(lb)
        for n, L in enumerate(lds):
            idx = gep_index(f, L.ops[0])
            guarded = False
            for G in f.insts():
                if G.op != "icmp" or G.pred not in ("slt", "sgt", "sle", "sge"):
                    continue
                a, b = strip_casts(f, G.ops[0]), strip_casts(f, G.ops[1])
                # idx < nsupr  (nsupr: some loop bound value)
                for ph, pred, bound in bounds:
                    bv = strip_casts(f, bound)
                    lt_edge = None
                    if same_val(a, idx) and same_val(b, bv):
                        lt_edge = {"slt": "t", "sge": "f"}.get(G.pred)
                    elif same_val(b, idx) and same_val(a, bv):
                        lt_edge = {"sgt": "t", "sle": "f"}.get(G.pred)
                    if lt_edge is None:
                        continue
                    for blk, t, fl in branch_edges_on(f, G):
                        bad = fl if lt_edge == "t" else t
                        r = f.reach([f.blocks[bad].insts[0]], include_start=True, stop=lambda x: x.i == G.i)
                        if L.i not in r and f.dominates(G, L):
                            guarded = True
            rep.check(guarded, "O8", "%s#singular-row-read%d" % (f.name, n), "pivot-row read on the singular path is guarded by pivptr < nsupr",
                      "on the pivmax == 0 path lsub_ptr[pivptr] is read with no test that a candidate row exists (pivptr == nsupc == nsupr for a structurally empty column): "
                      "out-of-bounds read, then perm_r[garbage] = jcol", L.loc, f.name)


def rule_pivot_return_shape(mod, rep):
    rep.rule("P-RET", "p?gstrf_pivotL returns jcol+1 exactly on the pivmax == 0 edge and the constant 0 on every other path; on the singular edge *usepr is cleared", floor=4)
    for prec, f in fam(mod, "p?gstrf_pivotL"):
        se = _singular_edge(f)
        if not se:
            continue
        C, bid, sing_t, ok_t = se[0]
        dom = f.dom()
        kj = f.pindex("jcol")
        why = []
        n_sing = 0
        for r in f.rets():
            if not r.ops:
                why.append("void return"); continue
            v = strip_casts(f, r.ops[0])
            inc = []
            if v[0] == "v" and f.inst[v[1]].op == "phi":
                ph = f.inst[v[1]]
                inc = list(zip(ph.ops, ph.inb))
            else:
                inc = [(v, r.bb.id)]
            for val, b in inc:
                val = strip_casts(f, val)
                in_sing = sing_t in dom[b]
                is_col = val[0] == "v" and f.inst[val[1]].op == "add" and any(strip_casts(f, o) == ["a", kj] for o in f.inst[val[1]].ops) and any(is_const(o, 1) for o in f.inst[val[1]].ops)
                if in_sing:
                    n_sing += 1
                    if not is_col:
                        why.append("singular path returns something other than jcol+1")
                else:
                    if not is_const(val, 0):
                        why.append("non-singular path returns a non-zero / non-constant value")
        if n_sing == 0:
            why.append("singular edge does not reach a return of its own")
        ku = f.pindex("usepr")
        NO = mod.enums.get("NO")
        clr = [s for b in f.blocks if sing_t in dom[b.id] for s in b.insts if s.op == "store" and (("A", ku),) in f.addr_paths(s) and is_const(s.ops[0], NO)]
        if not clr:
            why.append("*usepr is not cleared on the singular path")
        rep.check(not why, "P-RET", "%s#returns" % f.name, "returns jcol+1 iff pivmax == 0, else 0", "; ".join(sorted(set(why))), C.loc, f.name)


def rule_min_tracking(mod, rep):
    from . import minacc
    rep.rule("M-MIN", "the zero-pivot position that reaches *info is the minimum of the non-zero positions seen: the accumulators in p?gstrf_thread (over pivotL / "
             "factor_snode results), p?gstrf_factor_snode (first non-zero, columns ascending) and p?gstrf_thread_finalize (over threads) are verified by symbolic "
             "case enumeration (V==0, S==0, V<S, V==S, V>S) of one loop iteration, and the accumulator is what is finally stored through info", floor=60)
    for prec in "sdcz":
        # worker
        f = mod.funcs.get("p%sgstrf_thread" % prec)
        if f:
            rep.scope([f.name])
            def cell1(x, f=f):
                return any(len(p) == 2 and p[0] == ("A", 0) and p[1][0] == "f" and p[1][2] == "info" for p in f.addr_paths(x))
            def isV(x, f=f):
                return x.op == "load" and cell1(x)
            n = minacc.verify(f, isV, True, rep, "M-MIN", "singular")
            if n == 0:
                rep.fail("M-MIN", "%s#no-accumulator" % f.name, "no accumulator of singular columns found (each pivotL result would overwrite the previous one)", f.file, f.name)
            _final_store(f, rep, lambda s: any(len(p) == 2 and p[0] == ("A", 0) and p[1][0] == "f" and p[1][2] == "info" for p in f.addr_paths(s)), "thread")
        g = mod.funcs.get("p%sgstrf_factor_snode" % prec)
        if g:
            rep.scope([g.name])
            ki = g.pindex("info")
            def isV2(x, g=g, ki=ki):
                return x.op == "load" and (("A", ki),) in g.addr_paths(x)
            n = minacc.verify(g, isV2, False, rep, "M-MIN", "singular")
            if n == 0:
                rep.fail("M-MIN", "%s#no-accumulator" % g.name, "no accumulator of singular columns found in the relaxed-supernode loop (a later column's status overwrites an earlier zero pivot)", g.file, g.name)
            _final_store(g, rep, lambda s: (("A", ki),) in g.addr_paths(s), "factor_snode")
        h = mod.funcs.get("p%sgstrf_thread_finalize" % prec)
        if h:
            rep.scope([h.name])
            def isV3(x, h=h):
                return x.op == "load" and any(p[0] == ("A", 0) and p[-1][0] == "f" and p[-1][2] == "info" and p[-1][1].endswith("threadarg_t") for p in h.addr_paths(x))
            n = minacc.verify(h, isV3, True, rep, "M-MIN", "iinfo")
            if n == 0:
                rep.fail("M-MIN", "%s#no-accumulator" % h.name, "thread results are not combined by a minimum", h.file, h.name)
            _final_store(h, rep, lambda s: any(len(p) >= 2 and p[-1] == ("*",) and p[-2][0] == "f" and p[-2][2] == "info" and p[-2][1] == "pxgstrf_shared_t" for p in h.addr_paths(s)), "finalize")


def _final_store(f, rep, is_info_store, label):
    """the store to the info cell that reaches the normal return last carries a loop-header phi (the accumulator)"""
    sts = [s for s in f.insts() if s.op == "store" and is_info_store(s)]
    last = []
    for s in sts:
        r = f.reach([s], stop=lambda x: x in sts)
        if any(f.inst[x].op == "ret" for x in r) and not any(x.i in r for x in sts if x is not s):
            last.append(s)
    ok = False
    for s in last:
        v = strip_casts(f, s.ops[0])
        if v[0] == "v" and f.inst[v[1]].op == "phi":
            ok = True
    # among 'last' stores, at least one is the accumulator and all others are constants / callee results on early exits
    rep.check(ok, "M-MIN", "%s#final-store" % f.name, "the value stored through info before the normal return is the accumulator",
              "no store of the accumulated minimum reaches the normal return (%s)" % label, last[0].loc if last else f.file, f.name)


# ------------------------------------------------------------------ pivot policy (C02 / C16 / C08)

def _cd_closure(f, bid, limit=40):
    """transitive control-dependence edges of a block: set of (branch block id, successor id)"""
    cd = f.control_deps()
    out = set()
    work = [bid]
    seen = set()
    while work and len(seen) < limit:
        b = work.pop()
        if b in seen:
            continue
        seen.add(b)
        for (a, s) in cd.get(b, ()):
            if (a, s) not in out:
                out.add((a, s))
                work.append(a)
    return out


def _absval_of(f, o, _depth=0):
    """if operand o is |x| (fabs / llvm.fabs / ?_abs1 of a loaded or addressed element) return the index value of that element, else None"""
    o = strip_casts(f, o)
    if o[0] != "v":
        return None
    c = f.inst[o[1]]
    if c.op == "phi" and not _depth:
        # (found ? |x| : 0.0): a zero fails the '!= 0' clause of the policy, so passing both clauses means the value was |x|
        vals = [_absval_of(f, x, 1) for x in c.ops if not (strip_casts(f, x)[0] == "f" and strip_casts(f, x)[1] == 0.0)]
        if len(vals) == 1 and vals[0] and len(c.ops) == 2:
            return vals[0]
        return None
    if c.op != "call" or not c.callee:
        return None
    if not (c.callee.startswith("llvm.fabs") or c.callee in ("fabs", "fabsf", "c_abs1", "z_abs1", "c_abs", "z_abs")):
        return None
    a = strip_casts(f, c.ops[0])
    if a[0] != "v":
        return None
    x = f.inst[a[1]]
    if x.op == "load":
        return gep_index(f, x.ops[0]), x
    if x.op == "getelementptr":
        return gep_index(f, a), x
    return None


def rule_pivot_policy(mod, rep, which=("user", "diag", "max", "record", "swap", "scan")):
    rep.rule("P-POLICY", "p?gstrf_pivotL: thresh = u*pivmax; a non-max candidate (the row recorded for reuse, looked up under *usepr through inv_perm_r[jcol]; the original "
             "diagonal, looked up through inv_perm_c[jcol]) replaces the max-magnitude choice only on an edge guarded by |cand| != 0 and |cand| >= thresh "
             "(diagonal: also found, and only when the recorded row is not in use); the candidate scan starts at the pivot position nsupc; perm_r[pivrow]=jcol and "
             "inv_perm_r[jcol]=pivrow are stored on every path to return; the row interchange covers columns 0..nsupc", floor=20)
    e = mod.enums
    for prec, f in fam(mod, "p?gstrf_pivotL"):
        rep.scope([f.name])
        ku = f.pindex("u"); kj = f.pindex("jcol"); kup = f.pindex("usepr"); kpr = f.pindex("perm_r"); kipr = f.pindex("inv_perm_r"); kipc = f.pindex("inv_perm_c"); kpv = f.pindex("pivrow")
        from .threads import loop_bound
        # scan loop: the loop whose body updates a float phi under fcmp ogt (pivmax)
        scan = None
        for h, body in f.loops():
            for ph in f.blocks[h].insts:
                if ph.op == "phi" and ph.ty in ("double", "float"):
                    scan = (h, body, ph)
            if scan:
                break
        if not scan:
            rep.brk("ANALYSIS-BROKEN P-POLICY: scan loop not found in %s" % f.name)
            continue
        h, body, pivmax = scan
        lb = loop_bound(f, h, body)
        hdr = f.blocks[h]
        iphis = [p for p in hdr.insts if p.op == "phi" and p.ty.startswith("i")]
        isub = lb[0] if lb else None
        # classify integer header phis by how they are updated inside the loop
        cand = {}
        for ph in iphis:
            if isub is not None and ph.i == isub.i:
                continue
            kind = None
            for o, b in zip(ph.ops, ph.inb):
                if b in body:
                    # value from the latch: a phi merging 'ph' and isub under some guard
                    for x in expr_insts(f, o):
                        pass
            # guards: find blocks inside the loop where the merged value takes isub
            for blk in [f.blocks[b] for b in body]:
                for q in blk.insts:
                    if q.op == "phi" and q is not ph and any(same_val(strip_casts(f, o), ["v", ph.i]) for o in q.ops) and any(isub is not None and same_val(strip_casts(f, o), ["v", isub.i]) for o in q.ops):
                        # block from which isub arrives
                        for o, pb in zip(q.ops, q.inb):
                            if isub is not None and same_val(strip_casts(f, o), ["v", isub.i]):
                                for (a, s) in f.control_deps().get(pb, ()):
                                    t = f.blocks[a].insts[-1]
                                    if t.ops and t.ops[0][0] == "v":
                                        C = f.inst[t.ops[0][1]]
                                        if C.op == "fcmp" and C.pred in ("ogt", "ugt"):
                                            kind = "max"
                                        elif C.op == "icmp" and C.pred in ("eq", "ne"):
                                            # compare lsub_ptr[isub] with a target
                                            tg = None
                                            for oo in C.ops:
                                                oo = strip_casts(f, oo)
                                                if oo[0] == "v" and f.inst[oo[1]].op == "load":
                                                    L = f.inst[oo[1]]
                                                    ps = f.addr_paths(L)
                                                    if (("A", kipc), ("i",)) in ps:
                                                        tg = "diag"
                                                    elif (("A", kpv),) in ps:
                                                        tg = "user"
                                                    elif any(p[0] == ("A", kipc) for p in ps):
                                                        tg = "diag"
                                                if oo[0] == "v" and f.inst[oo[1]].op == "load" and (("A", kipc), ("i",)) in f.addr_paths(f.inst[oo[1]]):
                                                    tg = "diag"
                                            # diagind is loaded once before the loop
                                            if tg is None:
                                                for oo in C.ops:
                                                    oo = strip_casts(f, oo)
                                                    if oo[0] == "v" and any(p[:1] == (("A", kipc),) for p in f.paths(oo)):
                                                        tg = "diag"
                                                    if oo[0] == "v" and any(p[:1] == (("A", kpv),) for p in f.paths(oo)):
                                                        tg = "user"
                                            kind = kind or tg
            if kind:
                cand[ph.i] = kind
        kinds = set(cand.values())
        rep.check({"max", "diag", "user"} <= kinds, "P-POLICY", "%s#candidates" % f.name, "scan loop tracks max-magnitude, recorded-row and diagonal candidates",
                  "scan loop candidates found: %s (expected max, user, diag; diagonal must be located through inv_perm_c[jcol], recorded row through *pivrow=inv_perm_r[jcol])" % sorted(kinds), hdr.insts[0].loc, f.name)
        # scan start == pivot position used by CDIV / interchange (nsupc)
        if isub is not None:
            start = [strip_casts(f, o) for o, b in zip(isub.ops, isub.inb) if b not in body]
            nsupc = None
            for x in f.insts():
                if x.op == "sub" and strip_casts(f, x.ops[0]) == ["a", kj]:
                    nsupc = ["v", x.i]
            rep.check(bool(start) and nsupc is not None and same_val(start[0], nsupc), "P-POLICY", "%s#scan-start" % f.name, "candidate scan starts at nsupc = jcol - fsupc",
                      "the candidate scan does not start at the pivot position nsupc (an entry stored there, e.g. the diagonal, is never recognised)", isub.loc, f.name)
            init_ok = True
            for pid_, kd in cand.items():
                ph = f.inst[pid_]
                ini = [strip_casts(f, o) for o, b in zip(ph.ops, ph.inb) if b not in body]
                if kd == "diag" and not (ini and is_const(ini[0], -1)):
                    init_ok = False
            rep.check(init_ok, "P-POLICY", "%s#diag-init" % f.name, "diag starts as EMPTY", "diag does not start as EMPTY (-1)", hdr.insts[0].loc, f.name)
        # thresh
        thr = [x for x in f.insts() if x.op == "fmul" and any(strip_casts(f, o) == ["a", ku] or (strip_casts(f, o)[0] == "v" and f.inst[strip_casts(f, o)[1]].op in ("fpext", "fptrunc") and False) for o in x.ops)]
        thr = [x for x in f.insts() if x.op == "fmul" and any(_is_param(f, o, ku) for o in x.ops) and any(_is_phi_chain(f, o, pivmax) for o in x.ops)]
        rep.check(bool(thr), "P-POLICY", "%s#thresh" % f.name, "thresh = u * pivmax", "no product of the threshold parameter u with the column maximum found", f.file, f.name)
        # selection edges after the loop
        n_sel = {"user": 0, "diag": 0}
        for q in f.insts():
            if q.op != "phi" or q.bb.id in body or not q.ty.startswith("i"):
                continue
            for o, pb in zip(q.ops, q.inb):
                o = strip_casts(f, o)
                if o[0] != "v" or o[1] not in cand or cand[o[1]] == "max":
                    continue
                kd = cand[o[1]]
                # only edges where this candidate is *chosen* (the other incoming is a different value)
                if all(same_val(strip_casts(f, x), o) for x in q.ops):
                    continue
                n_sel[kd] += 1
                clo = _cd_closure(f, pb)
                g_thr = g_nz = g_found = False
                u_yes = u_no = False
                for (a, s) in clo:
                    t = f.blocks[a].insts[-1]
                    if not (t.op == "br" and t.ops and t.ops[0][0] == "v"):
                        continue
                    C = f.inst[t.ops[0][1]]
                    taken_true = (s == t.tgt[0])
                    if C.op == "fcmp":
                        av = [_absval_of(f, x) for x in C.ops]
                        for k in (0, 1):
                            if av[k] and same_val(av[k][0], o):
                                other = strip_casts(f, C.ops[1 - k])
                                if other[0] == "f" and other[1] == 0.0:
                                    if (C.pred in ("one", "une") and taken_true) or (C.pred in ("oeq", "ueq") and not taken_true):
                                        g_nz = True
                                elif other[0] == "v" and f.inst[other[1]] in thr:
                                    ge = (C.pred in ("oge", "uge") and k == 0) or (C.pred in ("ole", "ule") and k == 1)
                                    lt = (C.pred in ("olt", "ult") and k == 0) or (C.pred in ("ogt", "ugt") and k == 1)
                                    if (ge and taken_true) or (lt and not taken_true):
                                        g_thr = True
                    elif C.op == "icmp":
                        a0, b0 = strip_casts(f, C.ops[0]), strip_casts(f, C.ops[1])
                        if same_val(a0, o) and is_const(b0, 0) and ((C.pred == "sge" and taken_true) or (C.pred == "slt" and not taken_true)):
                            g_found = True
                        if same_val(a0, o) and is_const(b0, -1) and ((C.pred in ("sgt", "ne") and taken_true) or (C.pred in ("sle", "eq") and not taken_true)):
                            g_found = True
                        for x, y in ((a0, b0), (b0, a0)):
                            if x[0] == "v" and f.inst[x[1]].op == "load" and (("A", kup),) in f.addr_paths(f.inst[x[1]]) and y[0] == "c":
                                eqedge = (C.pred == "eq" and taken_true) or (C.pred == "ne" and not taken_true)
                                if y[1] == e["YES"] and eqedge: u_yes = True
                                if y[1] == e["NO"] and eqedge: u_no = True
                                if y[1] == e["YES"] and not eqedge and C.pred in ("eq", "ne"): u_no = True
                                if y[1] == e["NO"] and not eqedge and C.pred in ("eq", "ne"): u_yes = True
                why = []
                if not g_thr: why.append("not guarded by |candidate| >= u*pivmax")
                if not g_nz: why.append("not guarded by |candidate| != 0")
                if kd == "diag" and not g_found: why.append("not guarded by 'diagonal found' (diag >= 0)")
                if kd == "user" and not u_yes: why.append("not guarded by *usepr == YES")
                if kd == "diag" and not u_no: why.append("not guarded by *usepr == NO")
                rep.check(not why, "P-POLICY", "%s#choose-%s" % (f.name, kd), "%s candidate chosen only when non-zero and >= u*pivmax%s" % (kd, " and found" if kd == "diag" else ""),
                          "%s candidate can be chosen on an edge %s" % (kd, "; ".join(why)), f.blocks[pb].insts[-1].loc, f.name)
        for kd in ("user", "diag"):
            if n_sel[kd] == 0:
                rep.fail("P-POLICY", "%s#choose-%s" % (f.name, kd), "the %s candidate is never selected after the scan (policy clause missing)" % kd, f.file, f.name)
        # record
        for nm, k, valpred in (("perm_r[pivrow]=jcol", kpr, lambda s: strip_casts(f, s.ops[0]) == ["a", kj]),
                               ("inv_perm_r[jcol]=pivrow", kipr, lambda s: same_val(gep_index(f, s.ops[1]), ["a", kj]))):
            sts = [s for s in f.insts() if s.op == "store" and (("A", k), ("i",)) in f.addr_paths(s) and valpred(s)]
            r = f.reach([f.entry()], stop=lambda x: x in sts, include_start=True)
            leak = [f.inst[x] for x in r if f.inst[x].op == "ret"]
            rep.check(bool(sts) and not leak, "P-POLICY", "%s#record-%s" % (f.name, nm.split("[")[0]), "%s on every path to return" % nm,
                      "a return is reachable without %s" % nm, leak[0].loc if leak else f.file, f.name)
        # interchange loop bound
        okswap = False
        for hh, bb in f.loops():
            if hh == h:
                continue
            l2 = loop_bound(f, hh, bb)
            if l2 and l2[1] == "sle" and any((s.op == "store" and addr_is_elem_of(f, s, "lusup")) or (s.op == "call" and (s.callee or "").startswith("llvm.memcpy") and any(len(p) >= 3 and p[-3][0] == "f" and p[-3][2] == "lusup" for p in f.paths(s.ops[0]))) for b in bb for s in f.blocks[b].insts):
                bv = strip_casts(f, l2[2])
                if bv[0] == "v" and f.inst[bv[1]].op == "sub" and strip_casts(f, f.inst[bv[1]].ops[0]) == ["a", kj]:
                    okswap = True
        if not okswap:
            # the interchange moved into a static helper: a loop `<= nsupc` over a pointer parameter that receives an address inside lusup[]
            from .ext import _owned_helpers
            for (hh_, call_, g_) in _owned_helpers(mod, f):
                if g_ is not f:
                    continue
                for h2, b2 in hh_.loops():
                    l2 = loop_bound(hh_, h2, b2)
                    if not l2 or l2[1] != "sle":
                        continue
                    bv = strip_casts(hh_, l2[2])
                    if bv[0] != "a" or bv[1] >= len(call_.ops):
                        continue
                    cb = strip_casts(f, call_.ops[bv[1]])
                    bound_ok = cb[0] == "v" and f.inst[cb[1]].op == "sub" and strip_casts(f, f.inst[cb[1]].ops[0]) == ["a", kj]
                    stores_lusup = False
                    for b in b2:
                        for s_ in hh_.blocks[b].insts:
                            if s_.op == "store" or (s_.op == "call" and (s_.callee or "").startswith("llvm.memcpy")):
                                tgt_ = s_.ops[1] if s_.op == "store" else s_.ops[0]
                                for p_ in hh_.paths(tgt_):
                                    if p_[0][0] == "A" and p_[0][1] < len(call_.ops) and any(any(st[0] == "f" and st[2] == "lusup" for st in q if isinstance(st, tuple) and len(st) >= 3) for q in f.paths(call_.ops[p_[0][1]])):
                                        stores_lusup = True
                    if bound_ok and stores_lusup:
                        okswap = True
        rep.check(okswap, "P-POLICY", "%s#interchange" % f.name, "row interchange loop runs icol = 0..nsupc inclusive",
                  "the numerical row interchange does not cover columns 0..nsupc of the supernode", f.file, f.name)


def _is_param(f, o, k):
    o = strip_casts(f, o)
    return o == ["a", k]


def _is_phi_chain(f, o, ph, depth=0):
    o = strip_casts(f, o)
    if o[0] != "v":
        return False
    if o[1] == ph.i:
        return True
    x = f.inst[o[1]]
    if x.op == "phi" and depth < 4:
        return any(_is_phi_chain(f, y, ph, depth + 1) for y in x.ops)
    return False


def rule_inverse_perms(mod, rep):
    rep.rule("P-INV", "p?gstrf_thread_init builds the inverse permutations as inv_perm_c[perm_c[i]] = i and (under usepr) inv_perm_r[perm_r[i]] = i", floor=8)
    for prec, f in fam(mod, "p?gstrf_thread_init"):
        rep.scope([f.name])
        for nm, fld, src in (("inv_perm_c", "inv_perm_c", "perm_c"), ("inv_perm_r", "inv_perm_r", "perm_r")):
            sts = []
            tgt_all = set()
            for x in f.insts():
                if x.op == "store" and addr_is_field_cell(f, x, fld, "pxgstrf_shared_t"):
                    tgt_all |= set(f.paths(x.ops[0]))
            for s in f.insts():
                if s.op != "store":
                    continue
                ps = f.addr_paths(s)
                # the arrays are fresh intMalloc results also stored into pxgstrf_shared->inv_perm_?
                tgt = None
                for x in f.insts():
                    if x.op == "store" and addr_is_field_cell(f, x, fld, "pxgstrf_shared_t"):
                        tgt = f.paths(x.ops[0])
                if tgt and any(p[:-1] in tgt for p in ps if p[-1] == ("i",)):
                    sts.append(s)
            ok = False
            for s in sts:
                idx = gep_index(f, s.ops[1])
                if idx is None or idx[0] != "v":
                    continue
                L = f.inst[idx[1]]
                if L.op != "load":
                    continue
                from_src = any(p[-1] == ("i",) and ((len(p) >= 3 and p[-3][0] == "f" and p[-3][2] == src) or (len(p) == 2 and p[0][0] == "A" and f.pname(p[0][1]) == src)) for p in f.addr_paths(L))
                if from_src and same_val(strip_casts(f, s.ops[0]), gep_index(f, L.ops[0])):
                    ok = True
            if not ok and tgt_all:
                # the loop may live in a static helper: invert(n, perm, inv) called with the two arrays
                for c in f.calls():
                    h = mod.funcs.get(c.callee or "")
                    if h is None or not h.internal or not h.blocks:
                        continue
                    for s2 in h.insts():
                        if s2.op != "store":
                            continue
                        for p2 in h.addr_paths(s2):
                            if len(p2) == 2 and p2[0][0] == "A" and p2[1] == ("i",) and p2[0][1] < len(c.ops) and (f.paths(c.ops[p2[0][1]]) & tgt_all):
                                idx2 = gep_index(h, s2.ops[1])
                                if idx2 is None or idx2[0] != "v" or h.inst[idx2[1]].op != "load":
                                    continue
                                L2 = h.inst[idx2[1]]
                                for q in h.addr_paths(L2):
                                    if len(q) == 2 and q[0][0] == "A" and q[1] == ("i",) and q[0][1] < len(c.ops):
                                        srcp = f.paths(c.ops[q[0][1]])
                                        from_src2 = any((len(pp) >= 2 and pp[-2][0] == "f" and pp[-2][2] == src) or (len(pp) == 1 and pp[0][0] == "A" and f.pname(pp[0][1]) == src) or
                                                        (len(pp) >= 1 and pp[-1] == ("*",) and len(pp) >= 2 and pp[-2][0] == "f" and pp[-2][2] == src) for pp in srcp)
                                        if from_src2 and same_val(strip_casts(h, s2.ops[0]), gep_index(h, L2.ops[0])):
                                            ok = True; sts = sts or [c]
            rep.check(ok, "P-INV", "%s#%s" % (f.name, nm), "%s[%s[i]] = i" % (nm, src), "%s is not built as the inverse of %s (pivotL would look for the diagonal / recorded row in the wrong place)" % (nm, src),
                      sts[0].loc if sts else f.file, f.name)


def rule_pivrow_consistent(mod, rep):
    rep.rule("P-PIVROW", "p?gstrf_pivotL: whenever the recorded row is not the one finally chosen, *pivrow is reloaded from the row list at the chosen position "
             "(*pivrow = lsub_ptr[pivptr]) before perm_r[*pivrow] = jcol is stored; the row swapped into the pivot position is the row recorded in perm_r", floor=4)
    for prec, f in fam(mod, "p?gstrf_pivotL"):
        kpv = f.pindex("pivrow"); kpr = f.pindex("perm_r"); kj = f.pindex("jcol"); kup = f.pindex("usepr")
        se = _singular_edge(f)
        if not se:
            continue
        C, bid, sing_t, ok_t = se[0]
        dom = f.dom()
        rec = [s for s in f.insts() if s.op == "store" and (("A", kpr), ("i",)) in f.addr_paths(s) and strip_casts(f, s.ops[0]) == ["a", kj] and sing_t not in dom[s.bb.id]]
        reload = [s for s in f.insts() if s.op == "store" and (("A", kpv),) in f.addr_paths(s) and s.ops[0][0] == "v" and f.inst[strip_casts(f, s.ops[0])[1]].op == "load"
                  and addr_is_elem_of(f, f.inst[strip_casts(f, s.ops[0])[1]], "lsub") and ok_t in dom[s.bb.id]]
        # the fallback points: stores of NO to *usepr outside the singular region, and the entry with *usepr == NO
        NO = mod.enums.get("NO")
        fb = [s for s in f.insts() if s.op == "store" and (("A", kup),) in f.addr_paths(s) and is_const(s.ops[0], NO) and sing_t not in dom[s.bb.id]]
        why = []
        if not rec: why.append("record store not found")
        if not reload: why.append("no *pivrow = lsub_ptr[pivptr] store")
        for s in fb:
            # after '*usepr = NO' a test of *usepr (not overwritten in between) has a known outcome
            deadk = set()
            for b in f.blocks:
                t = b.insts[-1]
                if t.op == "br" and t.ops and t.ops[0][0] == "v":
                    Cc = f.inst[t.ops[0][1]]
                    if Cc.op == "icmp" and Cc.pred in ("eq", "ne"):
                        a0, b0 = strip_casts(f, Cc.ops[0]), strip_casts(f, Cc.ops[1])
                        for x, y in ((a0, b0), (b0, a0)):
                            if x[0] == "v" and f.inst[x[1]].op == "load" and (("A", kup),) in f.addr_paths(f.inst[x[1]]) and y[0] == "c":
                                others = [z for z in f.insts() if z.op == "store" and (("A", kup),) in f.addr_paths(z) and z is not s]
                                between = f.reach([s], stop=lambda q: q.i == f.inst[x[1]].i)
                                if f.inst[x[1]].i in between and not any(z.i in between for z in others) and f.dominates(s, f.inst[x[1]]) is not None:
                                    is_no = (y[1] == NO)
                                    true_when = (Cc.pred == "eq") == is_no
                                    deadk.add((b.id, t.tgt[1] if true_when else t.tgt[0]))
            r = f.reach([s], stop=lambda x: x in reload, dead_edges=deadk)
            if any(x.i in r for x in rec):
                why.append("after the fallback at %s perm_r[*pivrow] is recorded with the stale recorded row (no reload of *pivrow)" % s.loc)
        rep.check(not why, "P-PIVROW", "%s#pivrow" % f.name, "*pivrow reloaded on every fallback path", "; ".join(why), rec[0].loc if rec else f.file, f.name)
