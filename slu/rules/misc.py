"""Assorted structural rules: dense-matrix stride, shared usepr flag, refactorization refresh, free-then-null of the expander table."""
from ..util import *
from ..ir import fmt_path, strip_casts, expr_insts, all_operands


def _is_lda_load(f, o, base_param, depth=0):
    o = strip_casts(f, o)
    if o[0] != "v":
        return False
    x = f.inst[o[1]]
    if x.op == "load":
        if any(p[0] == ("A", base_param) and p[-1][0] == "f" and p[-1][2] == "lda" for p in f.addr_paths(x)):
            return True
        ps = f.addr_paths(x)
        if depth < 2 and len(ps) == 1 and list(ps)[0][0][0] == "L" and len(list(ps)[0]) == 1:
            # an address-taken local (e.g. ldb handed to BLAS by reference): every value stored into it must be the lda
            sts = [s for s in f.insts() if s.op == "store" and f.addr_paths(s) == ps]
            return bool(sts) and all(_is_lda_load(f, s.ops[0], base_param, depth + 1) for s in sts)
    return False


def rule_dense_stride(mod, rep, patterns=("?gstrs", "?gsrfs", "p?gssvx")):
    rep.rule("STRIDE", "every address into the values of a dense SuperMatrix parameter (B, X) whose index contains a product uses that matrix's own leading dimension "
             "(Store->lda) as a factor of the product - column k of B starts at k*ldb, never at k*n", floor=8)
    for pat in patterns:
        for prec, f in fam(mod, pat):
            rep.scope([f.name])
            for k, prm in enumerate(f.params):
                if prm["name"] not in ("B", "X"):
                    continue
                n = 0
                bad = []
                for g in f.insts():
                    if g.op != "getelementptr":
                        continue
                    ps = f.paths(g.ops[0])
                    if not any(p[0] == ("A", k) and len(p) >= 5 and p[3][0] == "f" and p[3][2] == "nzval" and p[-1] == ("*",) for p in ps):
                        continue
                    idx = gep_index(f, ["v", g.i])
                    if idx is None:
                        continue
                    muls = [x for x in expr_insts(f, idx, through_loads=False) if x.op == "mul"]
                    if not muls:
                        continue
                    n += 1
                    for m_ in muls:
                        if not any(_is_lda_load(f, o, k) for o in m_.ops):
                            bad.append(g)
                # loops over B / X that were moved into a static helper: the helper's stride parameter has to receive this matrix's lda
                for c in f.calls():
                    h = mod.funcs.get(c.callee or "")
                    if h is None or not h.internal:
                        continue
                    for k2, o in enumerate(c.ops[:len(h.params)]):
                        if not (f.is_ptr(o) and any(p[0] == ("A", k) and len(p) >= 5 and p[3][0] == "f" and p[3][2] == "nzval" and p[-1] == ("*",) for p in f.paths(o))):
                            continue
                        for g in h.insts():
                            if g.op != "getelementptr" or not any(p == (("A", k2),) for p in h.paths(g.ops[0])):
                                continue
                            idx = gep_index(h, ["v", g.i])
                            if idx is None:
                                continue
                            muls = [x for x in expr_insts(h, idx, through_loads=False) if x.op == "mul"]
                            if not muls:
                                continue
                            n += 1
                            for m_ in muls:
                                ok_m = False
                                for oo in m_.ops:
                                    oo = strip_casts(h, oo)
                                    if oo[0] == "a" and oo[1] < len(c.ops) and _is_lda_load(f, c.ops[oo[1]], k):
                                        ok_m = True
                                if not ok_m:
                                    bad.append(c)
                rep.check(not bad, "STRIDE", "%s#%s" % (f.name, prm["name"]), "%d strided addresses into %s use %s's lda" % (n, prm["name"], prm["name"]),
                          "%s is addressed with a column stride that is not its leading dimension" % prm["name"], bad[0].loc if bad else f.file, f.name)


def rule_usepr_shared(mod, rep):
    rep.rule("USEPR", "the pivot-reuse flag handed to p?gstrf_pivotL / p?gstrf_factor_snode by the worker is the address of the shared options->usepr, so a rejected "
             "recorded pivot switches every thread to fresh pivoting for the rest of the factorization", floor=8)
    for prec, f in fam(mod, "p?gstrf_thread"):
        rep.scope([f.name])
        for cal, k in (("p%sgstrf_pivotL" % prec, 3), ("p%sgstrf_factor_snode" % prec, 4)):
            for n, c in enumerate(f.calls(cal)):
                ps = f.paths(c.ops[k])
                ok = all(len(p) >= 2 and p[-1][0] == "f" and p[-1][2] == "usepr" and p[-1][1] == "superlumt_options_t" and p[0][0] == "A" for p in ps) and bool(ps)
                rep.check(ok, "USEPR", "%s#%s@%d" % (f.name, cal, n), "usepr argument is &options->usepr (shared)",
                          "usepr argument is %s, not the shared options->usepr: a fallback decided by one thread is invisible to the others" % fmt_paths(f, ps), c.loc, f.name)
    for prec, f in fam(mod, "p?gstrf_factor_snode"):
        ku = f.pindex("usepr")
        for n, c in enumerate(f.calls("p%sgstrf_pivotL" % prec)):
            ok = f.paths(c.ops[3]) == frozenset([(("A", ku),)])
            rep.check(ok, "USEPR", "%s#pivotL@%d" % (f.name, n), "factor_snode forwards its usepr pointer", "factor_snode does not forward its usepr pointer to pivotL", c.loc, f.name)


def rule_refact_refresh(mod, rep):
    rep.rule("REFRESH", "p?gstrf_thread_finalize, refact == YES branch: L->Store->nnz, L->Store->nsuper (= supno[n]) and U->Store->nnz are refreshed; refact == NO branch "
             "builds L and U with ?Create_SuperNode_Permuted / ?Create_CompCol_Permuted; supno[n] := nsuper precedes countnz/fixupL", floor=4)
    e = mod.enums
    for prec, f in fam(mod, "p?gstrf_thread_finalize"):
        rep.scope([f.name])
        kL = f.pindex("L"); kU = f.pindex("U")
        st = {"L.nnz": None, "L.nsuper": None, "U.nnz": None}
        for s in f.insts():
            if s.op != "store":
                continue
            for p in f.addr_paths(s):
                if p[0] == ("A", kL) and p[-1][0] == "f" and p[-1][2] == "nnz": st["L.nnz"] = s
                if p[0] == ("A", kL) and p[-1][0] == "f" and p[-1][2] == "nsuper": st["L.nsuper"] = s
                if p[0] == ("A", kU) and p[-1][0] == "f" and p[-1][2] == "nnz": st["U.nnz"] = s
        why = [k for k, v in st.items() if v is None]
        # same branch, guarded by refact == YES
        if not why:
            blocks = set(v.bb.id for v in st.values())
            if len(blocks) != 1:
                why.append("the three refreshes are not in one branch")
            ns = st["L.nsuper"]
            srcs = [x for x in expr_insts(f, ns.ops[0]) if x.op == "load"]
            if not any(addr_is_elem_of(f, x, "supno") for x in srcs):
                why.append("L->nsuper is not taken from supno[n]")
        cr = list(f.calls("%sCreate_SuperNode_Permuted" % prec)) + list(f.calls("%sCreate_CompCol_Permuted" % prec))
        if len(cr) != 2:
            why.append("constructors for the first-time branch missing")
        # supno[n] := nsuper before countnz / fixupL
        sn = [s for s in f.insts() if s.op == "store" and addr_is_elem_of(f, s, "supno")]
        cz = list(f.calls("countnz")) + list(f.calls("fixupL"))
        if not sn or not cz or not all(f.dominates(sn[0], c) for c in cz):
            why.append("supno[n] := nsuper does not precede countnz/fixupL")
        rep.check(not why, "REFRESH", "%s#refresh" % f.name, "counts refreshed on refactorization; constructors on first factorization",
                  "refactorization leaves stale counts in the existing L/U: " + "; ".join(why), (st["L.nnz"].loc if st["L.nnz"] else f.file), f.name)


def rule_expanders_free_null(mod, rep):
    rep.rule("XPND-NULL", "the lazily allocated expander table (?expanders): every superlu_free of it is followed, before the function returns, by ?expanders := NULL; "
             "p?gstrf_MemInit allocates it only when it is NULL", floor=8)
    for prec in "sdcz":
        gname = None
        for g in mod.globals:
            if g == "%sexpanders" % prec or g.startswith("%sexpanders." % prec):
                gname = g
        if not gname:
            rep.brk("ANALYSIS-BROKEN XPND-NULL: global %sexpanders not found" % prec)
            continue
        cell = (("G", gname),)
        n = 0
        for f in mod.funcs.values():
            for c in f.calls("superlu_free"):
                if not any(p == cell + (("*",),) for p in f.paths(c.ops[0])):
                    continue
                n += 1
                nulls = [s for s in f.insts() if s.op == "store" and cell in f.addr_paths(s) and (s.ops[0][0] == "null" or is_const(s.ops[0], 0))]
                r = f.reach([c], stop=lambda x: x in nulls)
                leak = [f.inst[x] for x in r if f.inst[x].op == "ret"]
                rep.check(bool(nulls) and not leak, "XPND-NULL", "%s#free-%sexpanders@%d" % (f.name, prec, n), "freed and reset to NULL",
                          "%sexpanders is freed but not reset to NULL before return: the next factorization skips the allocation, writes into freed memory and frees it again" % prec, c.loc, f.name)
        f = mod.funcs.get("p%sgstrf_MemInit" % prec)
        if f:
            al = [s for s in f.insts() if s.op == "store" and cell in f.addr_paths(s) and s.ops[0][0] == "v"]
            ok = False
            for s in al:
                for (a, sid) in f.control_deps().get(s.bb.id, ()):
                    t = f.blocks[a].insts[-1]
                    if t.ops and t.ops[0][0] == "v":
                        C = f.inst[t.ops[0][1]]
                        if C.op == "icmp" and any(x[0] == "null" or is_const(x, 0) for x in C.ops):
                            l = [strip_casts(f, x) for x in C.ops if x[0] == "v"]
                            if l and f.inst[l[0][1]].op == "load" and cell in f.addr_paths(f.inst[l[0][1]]):
                                ok = True
            rep.check(ok, "XPND-NULL", "%s#lazy-alloc" % f.name, "allocated only when NULL", "the expander table is not allocated under an 'is NULL' test", f.file, f.name)


def rule_min_identity(mod, rep, which=("growth", "firstcol")):
    """a running minimum must start from an identity of min over its operands' range"""
    from .threads import loop_bound, loop_of
    if "growth" in which:
        rep.rule("MIN-ID", "?PivotGrowth: the running minimum over columns starts from 1/?lamch_(\"S\") (an identity of min for every ratio max|A_j|/max|U_j|, which may exceed 1); "
                 "it is updated only by min(rpg, ratio) or min(rpg, 1) when the U column is zero", floor=4)
        for prec, f in fam(mod, "?PivotGrowth"):
            rep.scope([f.name])
            ok = False; why = "no floating-point running minimum found"
            for h, body in f.loops():
                for ph in f.blocks[h].insts:
                    if ph.op != "phi" or ph.ty not in ("double", "float"):
                        continue
                    ini = [strip_casts(f, o) for o, b in zip(ph.ops, ph.inb) if b not in body]
                    upd = [strip_casts(f, o) for o, b in zip(ph.ops, ph.inb) if b in body]
                    # is it a min accumulator: some fcmp olt/ogt between the phi chain and another value selects
                    ismin = any(x.op == "fcmp" and x.pred in ("olt", "ogt", "ole", "oge") and any(_chain_has(f, o, ph) for o in x.ops) for b in body for x in f.blocks[b].insts)
                    if not ismin or not ini:
                        continue
                    v = ini[0]
                    # initial value may come through outer-loop phis
                    seen = 0
                    while v[0] == "v" and f.inst[v[1]].op == "phi" and seen < 4:
                        outer = f.inst[v[1]]
                        cand = [strip_casts(f, o) for o in outer.ops if not _chain_has(f, o, outer) and not _chain_has(f, o, ph)]
                        if not cand:
                            break
                        v = cand[0]; seen += 1
                    if v[0] == "v" and f.inst[v[1]].op == "fdiv":
                        d = f.inst[v[1]]
                        num = strip_casts(f, d.ops[0]); den = strip_casts(f, d.ops[1])
                        if num[0] == "f" and num[1] == 1.0 and den[0] == "v" and f.inst[den[1]].op == "call" and (f.inst[den[1]].callee or "").endswith("lamch_") \
                                and f.inst[den[1]].ops[0][0] == "s" and f.inst[den[1]].ops[0][1][:1].upper() == "S":
                            ok = True
                    if not ok:
                        why = "the running minimum starts from %s, not from 1/lamch('S'): columns whose ratio exceeds the start value are ignored" % (
                            ("the constant %s" % v[1]) if v[0] == "f" else "another value")
            rep.check(ok, "MIN-ID", "%s#rpg-init" % f.name, "min accumulator starts at 1/safe-minimum", why, f.file, f.name)
    if "firstcol" in which:
        rep.rule("MIN-ID2", "sp_coletree: firstcol[row] = min(firstcol[row], col) over col in [0,nc) is initialised with nc, the exclusive bound of that column loop "
                 "(rows with no entry keep nc, which later compares >= every column)", floor=1)
        f = mod.funcs.get("sp_coletree")
        if f is not None:
            rep.scope([f.name])
            ok = False; why = "running minimum over the column loop not found"
            for s in f.insts():
                if s.op != "store":
                    continue
                v = strip_casts(f, s.ops[0])
                if v[0] != "v" or f.inst[v[1]].op not in ("phi", "select"):
                    continue
                arr = f.addr_paths(s)
                srcs = [strip_casts(f, o) for o in (f.inst[v[1]].ops if f.inst[v[1]].op == "phi" else f.inst[v[1]].ops[1:])]
                lds = [o for o in srcs if o[0] == "v" and f.inst[o[1]].op == "load" and f.addr_paths(f.inst[o[1]]) == arr]
                ivs = [o for o in srcs if o[0] == "v" and f.inst[o[1]].op == "phi"]
                if (not lds or not ivs) and any(f.inst[v[1]].bb.id == h_ for h_, b_ in f.loops()):
                    # conditional-store form: if (col < firstcol[row]) firstcol[row] = col;  - the stored value is the loop counter itself
                    for (a_, t_) in f.control_deps().get(s.bb.id, ()):
                        tt = f.blocks[a_].insts[-1]
                        if tt.op == "br" and tt.ops and tt.ops[0][0] == "v":
                            C_ = f.inst[tt.ops[0][1]]
                            if C_.op == "icmp" and C_.pred in ("slt", "sgt", "sle", "sge"):
                                o_ = [strip_casts(f, z) for z in C_.ops]
                                if any(z == v for z in o_) and any(z[0] == "v" and f.inst[z[1]].op == "load" and f.addr_paths(f.inst[z[1]]) == arr for z in o_):
                                    lds = [z for z in o_ if z != v]; ivs = [v]
                if not lds or not ivs:
                    continue
                lp = None
                for h, body in f.loops():
                    if f.inst[ivs[0][1]].bb.id == h:
                        lp = (h, body)
                if not lp:
                    continue
                lb = loop_bound(f, *lp)
                if not lb:
                    continue
                bound = strip_casts(f, lb[2])
                # the fill: stores to the same array of a value that is not self-dependent, before this loop
                fills = [t for t in f.insts() if t.op == "store" and f.addr_paths(t) == arr and t is not s and t.bb.id not in lp[1]]
                if fills and all(same_val(strip_casts(f, t.ops[0]), bound) for t in fills):
                    ok = True
                else:
                    why = "the per-row minimum over columns 0..%s-1 is initialised with %s instead of the column bound" % (
                        f.pname(bound[1]) if bound[0] == "a" else "bound", ", ".join(sorted(set(f.pname(strip_casts(f, t.ops[0])[1]) if strip_casts(f, t.ops[0])[0] == "a" else "?" for t in fills))) or "nothing")
            rep.check(ok, "MIN-ID2", "sp_coletree#firstcol-init", "firstcol[] initialised with nc", why, f.file, f.name)


def _chain_has(f, o, ph, depth=0):
    o = strip_casts(f, o)
    if o[0] != "v" or depth > 5:
        return False
    if o[1] == ph.i:
        return True
    x = f.inst[o[1]]
    if x.op in ("phi", "select"):
        return any(_chain_has(f, y, ph, depth + 1) for y in (x.ops if x.op == "phi" else x.ops[1:]) if not (strip_casts(f, y)[0] == "v" and strip_casts(f, y)[1] == x.i))
    return False
