"""C05/C14 rules on the bump allocators: bound-before-bump (O7), who-may-write, user-stack guard (O7')."""
from ..util import *
from ..ir import strip_casts, fmt_path, expr_insts, expr_loads

COUNTERS = {"nextu": "nzumax", "nextl": "nzlmax", "nextlu": "nzlumax"}


def rule_O7_bound_before_bump(mod, rep):
    rep.rule("O7", "in Glu_alloc (UCOL/USUB, LSUB) and DynamicSetMap the store of old+num to nextu/nextl/nextlu is dominated by the comparison old+num > nz{u,l,lu}max "
             "whose true edge cannot reach the store (it reaches the library's abort first)", floor=3)
    for fname in ("Glu_alloc", "DynamicSetMap"):
        f = mod.funcs.get(fname)
        if f is None:
            rep.brk("ANALYSIS-BROKEN O7: %s not found" % fname)
            continue
        rep.scope([fname])
        for S in f.insts():
            if S.op != "store":
                continue
            cnt = None
            for c in COUNTERS:
                if addr_is_field_cell(f, S, c, "GlobalLU_t"):
                    cnt = c
            if not cnt:
                continue
            key = "%s#%s" % (fname, cnt)
            V = strip_casts(f, S.ops[0])
            why = []
            ok = False
            # value must be load(counter) + something
            isbump = False
            if V[0] == "v" and f.inst[V[1]].op == "add":
                lds = [l for l in expr_loads(f, V) if addr_is_field_cell(f, l, cnt, "GlobalLU_t")]
                isbump = bool(lds)
            if not isbump:
                why.append("stored value is not <counter> + <amount>")
            for C in f.insts():
                if C.op != "icmp" or C.pred not in ("sgt", "slt", "sge", "sle"):
                    continue
                a, b = strip_casts(f, C.ops[0]), strip_casts(f, C.ops[1])
                lim = COUNTERS[cnt]

                def is_lim(o):
                    return o[0] == "v" and f.inst[o[1]].op == "load" and addr_is_field_cell(f, f.inst[o[1]], lim, "GlobalLU_t")
                over_edge = None
                if same_val(a, V) and is_lim(b) and C.pred in ("sgt", "sle"):
                    over_edge = "t" if C.pred == "sgt" else "f"
                elif same_val(b, V) and is_lim(a) and C.pred in ("slt", "sge"):
                    over_edge = "t" if C.pred == "slt" else "f"
                if over_edge is None:
                    continue
                if not f.dominates(C, S):
                    continue
                for blk, t, fl in branch_edges_on(f, C):
                    tgt = t if over_edge == "t" else fl
                    r = f.reach([f.blocks[tgt].insts[0]], include_start=True)
                    if S.i not in r:
                        ok = True
                    else:
                        why.append("the overflow edge of the test at %s still reaches the bump (no abort on it)" % C.loc)
            if not ok and not why:
                why.append("no dominating test of the new value against %s" % COUNTERS[cnt])
            rep.check(ok and isbump, "O7", key, "bump of %s is guarded by its overflow test; overflow aborts before the store" % cnt,
                      "unguarded bump of %s: %s" % (cnt, "; ".join(why)), S.loc, fname)


def rule_who_writes_counters(mod, rep):
    rep.rule("W1", "nextu/nextl/nextlu are stored only in Glu_alloc, DynamicSetMap, p?gstrf_thread_init and ?PresetMap; nz{u,l,lu}max only in p?gstrf_MemInit, "
             "p?gstrf_MemXpand and p?gstrf_thread_init; map_in_sup[] only in ?PresetMap, Glu_alloc(LUSUP) and DynamicSetMap", floor=30)
    allow_cnt = {"Glu_alloc", "DynamicSetMap"} | set("p%sgstrf_thread_init" % p for p in "sdcz") | set("%sPresetMap" % p for p in "sdcz")
    allow_lim = set("p%sgstrf_MemInit" % p for p in "sdcz") | set("p%sgstrf_MemXpand" % p for p in "sdcz") | set("p%sgstrf_thread_init" % p for p in "sdcz")
    allow_map = set("%sPresetMap" % p for p in "sdcz") | {"Glu_alloc", "DynamicSetMap"}
    for f in mod.funcs.values():
        for i in f.insts():
            if i.op != "store":
                continue
            for c in COUNTERS:
                if addr_is_field_cell(f, i, c, "GlobalLU_t"):
                    rep.check(f.name in allow_cnt, "W1", "%s#%s" % (f.name, c), "%s written by an allocator/initialiser" % c, "%s written outside the allocators: %s" % (c, f.name), i.loc, f.name)
            for c in COUNTERS.values():
                if addr_is_field_cell(f, i, c, "GlobalLU_t"):
                    rep.check(f.name in allow_lim, "W1", "%s#%s" % (f.name, c), "%s written by the memory initialiser/expander" % c, "%s written in %s" % (c, f.name), i.loc, f.name)
            if addr_is_elem_of(f, i, "map_in_sup", "GlobalLU_t"):
                rep.check(f.name in allow_map, "W1", "%s#map_in_sup[]" % f.name, "map_in_sup[] written by the slot allocator", "map_in_sup[] written in %s" % f.name, i.loc, f.name)
