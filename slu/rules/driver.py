"""MODE tables of the two drivers (C01, C06, C07, C08, C11, C12, C13, C14) against the reference
models of DESIGN.md Appendix B.1/B.2."""
import itertools, re
from ..util import *
from ..ir import fmt_path, strip_casts
from .. import absint
from ..absint import TOP, Partition, Interp, value_roots

DT = {"s": "SLU_S", "d": "SLU_D", "c": "SLU_C", "z": "SLU_Z"}


def store_roots(it, ins):
    """roots of the value written by a store (or copied by an llvm.memcpy treated as a store), complex .r/.i parts merged"""
    if ins.op == "summ-store":
        rs = set(ins.roots)
    elif ins.op == "call":
        src = it.val(ins.ops[1])
        rs = {fmt_path(src[1], it.f)} if src and src[0] == "p" else {"?"}
    else:
        rs = value_roots(it, ins.ops[0])
    out = set()
    for x in rs:
        x = _norm(x)
        for suf in (".r", ".i"):
            if x.endswith(suf):
                x = x[:-2]
        out.add(x)
    return out


def _norm(s):
    if not isinstance(s, str):
        return s
    s = re.sub(r"superlu_malloc\(\)#\d+", "AAnew", s)
    s = re.sub(r"&local\d+", "&local", s)
    return s


class XPart(Partition):
    """partition of p?gssvx"""
    def __init__(self, mod, f, prec, Stype, trans, fact, equed_in, lwork, info1, equed_out, finfo):
        Partition.__init__(self, Stype=Stype, trans=trans, fact=fact, equed_in=equed_in, lwork=lwork, info1=info1, equed_out=equed_out, finfo=finfo)
        e = mod.enums
        self.mod = mod; self.f = f; self.prec = prec
        ko = f.pindex("superlumt_options"); kA = f.pindex("A"); kq = f.pindex("equed"); kB = f.pindex("B"); kX = f.pindex("X")
        O = lambda fld: (("A", ko), ("f", "superlumt_options_t", fld))
        SM = lambda k, fld: (("A", k), ("f", "SuperMatrix", fld))
        c = self.cells
        c[O("fact")] = ("c", e[fact]); c[O("trans")] = ("c", e[trans]); c[O("refact")] = ("c", e["NO"]); c[O("usepr")] = ("c", e["NO"])
        c[O("lwork")] = ("c", lwork)
        c[SM(kA, "Stype")] = ("c", e[Stype]); c[SM(kA, "Dtype")] = ("c", e[DT[prec]]); c[SM(kA, "Mtype")] = ("c", e["SLU_GE"])
        for k in (kB, kX):
            c[SM(k, "Stype")] = ("c", e["SLU_DN"]); c[SM(k, "Dtype")] = ("c", e[DT[prec]]); c[SM(k, "Mtype")] = ("c", e["SLU_GE"])
        c[(("A", kq),)] = ("c", e[equed_in])
        c[(("A", f.pindex("nprocs")),)] = ("s", "nprocs")
        self.n_paths = (SM(kA, "ncol") + (("*",),), SM(kA, "nrow") + (("*",),))

    def stub(self, interp, ins, args, state):
        cal = ins.callee or ""
        p = self.prec
        e = self.mod.enums
        if cal == "%sgsequ" % p:
            a = args[6]
            w = {}
            if a and a[0] == "p":
                w[a[1]] = ("c", 0) if self.kw["info1"] == 0 else ("s", "info1pos")
            hv = [x[1] for x in args[1:6] if x and x[0] == "p"]
            return {"ret": TOP, "writes": w, "havoc": hv}
        if cal == "%slaqgs" % p:
            a = args[6]
            w = {}
            if a and a[0] == "p":
                w[a[1]] = ("c", e[self.kw["equed_out"]])
            return {"ret": TOP, "writes": w, "havoc": []}
        if cal == "p%sgstrf" % p:
            a = args[6]
            w = {}
            fi = self.kw["finfo"]
            if a and a[0] == "p":
                w[a[1]] = ("c", 0) if fi == "OK" else ("s", fi)
            hv = [x[1] for x in args[3:6] if x and x[0] == "p"]
            return {"ret": TOP, "writes": w, "havoc": hv}
        if cal in ("StatAlloc", "StatInit"):
            a = args[-1]
            return {"ret": TOP, "writes": {}, "havoc": [a[1]] if a and a[0] == "p" else []}
        return None

    def cmp(self, interp, pred, a, b):
        def is_n(x):
            return x[0] == "p" and x[1] in self.n_paths
        sym = None
        if a[0] == "s":
            sym, other, pr = a[1], b, pred
        elif b[0] == "s":
            sym, other, pr = b[1], a, {"slt": "sgt", "sgt": "slt", "sle": "sge", "sge": "sle"}.get(pred, pred)
        if sym is not None:
            if sym in ("SING", "MEM", "info1pos", "nprocs"):
                if other == ("c", 0):
                    return {"eq": False, "ne": True, "sgt": True, "sge": True, "slt": False, "sle": False}.get(pr)
                if is_n(other) and sym in ("SING", "MEM"):
                    big = (sym == "MEM")
                    return {"sgt": big, "sle": not big, "sge": big, "slt": False if big else None, "eq": False if big else None, "ne": True if big else None}.get(pr)
            return None
        # valid-argument facts about n = A->nrow = A->ncol >= 0
        if is_n(a) and is_n(b):
            return {"eq": True, "ne": False, "sle": True, "sge": True, "slt": False, "sgt": False}.get(pred)
        if is_n(a) and b == ("c", 0):
            return {"slt": False, "sge": True}.get(pred)
        return None


XATOMS = lambda p: {
    "%sgsequ" % p: {"name": "gsequ", "args": [("path", 0)]},
    "%slaqgs" % p: {"name": "laqgs", "args": [("path", 0)]},
    "sp_colorder": {"name": "colorder", "args": [("path", 0)]},
    "p%sgstrf" % p: {"name": "gstrf", "args": []},
    "%sPivotGrowth" % p: {"name": "pivotgrowth", "args": [("val", 0), ("path", 1)]},
    "%slangs" % p: {"name": "langs", "args": [("chr", 0), ("path", 1)]},
    "%sgscon" % p: {"name": "gscon", "args": [("chr", 0)]},
    "%sgstrs" % p: {"name": "gstrs", "args": [("val", 0), ("path", 5)]},
    "%sgsrfs" % p: {"name": "gsrfs", "args": [("val", 0), ("path", 1), ("val", 6), ("path", 7), ("path", 8), ("path", 9), ("path", 10)]},
    "superlu_%sQuerySpace" % p: {"name": "queryspace", "args": []},
    "Destroy_CompCol_Permuted": {"name": "destroy_AC", "args": []},
    "Destroy_SuperMatrix_Store": {"name": "destroy_AA_store", "args": [("path", 0)]},
    "StatFree": {"name": "StatFree", "args": []},
    "StatAlloc": {"name": "StatAlloc", "args": []},
    "xerbla_": {"name": "xerbla", "args": []},
    "superlu_free": {"name": "free", "args": [("path", 0)]},
    "%sCreate_CompCol_Matrix" % p: {"name": "create_AA", "args": [("path", 0), ("val", 9)]},
    "pthread_create": {"name": "pthread_create", "args": []},
}


def _x_store_atoms(f):
    kA = f.pindex("A"); kB = f.pindex("B"); kX = f.pindex("X"); ki = f.pindex("info"); kq = f.pindex("equed")
    kL = f.pindex("L"); kU = f.pindex("U"); kpr = f.pindex("perm_r"); kpc = f.pindex("perm_c"); kR = f.pindex("R"); kC = f.pindex("C")

    def nz(k):
        return (("A", k), ("f", "SuperMatrix", "Store"), ("*",), ("f", "DNformat", "nzval"), ("*",))

    def pred_B(it, ins, path, v):
        if path and path[:5] == nz(kB):
            return (",".join(sorted(store_roots(it, ins))),)

    def pred_X(it, ins, path, v):
        if path and path[:5] == nz(kX):
            return (",".join(sorted(store_roots(it, ins))),)

    def pred_info(it, ins, path, v):
        if path == (("A", ki),):
            if v and v[0] == "c":
                return (v[1],)
            return (",".join(sorted(_norm(x) for x in value_roots(it, ins.ops[0]))),)

    def pred_tot(it, ins, path, v):
        if path and path[-1][0] == "f" and path[-1][2] == "total_needed":
            return (",".join(sorted(_norm(x) for x in value_roots(it, ins.ops[0]))),)

    def pred_A(it, ins, path, v):
        if path and path[0] == ("A", kA) and len(path) > 1:
            return (fmt_path(path, f),)

    def pred_fact(it, ins, path, v):
        # stores reaching L, U, perm_r, perm_c contents directly from the driver
        if path and path[0] in (("A", kL), ("A", kU), ("A", kpr), ("A", kpc)) and len(path) > 1:
            return (fmt_path(path, f),)

    def pred_eq(it, ins, path, v):
        if path == (("A", kq),):
            return (it._show(v),)
    return [("B*=", pred_B), ("X:=", pred_X), ("info:=", pred_info), ("total_needed:=", pred_tot), ("A-store", pred_A), ("LUperm-store", pred_fact), ("equed:=", pred_eq)]


def x_partitions(mod, f, prec):
    for Stype, trans, fact, lwork in itertools.product(("SLU_NC", "SLU_NR"), ("NOTRANS", "TRANS", "CONJ"), ("DOFACT", "EQUILIBRATE", "FACTORED"), (0, -1)):
        eq_ins = ("NOEQUIL", "ROW", "COL", "BOTH") if fact == "FACTORED" else ("NOEQUIL",)
        for equed_in in eq_ins:
            i1s = (0, 1) if fact == "EQUILIBRATE" else (0,)
            for info1 in i1s:
                eos = ("NOEQUIL", "ROW", "COL", "BOTH") if (fact == "EQUILIBRATE" and info1 == 0) else ("NOEQUIL",)
                for eo in eos:
                    if fact == "FACTORED":
                        fis = ("OK",)
                    elif lwork == -1:
                        fis = ("MEM",)
                    else:
                        fis = ("OK", "SING", "MEM")
                    for fi in fis:
                        yield XPart(mod, f, prec, Stype, trans, fact, equed_in, lwork, info1, eo, fi)


def x_model(mod, prec, kw):
    """reference model B.1: expected atoms (owned classes only) for a partition"""
    e = mod.enums
    Stype, trans, fact, equed_in, lwork, info1, equed_out, finfo = (kw[k] for k in ("Stype", "trans", "fact", "equed_in", "lwork", "info1", "equed_out", "finfo"))
    A = set()
    AA = "A" if Stype == "SLU_NC" else "AAnew"
    eff_notran = (trans == "NOTRANS") != (Stype == "SLU_NR")
    if Stype == "SLU_NC":
        t = trans
    else:
        t = "TRANS" if trans == "NOTRANS" else "NOTRANS"
    conj_lost = (Stype == "SLU_NR" and trans == "CONJ" and prec in "cz")
    equed = equed_in if fact == "FACTORED" else "NOEQUIL"
    A.add(("StatAlloc",))
    if Stype == "SLU_NR":
        A.add(("create_AA", "AAnew", e["SLU_NC"]))
    if fact != "FACTORED":
        A.add(("equed:=", e["NOEQUIL"]))
    if fact == "EQUILIBRATE":
        A.add(("gsequ", AA))
        if info1 == 0:
            A.add(("laqgs", AA))
            equed = equed_out
    rowequ = equed in ("ROW", "BOTH"); colequ = equed in ("COL", "BOTH")
    if eff_notran and rowequ:
        A.add(("B*=", "B.Store^.nzval^[],R[]"))
    if (not eff_notran) and colequ:
        A.add(("B*=", "B.Store^.nzval^[],C[]"))
    done = False
    if fact != "FACTORED":
        A.add(("colorder", AA)); A.add(("gstrf",))
        if lwork == -1:
            A.add(("total_needed:=", "A.ncol,info"))
            done = True
    if not done:
        valid_LU = (fact == "FACTORED") or finfo in ("OK", "SING")
        if fact != "FACTORED" and finfo == "SING":
            A.add(("pivotgrowth", "$SING", AA))
        if fact == "FACTORED" or finfo == "OK":
            c = "1" if eff_notran else "I"
            A.add(("pivotgrowth", "A.ncol^", AA))
            A.add(("langs", c, AA)); A.add(("gscon", c))
            A.add(("X:=", "B.Store^.nzval^[]"))
            A.add(("gstrs", e[t], "X"))
            A.add(("gsrfs", e[t], AA, e[equed], "R", "C", "B", "X"))
            if eff_notran and colequ:
                A.add(("X:=", "C[],X.Store^.nzval^[]"))
            if (not eff_notran) and rowequ:
                A.add(("X:=", "R[],X.Store^.nzval^[]"))
            A.add(("info:=", "A.ncol"))
        if valid_LU:
            A.add(("queryspace",))
        if fact != "FACTORED":
            A.add(("destroy_AC",))
        if Stype == "SLU_NR":
            A.add(("destroy_AA_store", "AAnew")); A.add(("free", "AAnew"))
        A.add(("StatFree",))
    return A, conj_lost


OWN = {
    "C07": {"gsequ", "laqgs", "colorder", "gstrf", "gstrs", "gsrfs", "X:=", "B*=", "create_AA", "pivotgrowth", "langs", "gscon", "equed:="},
    "C11": {"gsequ", "laqgs", "B*=", "X:=", "equed:=", "A-store"},
    "C12": {"langs", "gscon", "pivotgrowth", "info:="},
    "C13": {"gsrfs", "gstrs", "X:=", "B*="},
    "C14": {"queryspace", "total_needed:=", "pthread_create", "gstrf"},
    "C06": {"pivotgrowth", "gstrs", "gsrfs", "gscon", "langs", "X:=", "B*=", "info:="},
    "C08": {"A-store", "LUperm-store", "gstrf", "colorder", "gsequ", "laqgs", "equed:="},
    "C17": {"StatAlloc", "StatFree", "destroy_AC", "destroy_AA_store", "free"},
}

_table_cache = {}


def x_table(mod, prec):
    key = (id(mod), prec)
    if key in _table_cache:
        return _table_cache[key]
    f = mod.funcs["p%sgssvx" % prec]
    rows = []
    for part in x_partitions(mod, f, prec):
        it = Interp(mod, f, part, atoms=XATOMS(prec), store_atoms=_x_store_atoms(f))
        it.run()
        got = set(tuple(_norm(x) for x in a) for a in it.atoms)
        rows.append((part, it, got))
    _table_cache[key] = (f, rows)
    return _table_cache[key]


def rule_expert_conj_rowwise(mod, rep):
    """complex + row-wise storage + CONJ: op(A) = A**H = conj(AA) for the column-wise view AA of the same arrays; no value of
    the transpose flag handed to ?gstrs/?gsrfs expresses that, a conjugation of B and X (or of AA) is required"""
    rep.rule("X-CONJ-NR", "p{c,z}gssvx with Stype=SLU_NR and trans=CONJ: the system solved must be conj(AA)*X = B for the column-wise view AA; the model has no "
             "admissible transpose flag for it, so the partition must either conjugate B/X around the solve or be rejected in the prologue", floor=2)
    e = mod.enums
    for prec in "cz":
        if "p%sgssvx" % prec not in mod.funcs:
            continue
        f, rows = x_table(mod, prec)
        bad = None
        for part, it, got in rows:
            kw = part.kw
            if kw["Stype"] == "SLU_NR" and kw["trans"] == "CONJ" and kw["finfo"] == "OK" and kw["lwork"] == 0:
                gs = [a for a in got if a[0] == "gstrs"]
                conj = [i for i, a in it.events if False]
                if gs and not any("conj" in str(a).lower() for a in got):
                    bad = (kw, gs)
        if bad:
            rep.fail("X-CONJ-NR", "%s#NR+CONJ" % f.name, "row-wise A with trans=CONJ is solved as %s of the column-wise view with no conjugation: X solves A**T... not A**H*X=B (info=0)" % (
                "NOTRANS" if bad[1][0][1] == e["NOTRANS"] else "TRANS"), f.file, f.name)
        else:
            rep.ok("X-CONJ-NR", "%s#NR+CONJ" % f.name, "NR+CONJ handled or rejected", f.file, f.name)


def rule_expert_table(mod, rep, pid, partition_filter=None, classes=None, rule="X-TABLE"):
    classes = classes or OWN[pid]
    rep.rule(rule, "p?gssvx: for every partition of (Stype, trans, fact, equed_in, lwork, ?gsequ outcome, ?laqgs outcome, factor outcome) the atoms of classes %s "
             "reached by partitioned constant propagation equal those of the reference model (DESIGN.md Appendix B.1)" % sorted(classes), floor=40)
    rep.exhaustive = True
    for prec, f in fam(mod, "p?gssvx"):
        rep.scope([f.name])
        f, rows = x_table(mod, prec)
        for part, it, got in rows:
            kw = part.kw
            if partition_filter and not partition_filter(kw):
                continue
            exp, conj_lost = x_model(mod, prec, kw)
            g = set(a for a in got if a[0] in classes and not (a[0] == "info:=" and isinstance(a[1], int) and a[1] <= 0))
            x = set(a for a in exp if a[0] in classes)
            lab = "%s/%s/%s/eqin=%s/lwork=%d/info1=%d/eqout=%s/%s" % (kw["Stype"][4:], kw["trans"], kw["fact"], kw["equed_in"], kw["lwork"], kw["info1"], kw["equed_out"], kw["finfo"])
            key = "%s#%s" % (f.name, lab)
            if g == x:
                rep.ok(rule, key, "atoms agree with the model (%d atoms)" % len(g), f.file, f.name)
            else:
                miss = sorted(x - g, key=repr); extra = sorted(g - x, key=repr)
                sites = [i.loc for i, a in it.events if tuple(_norm(z) for z in a) in (g - x)]
                rep.fail(rule, key, "dispatch deviates from the documented contract: missing %s; unexpected %s" % (miss, extra), sites[0] if sites else f.file, f.name,
                         extra={"partition": kw})


def rule_expert_argcodes(mod, rep):
    """C15: which argument codes can be stored in which mode partition (the prologue is evaluated by the same partitioned propagation as the dispatch table)"""
    rep.rule("X-ARGS", "p?gssvx: for every mode partition, the set of negative codes that the prologue can store into *info equals the documented one: the codes of nprocs, B and X "
             "in every partition (their validity is not fixed by the partition), the code of R exactly when fact = FACTORED and equed is ROW or BOTH, the code of C exactly when "
             "fact = FACTORED and equed is COL or BOTH - a test that another mode flag makes unreachable lets an invalid scale vector through", floor=40)
    rep.exhaustive = True
    for prec, f in fam(mod, "p?gssvx"):
        rep.scope([f.name])
        f, rows = x_table(mod, prec)
        pos = lambda n: f.cpos[f.pindex(n)]
        seen = set()
        for part, it, got in rows:
            kw = part.kw
            k = (kw["Stype"], kw["trans"], kw["fact"], kw["equed_in"], kw["lwork"])
            if k in seen:
                continue
            seen.add(k)
            g = set(a[1] for a in got if a[0] == "info:=" and isinstance(a[1], int) and a[1] < 0)
            x = {-pos("nprocs"), -pos("B"), -pos("X")}
            if kw["fact"] == "FACTORED" and kw["equed_in"] in ("ROW", "BOTH"):
                x.add(-pos("R"))
            if kw["fact"] == "FACTORED" and kw["equed_in"] in ("COL", "BOTH"):
                x.add(-pos("C"))
            key = "%s#%s/%s/%s/eqin=%s/lwork=%d" % (f.name, kw["Stype"][4:], kw["trans"], kw["fact"], kw["equed_in"], kw["lwork"])
            if g == x:
                rep.ok("X-ARGS", key, "storable argument codes %s agree with the contract" % sorted(g), f.file, f.name)
            else:
                sites = [i.loc for i, a in it.events if a[0] == "info:=" and len(a) > 1 and a[1] in (g - x)]
                rep.fail("X-ARGS", key, "argument codes that can be reported in this partition: %s; documented: %s (missing %s, unexpected %s)" % (
                    sorted(g), sorted(x), sorted(x - g), sorted(g - x)), sites[0] if sites else f.file, f.name, extra={"partition": kw})


# ---------------------------------------------------------------- simple driver p?gssv (B.2)

class SPart(Partition):
    def __init__(self, mod, f, prec, Stype, finfo):
        Partition.__init__(self, Stype=Stype, finfo=finfo)
        e = mod.enums
        self.mod = mod; self.f = f; self.prec = prec
        kA = f.pindex("A"); kB = f.pindex("B")
        SM = lambda k, fld: (("A", k), ("f", "SuperMatrix", fld))
        c = self.cells
        c[SM(kA, "Stype")] = ("c", e[Stype]); c[SM(kA, "Dtype")] = ("c", e[DT[prec]]); c[SM(kA, "Mtype")] = ("c", e["SLU_GE"])
        c[(("A", f.pindex("nprocs")),)] = ("s", "nprocs")
        self.n_paths = (SM(kA, "ncol") + (("*",),), SM(kA, "nrow") + (("*",),))

    def stub(self, interp, ins, args, state):
        cal = ins.callee or ""
        if cal == "p%sgstrf" % self.prec:
            a = args[6]
            w = {}
            fi = self.kw["finfo"]
            if a and a[0] == "p":
                w[a[1]] = ("c", 0) if fi == "OK" else ("s", fi)
            hv = [x[1] for x in args[3:6] if x and x[0] == "p"]
            return {"ret": TOP, "writes": w, "havoc": hv}
        if cal in ("StatAlloc", "StatInit"):
            a = args[-1]
            return {"ret": TOP, "writes": {}, "havoc": [a[1]] if a and a[0] == "p" else []}
        return None

    cmp = XPart.cmp


SATOMS = lambda p: {
    "p%sgstrf_init" % p: {"name": "gstrf_init", "args": [("val", 1), ("val", 2), ("val", 3), ("val", 6), ("val", 7), ("val", 12), ("path", 13)]},
    "p%sgstrf" % p: {"name": "gstrf", "args": []},
    "%sgstrs" % p: {"name": "gstrs", "args": [("val", 0), ("path", 5)]},
    "pxgstrf_finalize": {"name": "finalize", "args": []},
    "Destroy_SuperMatrix_Store": {"name": "destroy_AA_store", "args": [("path", 0)]},
    "superlu_free": {"name": "free", "args": [("path", 0)]},
    "StatFree": {"name": "StatFree", "args": []},
    "StatAlloc": {"name": "StatAlloc", "args": []},
    "%sCreate_CompCol_Matrix" % p: {"name": "create_AA", "args": [("path", 0), ("val", 9)]},
    "xerbla_": {"name": "xerbla", "args": []},
}


def _s_store_atoms(f):
    kA = f.pindex("A"); kB = f.pindex("B")

    def pred_A(it, ins, path, v):
        if path and path[0] == ("A", kA) and len(path) > 1:
            return (fmt_path(path, f),)

    def pred_B(it, ins, path, v):
        if path and path[0] == ("A", kB) and len(path) > 1:
            return (fmt_path(path, f),)
    return [("A-store", pred_A), ("B-store", pred_B)]


def s_model(mod, prec, kw):
    e = mod.enums
    Stype, finfo = kw["Stype"], kw["finfo"]
    AA = "A" if Stype == "SLU_NC" else "AAnew"
    t = "NOTRANS" if Stype == "SLU_NC" else "TRANS"
    A = {("StatAlloc",), ("gstrf",), ("finalize",), ("StatFree",)}
    A.add(("gstrf_init", e["EQUILIBRATE"], e[t], e["NO"], 1.0, e["NO"], 0, AA))
    if Stype == "SLU_NR":
        A.add(("create_AA", "AAnew", e["SLU_NC"])); A.add(("destroy_AA_store", "AAnew")); A.add(("free", "AAnew"))
    if finfo == "OK":
        A.add(("gstrs", e[t], "B"))
    return A


def s_table(mod, prec):
    key = (id(mod), prec, "s")
    if key in _table_cache:
        return _table_cache[key]
    f = mod.funcs["p%sgssv" % prec]
    rows = []
    for Stype, fi in itertools.product(("SLU_NC", "SLU_NR"), ("OK", "SING", "MEM")):
        part = SPart(mod, f, prec, Stype, fi)
        it = Interp(mod, f, part, atoms=SATOMS(prec), store_atoms=_s_store_atoms(f))
        it.run()
        got = set(tuple(_norm(x) for x in a) for a in it.atoms)
        rows.append((part, it, got))
    _table_cache[key] = (f, rows)
    return _table_cache[key]


def rule_simple_table(mod, rep, classes, rule="S-TABLE"):
    rep.rule(rule, "p?gssv: for every partition of (Stype, factor outcome) the atoms of classes %s equal the reference model (DESIGN.md Appendix B.2): "
             "NC->NOTRANS / NR->TRANS handed to p?gstrf_init and ?gstrs, fixed options (EQUILIBRATE flag value, refact NO, threshold 1.0, usepr NO, lwork 0), "
             "?gstrs(B) reached iff outcome 0, cleanup in every partition, no store rooted at A or B" % sorted(classes), floor=24)
    rep.exhaustive = True
    for prec, f in fam(mod, "p?gssv"):
        rep.scope([f.name])
        f, rows = s_table(mod, prec)
        for part, it, got in rows:
            kw = part.kw
            exp = s_model(mod, prec, kw)
            g = set(a for a in got if a[0] in classes); x = set(a for a in exp if a[0] in classes)
            key = "%s#%s/%s" % (f.name, kw["Stype"][4:], kw["finfo"])
            if g == x:
                rep.ok(rule, key, "atoms agree with the model (%d atoms)" % len(g), f.file, f.name)
            else:
                miss = sorted(x - g, key=repr); extra = sorted(g - x, key=repr)
                sites = [i.loc for i, a in it.events if tuple(_norm(z) for z in a) in (g - x)]
                rep.fail(rule, key, "simple driver deviates from the documented contract: missing %s; unexpected %s" % (miss, extra), sites[0] if sites else f.file, f.name, extra={"partition": kw})


# ---------------------------------------------------------------- ordering / guard rules in p?gssvx

def _x_sites(mod, prec, f):
    kB = f.pindex("B"); kX = f.pindex("X"); ki = f.pindex("info")

    def nzstores(k):
        out = []
        for s in f.insts():
            if s.op == "store":
                for p in f.addr_paths(s):
                    if p[:1] == (("A", k),) and len(p) >= 5 and p[3][0] == "f" and p[3][2] == "nzval":
                        out.append(s)
        return out
    from ..ir import expr_loads
    xs = nzstores(kX); bs = nzstores(kB)
    for c in f.insts():
        if c.op == "call" and (c.callee or "").startswith("llvm.memcpy"):
            for p in f.paths(c.ops[0]):
                if p[:1] == (("A", kX),) and len(p) >= 5 and p[3][0] == "f" and p[3][2] == "nzval":
                    xs.append(c)
    x_scale = [s for s in xs if s.op == "store" and any(any(q[:1] == (("A", kX),) for q in f.addr_paths(l)) for l in expr_loads(f, s.ops[0]))]
    # scaling / copy loops moved into a static leaf helper: the call stands for the stores (summary of the helper's parameter-rooted stores)
    from ..summ import store_summary
    def _is_nz(paths, k):
        return any(p[:1] == (("A", k),) and len(p) >= 4 and p[3][0] == "f" and p[3][2] == "nzval" for p in paths)
    for c in f.insts():
        if c.op != "call" or c.callee not in mod.funcs:
            continue
        for (k, sfx, roots, unknown) in (store_summary(mod, mod.funcs[c.callee]) or []):
            if k >= len(c.ops):
                continue
            tp = f.paths(c.ops[k])
            if _is_nz(tp, kX):
                xs.append(c)
                if any(k2 < len(c.ops) and sfx2 and _is_nz(f.paths(c.ops[k2]), kX) for (k2, sfx2) in roots):
                    x_scale.append(c)
            if _is_nz(tp, kB) and c not in bs:
                bs.append(c)
    x_copy = [s for s in xs if s not in x_scale]
    return {"x_scale": x_scale, "x_copy": x_copy, "b_scale": bs,
            "gstrs": list(f.calls("%sgstrs" % prec)), "gsrfs": list(f.calls("%sgsrfs" % prec)), "langs": list(f.calls("%slangs" % prec)),
            "gscon": list(f.calls("%sgscon" % prec)), "laqgs": list(f.calls("%slaqgs" % prec)), "gsequ": list(f.calls("%sgsequ" % prec)),
            "gstrf": list(f.calls("p%sgstrf" % prec)), "query": list(f.calls("superlu_%sQuerySpace" % prec)),
            "info_np1": [s for s in f.insts() if s.op == "store" and (("A", ki),) in f.addr_paths(s) and not (s.ops[0][0] == "c") and
                         any(i.op == "add" for i in [f.inst[s.ops[0][1]]] if s.ops[0][0] == "v")]}


def rule_expert_order_refine(mod, rep):
    """C13: refinement after the solve, before X is mapped back; X := B copy before the solve; B scaled before the copy"""
    rep.rule("X-ORD-REFINE", "p?gssvx: the copy X:=B dominates ?gstrs; ?gstrs dominates ?gsrfs; ?gsrfs dominates every in-place scaling of X; "
             "every scaling of B dominates the copy X:=B", floor=4)
    for prec, f in fam(mod, "p?gssvx"):
        S = _x_sites(mod, prec, f)
        why = []
        if not (S["gstrs"] and S["gsrfs"] and S["x_copy"] and S["x_scale"] and S["b_scale"]):
            why.append("anchor missing: %s" % {k: len(v) for k, v in S.items()})
        else:
            for c in S["x_copy"]:
                if not all(f.dominates(c, g) or _loop_dom(f, c, g) for g in S["gstrs"]): why.append("X:=B copy does not precede the solve")
            for g in S["gstrs"]:
                if not all(f.dominates(g, r) for r in S["gsrfs"]): why.append("?gstrs does not dominate ?gsrfs")
            for r in S["gsrfs"]:
                for s in S["x_scale"]:
                    if not f.dominates(r, s): why.append("X is scaled at %s before/without refinement" % s.loc)
            for b in S["b_scale"]:
                for c in S["x_copy"]:
                    if c.i not in f.reach([b]): why.append("B scaled at %s after the copy X:=B" % b.loc)
                    if b.i in f.reach([c]) and not _same_loop(f, b, c): why.append("B scaled at %s after the copy X:=B" % b.loc)
        rep.check(not why, "X-ORD-REFINE", "%s#order" % f.name, "scale B -> X:=B -> solve -> refine -> unscale X", "; ".join(sorted(set(why))), f.file, f.name)


def _loop_dom(f, a, b):
    """a's loop nest is entered on every path to b (a is in a loop whose header dominates b and b is outside it)"""
    for h, body in f.loops():
        if a.bb.id in body and b.bb.id not in body and h in f.dom()[b.bb.id]:
            return True
    return False


def _same_loop(f, a, b):
    for h, body in f.loops():
        if a.bb.id in body and b.bb.id in body:
            return True
    return False


def rule_expert_order_cond(mod, rep):
    """C12: norm of the equilibrated matrix; n+1 warning guarded by rcond < eps only, after solve and refine, no early exit"""
    rep.rule("X-ORD-COND", "p?gssvx: ?langs is not followed by ?gsequ/?laqgs (the equilibrated AA is normed); the store info := n+1 is control-dependent on "
             "(*rcond < ?lamch_(\"E\")) only, is dominated by ?gstrs and ?gsrfs, and rejoins the normal path (memory statistics and cleanup still run)", floor=4)
    for prec, f in fam(mod, "p?gssvx"):
        S = _x_sites(mod, prec, f)
        why = []
        krc = f.pindex("rcond")
        for l in S["langs"]:
            r = f.reach([l])
            if any(x.i in r for x in S["laqgs"] + S["gsequ"]):
                why.append("AA is (re)scaled after its norm was taken at %s" % l.loc)
        for l in S["langs"]:
            for g in S["gscon"]:
                if not f.dominates(l, g): why.append("?gscon not dominated by ?langs")
        if not S["info_np1"]:
            why.append("no store info := n+1 found")
        for s in S["info_np1"]:
            b = s.bb
            ok = False
            if len(b.pred) == 1:
                t = b.pred[0].insts[-1]
                if t.op == "br" and t.ops and t.ops[0][0] == "v":
                    C = f.inst[t.ops[0][1]]
                    if C.op == "fcmp" and C.pred in ("olt", "ult", "ogt", "ugt"):
                        a, c = C.ops
                        if C.pred in ("ogt", "ugt"):
                            a, c = c, a
                        a = strip_casts(f, a); c = strip_casts(f, c)
                        la = f.inst[a[1]] if a[0] == "v" else None
                        lc = f.inst[c[1]] if c[0] == "v" else None
                        if la is not None and la.op == "load" and (("A", krc),) in f.addr_paths(la) and lc is not None and lc.op == "call" and \
                                lc.callee == "%slamch_" % ("d" if prec in "dz" else "s") and lc.ops and lc.ops[0][0] == "s" and lc.ops[0][1][:1].upper() == "E" and t.tgt[0] == b.id:
                            ok = True
                            # rejoin: successor of the store block is the false target
                            if not (len(b.succ) == 1 and b.succ[0].id == t.tgt[1]):
                                why.append("the n+1 branch does not rejoin the normal path")
            if not ok:
                why.append("info := n+1 at %s is not guarded by (*rcond < lamch('E'))" % s.loc)
            for g in S["gstrs"] + S["gsrfs"]:
                if not f.dominates(g, s): why.append("info := n+1 is reachable without the solve/refinement")
            # value: A->ncol + 1
            v = f.inst[s.ops[0][1]]
            if not (v.op == "add" and any(o[0] == "c" and o[1] == 1 for o in v.ops)):
                why.append("stored warning value is not n + 1")
        rep.check(not why, "X-ORD-COND", "%s#cond" % f.name, "norm after equilibration; n+1 warning guarded by rcond<eps after solve+refine, rejoining", "; ".join(sorted(set(why))), f.file, f.name)


def rule_factored_readonly(mod, rep):
    """C08: a solve-only call (fact = FACTORED) reaches no callee whose effect summary writes through A, L, U, perm_r or perm_c"""
    from .. import effects
    rep.rule("X-RO", "p?gssvx with fact = FACTORED (all Stype x trans x equed partitions): no reached callee has a may-write effect rooted at the parameters A, L, U, perm_r, "
             "perm_c (effect summaries translated through the abstract arguments), and the driver itself stores nothing there", floor=24)
    E = effects.get(mod)
    for prec, f in fam(mod, "p?gssvx"):
        f, rows = x_table(mod, prec)
        prot = {f.pindex(n): n for n in ("A", "L", "U", "perm_r", "perm_c")}
        for part, it, got in rows:
            kw = part.kw
            if kw["fact"] != "FACTORED":
                continue
            bad = []
            for ins, args in it.call_events:
                cal = ins.callee or ""
                if cal not in mod.funcs:
                    continue
                for w in E.W[cal]:
                    if w[0] != "A":
                        continue
                    a = args[w[1]] if w[1] < len(args) else None
                    if a is None or a[0] != "p":
                        continue
                    base = a[1][0]
                    if base[0] == "A" and base[1] in prot:
                        # writing *info / statistics through other parameters is fine; this is a protected root
                        bad.append("%s() may write %s%s" % (cal, fmt_path(a[1], f), fmt_path((("K", ""),) + tuple(x for x in w[2] if x != ("**",)))))
            for a in got:
                if a[0] in ("A-store", "LUperm-store"):
                    bad.append("driver stores into %s" % a[1])
            key = "%s#%s/%s/eq=%s" % (f.name, kw["Stype"][4:], kw["trans"], kw["equed_in"])
            rep.check(not bad, "X-RO", key, "solve-only call leaves A, L, U and the permutations untouched (%d callees inspected)" % len(it.call_events),
                      "a solve-only call can modify a protected object: " + "; ".join(sorted(set(bad))[:4]), f.file, f.name)


# ---------------------------------------------------------------- illegal mode values (C15)

_WORK_ATOMS = {"gsequ", "laqgs", "colorder", "gstrf", "gstrs", "gsrfs", "X:=", "B*=", "pivotgrowth", "langs", "gscon", "A-store", "LUperm-store", "create_AA", "pthread_create", "queryspace"}


def rule_expert_illegal(mod, rep):
    """C15: one mode cell at a time is given values outside its documented set; the same partitioned propagation that enumerates the dispatch table must show that the
    documented code is stored and that no computational atom is reachable"""
    rep.rule("X-ILLEGAL", "p?gssvx: with every other mode cell legal, each of fact, trans, refact, usepr, lwork, A/B/X's Stype/Dtype/Mtype and (for fact = FACTORED) *equed is set in turn to "
             "values outside its documented set (enumerators of the neighbouring types, -1, values above the largest enumerator incl. ones that share bits with legal ones): the "
             "partitioned propagation must reach a store of the documented code -i into *info and must reach none of the computational atoms (scaling of B, X stores, ?gsequ, "
             "?laqgs, sp_colorder, p?gstrf, ?gstrs, ?gsrfs, condition/growth estimators, thread creation)", floor=40)
    e = mod.enums
    for prec, f in fam(mod, "p?gssvx"):
        rep.scope([f.name])
        ko = f.pindex("superlumt_options"); kA = f.pindex("A"); kq = f.pindex("equed"); kB = f.pindex("B"); kX = f.pindex("X")
        O = lambda fld: (("A", ko), ("f", "superlumt_options_t", fld))
        SM = lambda k, fld: (("A", k), ("f", "SuperMatrix", fld))
        pos = lambda n: f.cpos[f.pindex(n)]
        stypes = [e[x] for x in ("SLU_NC", "SLU_NR", "SLU_SC", "SLU_SR", "SLU_NCP", "SLU_DN") if x in e]
        dtypes = [e[x] for x in ("SLU_S", "SLU_D", "SLU_C", "SLU_Z") if x in e]
        mtypes = [e[x] for x in ("SLU_GE", "SLU_TRLU", "SLU_TRUU", "SLU_TRL", "SLU_TRU", "SLU_SYL", "SLU_SYU", "SLU_HEL", "SLU_HEU") if x in e]
        cases = []
        cases.append(("equed", "FACTORED", (("A", kq),), [v for v in (-1, 4, 5, 6, 7, 8, 9, 13, 100) if v not in (e["NOEQUIL"], e["ROW"], e["COL"], e["BOTH"])], "equed"))
        for fact in ("DOFACT", "FACTORED"):
            cases.append(("fact", fact, O("fact"), [v for v in (-1, 3, 4, 5, 6, 7, 100) if v not in (e["DOFACT"], e["EQUILIBRATE"], e["FACTORED"])], "superlumt_options"))
            cases.append(("trans", fact, O("trans"), [v for v in (-1, 3, 4, 5, 7, 100) if v not in (e["NOTRANS"], e["TRANS"], e["CONJ"])], "superlumt_options"))
            cases.append(("refact", fact, O("refact"), [v for v in (-1, 2, 3, 5, 100) if v not in (e["NO"], e["YES"])], "superlumt_options"))
            cases.append(("usepr", fact, O("usepr"), [v for v in (-1, 2, 3, 5, 100) if v not in (e["NO"], e["YES"])], "superlumt_options"))
            cases.append(("lwork", fact, O("lwork"), [-2, -3, -100], "superlumt_options"))
            cases.append(("A.Stype", fact, SM(kA, "Stype"), [v for v in stypes + [-1, 100] if v not in (e["SLU_NC"], e["SLU_NR"])], "A"))
            cases.append(("A.Dtype", fact, SM(kA, "Dtype"), [v for v in dtypes + [-1, 100] if v != e[DT[prec]]], "A"))
            cases.append(("A.Mtype", fact, SM(kA, "Mtype"), [v for v in mtypes + [-1, 100] if v != e["SLU_GE"]], "A"))
            for nm, k in (("B", kB), ("X", kX)):
                cases.append(("%s.Stype" % nm, fact, SM(k, "Stype"), [v for v in stypes + [-1, 100] if v != e["SLU_DN"]], nm))
                cases.append(("%s.Dtype" % nm, fact, SM(k, "Dtype"), [v for v in dtypes + [-1, 100] if v != e[DT[prec]]], nm))
                cases.append(("%s.Mtype" % nm, fact, SM(k, "Mtype"), [v for v in mtypes + [-1, 100] if v != e["SLU_GE"]], nm))
        for (what, fact, cell, values, param) in cases:
            for v in values:
                part = XPart(mod, f, prec, "SLU_NC", "NOTRANS", fact, "NOEQUIL", 0, 0, "NOEQUIL", "OK")
                part.cells[cell] = ("c", v)
                part.args = {f.pindex("nprocs"): ("c", 2)}      # a legal thread count: the prologue is then decided by the cell under test
                it = Interp(mod, f, part, atoms=XATOMS(prec), store_atoms=_x_store_atoms(f))
                it.run()
                got = set(tuple(_norm(x) for x in a) for a in it.atoms)
                codes = set(a[1] for a in got if a[0] == "info:=" and isinstance(a[1], int) and a[1] < 0)
                work = sorted(set(a[0] for a in got if a[0] in _WORK_ATOMS))
                key = "%s#%s=%d/%s" % (f.name, what, v, fact)
                if len(codes) > 1:
                    # an earlier argument whose validity the partition does not fix (B's shape before X's) can be reported instead: *info is then not a constant at the
                    # test that leaves the routine, and reachability of the computational part says nothing - only the code is required
                    work = []
                ok = (-pos(param) in codes) and not work
                if ok:
                    rep.ok("X-ILLEGAL", key, "code %d is stored, no computational atom is reachable" % -pos(param), f.file, f.name)
                else:
                    sites = [i.loc for i, a in it.events if a and a[0] in work]
                    rep.fail("X-ILLEGAL", "%s#%s/%s" % (f.name, what, fact), "with %s = %d (illegal) and fact = %s the driver %s%s" % (
                        what, v, fact, "does not report argument %d (codes that can be stored: %s)" % (pos(param), sorted(codes)) if -pos(param) not in codes else "reports the argument but",
                        (" reaches %s" % work) if work else ""), sites[0] if sites else f.file, f.name, extra={"value": v, "fact": fact})
