"""MODE engine: trace-partitioned constant propagation over one function's IR.

For one *partition* (an assignment of constants to declared mode cells, plus the
outcome classes of stubbed callees) a forward abstract interpretation over the flat
constant lattice is run to a fixpoint with join at merge points; branches whose
condition is constant in the partition make only one successor feasible.  The result
is the set of *atoms* reached: calls to designated routines with their abstract
arguments, designated stores, and the returns.  No concrete input is executed and no
solver is involved.

Abstract values:
  ("c", int)   integer constant            ("f", float)  float constant
  ("S", str)   string literal              ("s", name)   named symbol (assigned by a stub / the partition)
  ("p", path)  the value named by an access path (address of a cell, or the unknown initial
               content of a cell written path+("*",))
  TOP          unknown
"""
from .ir import strip_casts, fmt_path

TOP = ("T",)
PURE = {"lsame_", "dlamch_", "slamch_", "SuperLU_timer_", "usertimer_", "fabs", "fabsf", "sqrt", "sqrtf", "c_abs", "c_abs1", "z_abs", "z_abs1",
        "llvm.fabs.f64", "llvm.fabs.f32", "llvm.dbg.value", "llvm.dbg.declare", "llvm.lifetime.start.p0i8", "llvm.lifetime.end.p0i8",
        "sp_ienv", "printf", "fprintf", "fflush", "puts", "putchar", "log", "exp", "pow", "r_imag", "d_imag", "llvm.fmuladd.f64", "llvm.fmuladd.f32"}


def join(a, b):
    if a is None:
        return b
    if b is None:
        return a
    if a == b:
        return a
    return TOP


class Partition(object):
    """base class: override cell_init / stub / cmp"""
    def __init__(self, **kw):
        self.kw = kw
        self.cells = {}      # path -> AV at entry
        self.args = {}       # by-value parameter index -> AV

    def stub(self, interp, ins, args, state):
        return None

    def cmp(self, interp, pred, a, b):
        return None

    def label(self):
        return tuple(sorted(self.kw.items()))


class Interp(object):
    def __init__(self, mod, f, part, atoms=None, store_atoms=None, max_iter=60):
        self.mod = mod; self.f = f; self.part = part
        self.env = {}
        self.block_in = {}
        self.feasible = set()
        self.atom_spec = atoms or {}
        self.store_atoms = store_atoms or []
        self.max_iter = max_iter
        self.atoms = set()
        self.reached_blocks = set()
        self.rets = set()
        self.collecting = False
        self.events = []     # ordered (within the final pass) list of (inst, atom)
        self.call_events = []   # (call inst, abstract args) for every call reached in the final pass

    # ---------------------------------------------------------------- values
    def val(self, o):
        k = o[0]
        if k == "c":
            return ("c", o[1])
        if k == "f":
            return ("f", o[1])
        if k == "a":
            if o[1] in getattr(self.part, "args", {}):
                return self.part.args[o[1]]
            return ("p", (("A", o[1]),))
        if k == "g":
            return ("p", (("G", o[1]),))
        if k == "s":
            return ("S", o[1])
        if k == "null":
            return ("c", 0)
        if k == "fn":
            return ("p", (("F", o[1]),))
        if k == "v":
            return self.env.get(o[1])
        if k == "ce":
            body = o[2]
            if "gep" in body:
                b = self.val(body["base"])
                if b and b[0] == "p":
                    return ("p", self._gep(b[1], body["gep"]))
            elif body.get("ops"):
                return self.val(body["ops"][0])
            return TOP
        if k == "undef":
            return TOP
        return TOP

    def _gep(self, path, gep):
        out = list(path)
        for n, st in enumerate(gep):
            if st["k"] == "fld":
                out.append(("f", st["s"], st["n"]))
            else:
                v = st["v"]
                if v[0] == "c" and v[1] == 0:
                    continue
                if out and out[-1] == ("i",):
                    continue
                out.append(("i",))
        return tuple(out)

    def load_cell(self, state, path):
        if path in state:
            return state[path]
        if path in self.part.cells:
            return self.part.cells[path]
        if ("i",) in path:
            return TOP      # an array element summary is not a single value
        return ("p", path + (("*",),))

    # -------------------------------------------------------------- transfer
    def run(self):
        f = self.f
        entry = f.blocks[0]
        self.block_in[entry.id] = {}
        work = [entry.id]
        it = 0
        visits = {}
        while work:
            bid = work.pop(0)
            visits[bid] = visits.get(bid, 0) + 1
            if visits[bid] > self.max_iter:
                raise RuntimeError("absint: no fixpoint in %s block %d" % (f.name, bid))
            b = f.blocks[bid]
            state = dict(self.block_in[bid])
            outs = self.exec_block(b, state)
            for sid, st in outs:
                edge = (bid, sid)
                newfeas = edge not in self.feasible
                self.feasible.add(edge)
                old = self.block_in.get(sid)
                if old is None:
                    self.block_in[sid] = dict(st)
                    changed = True
                else:
                    merged, changed = self._merge(old, st)
                    self.block_in[sid] = merged
                if changed or newfeas or self._env_changed:
                    if sid not in work:
                        work.append(sid)
        self.reached_blocks = set(self.block_in.keys())
        # final pass: collect atoms with the fixpoint states
        self.collecting = True
        for bid in sorted(self.reached_blocks):
            self.exec_block(f.blocks[bid], dict(self.block_in[bid]))
        self.collecting = False
        return self

    def _merge(self, old, new):
        changed = False
        out = {}
        keys = set(old) | set(new)
        for k in keys:
            dflt = self.part.cells.get(k, TOP if ("i",) in k else ("p", k + (("*",),)))
            a = old.get(k, dflt)
            b = new.get(k, dflt)
            j = join(a, b)
            out[k] = j
            if j != old.get(k, a) or k not in old:
                if j != a:
                    changed = True
        return out, changed

    def setenv(self, i, v):
        old = self.env.get(i)
        nv = join(old, v) if old is not None else v
        if nv != old:
            self.env[i] = nv
            self._env_changed = True

    def exec_block(self, b, state):
        f = self.f
        self._env_changed = False
        for ins in b.insts:
            op = ins.op
            if op == "phi":
                v = None
                for o, pb in zip(ins.ops, ins.inb):
                    if (pb, b.id) not in self.feasible:
                        continue
                    x = self.val(o)
                    if x is None:
                        continue
                    v = join(v, x)
                if v is not None:
                    # phi values are re-joined over feasible edges only (not monotone-joined with stale values of dead edges)
                    old = self.env.get(ins.i)
                    nv = v if old is None else join(old, v)
                    if nv != old:
                        self.env[ins.i] = nv
                        self._env_changed = True
                continue
            if op == "alloca":
                self.setenv(ins.i, ("p", (("L", ins.i),)))
            elif op in ("bitcast", "sext", "zext", "trunc", "inttoptr", "ptrtoint", "fpext", "fptrunc", "addrspacecast"):
                v = self.val(ins.ops[0])
                if v is not None and op == "trunc" and v[0] == "c" and ins.ty == "i1":
                    v = ("c", v[1] & 1)
                if v is not None and op == "zext" and v[0] == "c" and v[1] < 0:
                    v = ("c", 1) if v[1] == -1 else v
                self.setenv(ins.i, v if v is not None else TOP)
            elif op == "getelementptr":
                bv = self.val(ins.ops[0])
                if bv and bv[0] == "p":
                    self.setenv(ins.i, ("p", self._gep(bv[1], ins.gep)))
                else:
                    self.setenv(ins.i, TOP)
            elif op == "load":
                av = self.val(ins.ops[0])
                if av and av[0] == "p":
                    self.setenv(ins.i, self.load_cell(state, av[1]))
                else:
                    self.setenv(ins.i, TOP)
            elif op == "store":
                av = self.val(ins.ops[1]); v = self.val(ins.ops[0])
                if v is None:
                    v = TOP
                if av and av[0] == "p":
                    path = av[1]
                    if ("i",) in path:
                        state[path] = TOP       # weak update of an array summary
                    else:
                        state[path] = v
                    if self.collecting:
                        self._store_atom(ins, path, v, state)
                else:
                    # unknown address: havoc nothing (addresses in this code base are always rooted); note it
                    if self.collecting:
                        self._store_atom(ins, None, v, state)
            elif op in ("icmp", "fcmp"):
                a = self.val(ins.ops[0]); c = self.val(ins.ops[1])
                self.setenv(ins.i, self._cmp(ins.pred, a, c, op == "fcmp"))
            elif op in ("add", "sub", "mul", "and", "or", "xor", "sdiv", "srem", "shl", "ashr", "lshr"):
                a = self.val(ins.ops[0]); c = self.val(ins.ops[1])
                self.setenv(ins.i, self._arith(op, a, c, ins.ty))
            elif op == "select":
                c = self.val(ins.ops[0])
                if c and c[0] == "c":
                    v = self.val(ins.ops[1] if c[1] else ins.ops[2])
                else:
                    v = join(self.val(ins.ops[1]) or TOP, self.val(ins.ops[2]) or TOP)
                self.setenv(ins.i, v if v is not None else TOP)
            elif op == "call":
                self._call(ins, state)
            elif op == "br":
                if not ins.ops:
                    return [(ins.tgt[0], state)]
                c = self.val(ins.ops[0])
                if c is not None and c[0] == "c":
                    return [(ins.tgt[0] if c[1] else ins.tgt[1], state)]
                st_t, st_f = state, dict(state)
                self._refine(b, ins, st_t, st_f)
                return [(ins.tgt[0], st_t), (ins.tgt[1], st_f)]
            elif op == "switch":
                c = self.val(ins.ops[0])
                if c is not None and c[0] == "c":
                    tg = ins.default
                    for cv, tb in ins.cases:
                        if cv == c[1]:
                            tg = tb
                    return [(tg, state)]
                return [(s.id, dict(state)) for s in b.succ]
            elif op == "ret":
                if self.collecting:
                    rv = self.val(ins.ops[0]) if ins.ops else None
                    self.rets.add(rv)
                    self._emit(ins, ("ret",))
                return []
            elif op == "unreachable":
                return []
            else:
                self.setenv(ins.i, TOP)
        return []

    def _refine(self, b, br, st_t, st_f):
        """branch on icmp eq/ne (load cell, const): on the equal edge the cell holds the constant
        (only when the load and the branch are in this block with no store/call in between)"""
        f = self.f
        o = br.ops[0]
        if o[0] != "v":
            return
        C = f.inst[o[1]]
        if C.op != "icmp" or C.pred not in ("eq", "ne") or C.bb is not b:
            return
        for x, y in ((C.ops[0], C.ops[1]), (C.ops[1], C.ops[0])):
            k = self.val(y)
            if k is None or k[0] != "c":
                continue
            xs = strip_casts(f, x)
            if xs[0] != "v":
                continue
            L = f.inst[xs[1]]
            if L.op != "load" or L.bb is not b:
                continue
            if any(i.op in ("store", "call") for i in b.insts[L.pos + 1:br.pos] if not (i.op == "call" and (i.callee or "").startswith("llvm."))):
                continue
            av = self.val(L.ops[0])
            if not av or av[0] != "p" or ("i",) in av[1]:
                continue
            (st_t if C.pred == "eq" else st_f)[av[1]] = k
            return

    def _cmp(self, pred, a, b, isf):
        if a is None or b is None:
            return TOP
        r = self.part.cmp(self, pred, a, b)
        if r is not None:
            return ("c", 1 if r else 0)
        if a[0] in ("c", "f") and b[0] in ("c", "f") and a[0] == b[0]:
            x, y = a[1], b[1]
            if isinstance(x, str) or isinstance(y, str):
                return TOP
            t = {"eq": x == y, "ne": x != y, "slt": x < y, "sle": x <= y, "sgt": x > y, "sge": x >= y,
                 "ult": x < y, "ule": x <= y, "ugt": x > y, "uge": x >= y,
                 "oeq": x == y, "one": x != y, "olt": x < y, "ole": x <= y, "ogt": x > y, "oge": x >= y,
                 "ueq": x == y, "une": x != y}.get(pred)
            if pred in ("ult", "ule", "ugt", "uge") and (x < 0 or y < 0):
                return TOP
            if t is None:
                return TOP
            return ("c", 1 if t else 0)
        if a == b and a[0] in ("p", "s") and not isf:
            if pred in ("eq", "sle", "sge", "ule", "uge"):
                return ("c", 1)
            if pred in ("ne", "slt", "sgt", "ult", "ugt"):
                return ("c", 0)
        # pointer to a local / call result compared with NULL
        if pred in ("eq", "ne") and a[0] == "p" and b == ("c", 0) and len(a[1]) == 1 and a[1][0][0] in ("L", "G"):
            return ("c", 1 if pred == "ne" else 0)
        return TOP

    def _arith(self, op, a, b, ty):
        if a is None or b is None:
            return TOP
        if a[0] == "c" and b[0] == "c":
            x, y = a[1], b[1]
            try:
                r = {"add": x + y, "sub": x - y, "mul": x * y, "and": x & y, "or": x | y, "xor": x ^ y,
                     "shl": x << y if 0 <= y < 64 else None, "ashr": x >> y if 0 <= y < 64 else None}.get(op)
                if op == "sdiv":
                    r = int(x / y) if y else None
                if op == "srem":
                    r = x - int(x / y) * y if y else None
            except Exception:
                r = None
            if r is None:
                return TOP
            if ty == "i1":
                r &= 1
            return ("c", r)
        if op == "and" and (a == ("c", 0) or b == ("c", 0)):
            return ("c", 0)
        if op == "or" and ty == "i1" and (a == ("c", 1) or b == ("c", 1)):
            return ("c", 1)
        if op == "mul" and (a == ("c", 0) or b == ("c", 0)):
            return ("c", 0)
        if op == "sub" and a == b and a[0] in ("p", "s"):
            return ("c", 0)
        if op == "xor" and ty == "i1" and (a == ("c", 1) or b == ("c", 1)):
            o = b if a == ("c", 1) else a
            if o[0] == "c":
                return ("c", 1 - o[1])
        return TOP

    def chr_of(self, av, state):
        if av is None:
            return None
        if av[0] == "S":
            return av[1][:1]
        if av[0] == "p":
            c = self.load_cell(state, av[1])
            if c[0] == "c":
                return chr(c[1] & 0xff)
        return None

    def _call(self, ins, state):
        callee = ins.callee or ""
        args = [self.val(o) for o in ins.ops]
        if callee.startswith("llvm.dbg") or callee.startswith("llvm.lifetime"):
            return
        if callee.startswith("llvm.memcpy") or callee.startswith("llvm.memmove"):
            d = args[0]
            if d is not None and d[0] == "p":
                if ("i",) in d[1]:
                    state[d[1]] = TOP
                else:
                    self._havoc(state, d[1])
                if self.collecting:
                    self._store_atom(ins, d[1], TOP, state)
            return
        if self.collecting:
            self.call_events.append((ins, args))
        res = self.part.stub(self, ins, args, state) if hasattr(self.part, "stub") else None
        if self.collecting and callee in self.atom_spec:
            self._call_atom(ins, args, state)
        if res is not None:
            ret = res.get("ret", TOP)
            for p, v in res.get("writes", {}).items():
                state[p] = v
            for pre in res.get("havoc", []):
                self._havoc(state, pre)
            self.setenv(ins.i, ret)
            return
        if self.collecting and self.store_atoms and callee in self.mod.funcs and callee not in self.atom_spec:
            # a loop that was moved into a static leaf helper: its parameter-rooted stores, seen from here
            from .summ import store_summary, SummStore, join_path
            summ = store_summary(self.mod, self.mod.funcs[callee])
            for (k, sfx, roots, unknown) in (summ or []):
                a = args[k] if k < len(args) else None
                if not (a and a[0] == "p"):
                    continue
                rs = set()
                for (k2, sfx2) in roots:
                    b = args[k2] if k2 < len(args) else None
                    if b and b[0] == "p":
                        rs.add(fmt_path(join_path(b[1], sfx2), self.f))
                    elif not sfx2:
                        pass                       # a scalar argument (a count, a stride): not a memory root
                    else:
                        rs.add("?")
                if unknown:
                    rs.add("?")
                self._store_atom(SummStore(ins, rs), join_path(a[1], sfx), TOP, state)
        if callee == "lsame_":
            a = self.chr_of(args[0], state); b = self.chr_of(args[1], state)
            if a is not None and b is not None and a != "" and b != "":
                self.setenv(ins.i, ("c", 1 if a.upper() == b.upper() else 0))
            else:
                self.setenv(ins.i, TOP)
            return
        if callee in self.mod.constret and callee not in self.mod.funcs.get(callee, self).__dict__.get("_never", ()):
            ret = ("c", self.mod.constret[callee])
        elif ins.ty.endswith("*"):
            ret = ("p", (("C", callee, ins.i),))
        else:
            ret = TOP
        self.setenv(ins.i, ret)
        if callee in PURE:
            return
        from . import effects
        E = effects.get(self.mod)
        if callee in self.mod.funcs:
            for w in E.W[callee]:
                if w[0] == "A":
                    k, suf = w[1], w[2]
                    a = args[k] if k < len(args) else None
                    if a is not None and a[0] == "p":
                        self._havoc_write(state, a[1], suf, ins)
                elif w[0] == "G":
                    self._havoc_write(state, (("G", w[1]),), w[2], ins)
            return
        tab = effects.EXT_WRITES.get(callee, "default")
        idxs = range(len(args)) if (tab == "default" or tab is None) else tab
        for k in idxs:
            a = args[k] if k < len(args) else None
            if a is not None and a[0] == "p":
                self._havoc(state, a[1])

    def _havoc_write(self, state, base, suf, ins=None):
        wild = bool(suf) and suf[-1] == ("**",)
        body = tuple(s for s in suf if s != ("**",))
        full = tuple(base) + body
        # normalise: element steps
        n = len(full)
        hit = False
        for k in list(state.keys()) + list(self.part.cells.keys()):
            if k == full or (wild and k[:n] == full) or (full[-1:] == (("i",),) and k == full[:-1]):
                state[k] = TOP
                hit = True
        if not wild and ("i",) not in full and ins is not None and base and base[0][0] == "L":
            # a scalar out-parameter (address of a local) written by the callee: name the unknown new value
            state[full] = ("s", "w%d:%s" % (ins.i, fmt_path(full, self.f)))
        elif not hit and not wild:
            state[full] = TOP

    def _havoc(self, state, prefix):
        n = len(prefix)
        for k in list(state.keys()):
            if k[:n] == prefix:
                state[k] = TOP
        for k in self.part.cells:
            if k[:n] == prefix:
                state[k] = TOP
        # remember the prefix itself as havoced content (loads through it are unknown)
        state[prefix] = TOP if prefix not in state or True else state[prefix]
        state.setdefault(("havoc", prefix), TOP)

    # ------------------------------------------------------------------ atoms
    def _emit(self, ins, atom):
        self.atoms.add(atom)
        self.events.append((ins, atom))

    def _call_atom(self, ins, args, state):
        spec = self.atom_spec[ins.callee]
        out = [ins.callee if not callable(spec.get("name")) else spec["name"](ins.callee)]
        if "name" in spec and not callable(spec["name"]):
            out = [spec["name"]]
        for kind, k in spec.get("args", []):
            a = args[k] if k < len(args) else None
            if kind == "val":
                out.append(self._show(a))
            elif kind == "chr":
                out.append(self.chr_of(a, state) or "?")
            elif kind == "deref":
                out.append(self._show(self.load_cell(state, a[1])) if a and a[0] == "p" else "?")
            elif kind == "path":
                out.append(fmt_path(a[1], self.f) if a and a[0] == "p" else self._show(a))
        self._emit(ins, tuple(out))

    def _show(self, a):
        if a is None:
            return "?"
        if a[0] == "c":
            return a[1]
        if a[0] == "f":
            return a[1]
        if a[0] == "p":
            return fmt_path(a[1], self.f)
        if a[0] == "s":
            return "$" + a[1]
        if a[0] == "S":
            return a[1]
        return "T"

    def _store_atom(self, ins, path, v, state):
        for name, pred in self.store_atoms:
            r = pred(self, ins, path, v)
            if r is not None:
                self._emit(ins, (name,) + (tuple(r) if isinstance(r, (tuple, list)) else ()))


def value_roots(interp, o, limit=300):
    """formatted access paths of all loads in the expression tree of operand o (evaluated with the interpreter's pointer values)"""
    f = interp.f
    out = set()
    seen = set()
    work = [o]
    while work and len(seen) < limit:
        x = work.pop()
        if x[0] != "v" or x[1] in seen:
            if x[0] == "a":
                out.add(fmt_path((("A", x[1]),), f))
            continue
        seen.add(x[1])
        ins = f.inst[x[1]]
        if ins.op == "load":
            av = interp.val(ins.ops[0])
            if av and av[0] == "p":
                out.add(fmt_path(av[1], f))
            else:
                out.add("?")
            continue
        if ins.op == "call":
            out.add("%s()" % ins.callee)
            for y in ins.ops:
                work.append(y)
            continue
        if ins.op == "alloca":
            continue
        if ins.op == "phi":
            continue
        for y in ins.ops:
            work.append(y)
    return out
