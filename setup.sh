#!/bin/sh
# Build the IR dumper (offline; LLVM-14 development files are pre-installed).
set -e
cd "$(dirname "$0")/sa"
clang++ $(llvm-config-14 --cxxflags) -fno-rtti -O1 irdump.cc -o irdump /usr/lib/llvm-14/lib/libLLVM-14.so
clang++ $(llvm-config-14 --cxxflags) -fno-rtti -O1 promote.cc -o promote /usr/lib/llvm-14/lib/libLLVM-14.so
echo "built $(pwd)/irdump $(pwd)/promote"
