// promote: function-scope statics of f2c-translated code that are provably written before they are read in every invocation
// (every load is dominated by a store to the same variable in the same function; no other use; no initializer that matters)
// are turned into allocas and promoted to SSA registers, so that the loop engines see their induction variables.
// A static that carries state between calls (a load not dominated by a store) is left untouched - that is exactly the
// class the STATE rule reports on.  usage: promote in.bc out.bc
#include "llvm/IR/LLVMContext.h"
#include "llvm/IR/Module.h"
#include "llvm/IR/Instructions.h"
#include "llvm/IR/Dominators.h"
#include "llvm/IRReader/IRReader.h"
#include "llvm/Bitcode/BitcodeWriter.h"
#include "llvm/Support/SourceMgr.h"
#include "llvm/Support/raw_ostream.h"
#include "llvm/Support/FileSystem.h"
#include "llvm/Transforms/Utils/PromoteMemToReg.h"
#include <map>
#include <vector>
using namespace llvm;

int main(int argc, char **argv) {
  if (argc < 3) { errs() << "usage: promote in.bc out.bc\n"; return 2; }
  LLVMContext Cx; SMDiagnostic Err;
  std::unique_ptr<Module> M = parseIRFile(argv[1], Err, Cx);
  if (!M) { Err.print("promote", errs()); return 2; }
  unsigned n = 0;
  std::vector<GlobalVariable *> dead;
  for (GlobalVariable &G : M->globals()) {
    if (!G.hasInternalLinkage() && !G.hasPrivateLinkage()) continue;
    if (!G.getValueType()->isSingleValueType()) continue;
    Function *F = nullptr; bool ok = true;
    std::vector<LoadInst *> loads; std::vector<StoreInst *> stores;
    for (User *U : G.users()) {
      if (auto *L = dyn_cast<LoadInst>(U)) { if (L->isVolatile()) ok = false; loads.push_back(L); if (!F) F = L->getFunction(); else if (F != L->getFunction()) ok = false; }
      else if (auto *S = dyn_cast<StoreInst>(U)) { if (S->getPointerOperand() != &G || S->isVolatile()) ok = false; stores.push_back(S); if (!F) F = S->getFunction(); else if (F != S->getFunction()) ok = false; }
      else ok = false;
    }
    if (!ok || !F || stores.empty()) continue;
    DominatorTree DT(*F);
    for (LoadInst *L : loads) {
      bool dom = false;
      for (StoreInst *S : stores) if (DT.dominates(S, L)) { dom = true; break; }
      if (!dom) { ok = false; break; }
    }
    if (!ok) continue;
    AllocaInst *A = new AllocaInst(G.getValueType(), 0, G.getName() + ".promoted", &*F->getEntryBlock().getFirstInsertionPt());
    for (LoadInst *L : loads) L->setOperand(0, A);
    for (StoreInst *S : stores) S->setOperand(1, A);
    if (isAllocaPromotable(A)) { PromoteMemToReg({A}, DT); }
    dead.push_back(&G); ++n;
  }
  for (GlobalVariable *G : dead) if (G->use_empty()) { G->eraseFromParent(); }
  std::error_code EC; raw_fd_ostream OS(argv[2], EC, sys::fs::OF_None);
  if (EC) { errs() << EC.message() << "\n"; return 2; }
  WriteBitcodeToFile(*M, OS);
  errs() << "promoted " << n << " statics\n";
  return 0;
}
