// irdump: load one linked LLVM-14 bitcode module and write a JSON fact base
// (functions, CFG, instructions with resolved operands, struct-field names from
// debug info, enumerators, globals incl. function-scoped statics).
//
// Build (see /verif/setup.sh):
//   clang++ $(llvm-config-14 --cxxflags) -fno-rtti irdump.cc -o irdump /usr/lib/llvm-14/lib/libLLVM-14.so
//
// The Python rule engines under /verif/slu consume the output; nothing in here
// is property-specific.
#include "llvm/IR/Constants.h"
#include "llvm/IR/DataLayout.h"
#include "llvm/IR/DebugInfo.h"
#include "llvm/IR/DebugInfoMetadata.h"
#include "llvm/IR/Function.h"
#include "llvm/IR/GlobalVariable.h"
#include "llvm/IR/InstIterator.h"
#include "llvm/IR/Instructions.h"
#include "llvm/IR/IntrinsicInst.h"
#include "llvm/IR/LLVMContext.h"
#include "llvm/IR/Module.h"
#include "llvm/IR/Operator.h"
#include "llvm/IRReader/IRReader.h"
#include "llvm/Support/JSON.h"
#include "llvm/Support/SourceMgr.h"
#include "llvm/Support/raw_ostream.h"
#include <map>
#include <set>
#include <string>
#include <vector>

using namespace llvm;

static std::string typeStr(Type *T) {
  std::string s;
  raw_string_ostream os(s);
  T->print(os, false, true);
  return os.str();
}

static std::string normStructName(StringRef n) {
  // "struct.GlobalLU_t.386" -> "GlobalLU_t"; "union.anon.3" -> "anon"
  StringRef r = n;
  if (r.startswith("struct.")) r = r.drop_front(7);
  else if (r.startswith("union.")) r = r.drop_front(6);
  size_t p = r.rfind('.');
  if (p != StringRef::npos) {
    StringRef suf = r.substr(p + 1);
    bool digits = !suf.empty();
    for (char c : suf) if (c < '0' || c > '9') digits = false;
    if (digits) r = r.substr(0, p);
  }
  return r.str();
}

struct Ctx {
  Module *M;
  const DataLayout *DL;
  // DI struct name -> list of candidate composite types
  std::multimap<std::string, DICompositeType *> diStructs;
  std::map<StructType *, std::vector<std::string>> fieldNames;
  std::map<StructType *, std::string> displayName;   // when the LLVM type was merged with a same-layout type of another name
  std::map<const Value *, unsigned> vid;   // per function
  std::map<const BasicBlock *, unsigned> bid;
  std::map<const Value *, std::string> dbgName; // per function
};

static DIType *stripTypedefs(DIType *T) {
  while (T) {
    if (auto *D = dyn_cast<DIDerivedType>(T)) {
      unsigned tag = D->getTag();
      if (tag == dwarf::DW_TAG_typedef || tag == dwarf::DW_TAG_const_type ||
          tag == dwarf::DW_TAG_volatile_type) {
        T = D->getBaseType();
        continue;
      }
    }
    break;
  }
  return T;
}

static void collectDI(Ctx &C) {
  DebugInfoFinder F;
  F.processModule(*C.M);
  for (DIType *T : F.types()) {
    if (auto *CT = dyn_cast<DICompositeType>(T)) {
      if (CT->getTag() == dwarf::DW_TAG_structure_type && !CT->getName().empty())
        C.diStructs.insert({CT->getName().str(), CT});
    } else if (auto *D = dyn_cast<DIDerivedType>(T)) {
      if (D->getTag() == dwarf::DW_TAG_typedef) {
        DIType *B = stripTypedefs(D);
        if (auto *CT = dyn_cast_or_null<DICompositeType>(B))
          if (CT->getTag() == dwarf::DW_TAG_structure_type)
            C.diStructs.insert({D->getName().str(), CT});
      }
    }
  }
}

static const std::vector<std::string> &fieldsOf(Ctx &C, StructType *ST) {
  auto it = C.fieldNames.find(ST);
  if (it != C.fieldNames.end()) return it->second;
  std::vector<std::string> names(ST->getNumElements());
  for (unsigned i = 0; i < names.size(); ++i) names[i] = "f" + std::to_string(i);
  if (ST->hasName() && !ST->isOpaque()) {
    std::string n = normStructName(ST->getName());
    const StructLayout *SL = C.DL->getStructLayout(ST);
    auto range = C.diStructs.equal_range(n);
    for (auto r = range.first; r != range.second; ++r) {
      DICompositeType *CT = r->second;
      std::map<uint64_t, std::string> byOff;
      unsigned members = 0;
      for (DINode *E : CT->getElements()) {
        if (auto *Mb = dyn_cast<DIDerivedType>(E)) {
          if (Mb->getTag() != dwarf::DW_TAG_member) continue;
          ++members;
          byOff[Mb->getOffsetInBits() / 8] = Mb->getName().str();
        }
      }
      if (members != ST->getNumElements()) continue;
      bool ok = true;
      std::vector<std::string> cand(names.size());
      for (unsigned i = 0; i < names.size(); ++i) {
        auto f = byOff.find(SL->getElementOffset(i));
        if (f == byOff.end()) { ok = false; break; }
        cand[i] = f->second;
      }
      if (ok) { names = cand; break; }
    }
    if (names.size() && names[0] == "f0") {
      // llvm-link may have merged this type with a structurally identical one of another name (e.g. LU_stack_t
      // with the OpenMP runtime's ident_t): fall back to the unique DI struct with the same layout and member names
      std::set<std::vector<std::string>> found; std::string foundName;
      for (auto &kv : C.diStructs) {
        DICompositeType *CT = kv.second;
        std::map<uint64_t, std::string> byOff;
        unsigned members = 0;
        for (DINode *E : CT->getElements())
          if (auto *Mb = dyn_cast<DIDerivedType>(E)) {
            if (Mb->getTag() != dwarf::DW_TAG_member) continue;
            ++members;
            byOff[Mb->getOffsetInBits() / 8] = Mb->getName().str();
          }
        if (members != ST->getNumElements() || CT->getSizeInBits() / 8 != SL->getSizeInBytes()) continue;
        bool ok = true;
        std::vector<std::string> cand(names.size());
        for (unsigned i = 0; i < names.size(); ++i) {
          auto f = byOff.find(SL->getElementOffset(i));
          if (f == byOff.end()) { ok = false; break; }
          cand[i] = f->second;
        }
        if (ok) { found.insert(cand); foundName = kv.first; }
      }
      if (found.size() == 1) { names = *found.begin(); C.displayName[ST] = foundName; }
    }
  }
  return C.fieldNames[ST] = names;
}

static void emitOperand(Ctx &C, json::OStream &J, const Value *V);

static void emitGepPath(Ctx &C, json::OStream &J, const GEPOperator *G) {
  // list of steps: {"k":"idx","v":operand} or {"k":"fld","s":struct,"i":n,"n":name}
  J.attributeArray("gep", [&] {
    Type *Cur = G->getSourceElementType();
    bool first = true;
    for (auto It = G->idx_begin(); It != G->idx_end(); ++It) {
      const Value *Idx = *It;
      if (first) {
        first = false;
        J.object([&] {
          J.attribute("k", "idx");
          J.attributeBegin("v"); emitOperand(C, J, Idx); J.attributeEnd();
        });
        continue;
      }
      if (auto *ST = dyn_cast<StructType>(Cur)) {
        unsigned i = cast<ConstantInt>(Idx)->getZExtValue();
        const auto &fn = fieldsOf(C, ST);
        J.object([&] {
          J.attribute("k", "fld");
          J.attribute("s", C.displayName.count(ST) ? C.displayName[ST] : (ST->hasName() ? normStructName(ST->getName()) : std::string("anon")));
          J.attribute("i", (int64_t)i);
          J.attribute("n", fn[i]);
        });
        Cur = ST->getElementType(i);
      } else {
        J.object([&] {
          J.attribute("k", "idx");
          J.attributeBegin("v"); emitOperand(C, J, Idx); J.attributeEnd();
        });
        if (auto *AT = dyn_cast<ArrayType>(Cur)) Cur = AT->getElementType();
        else if (auto *VT = dyn_cast<VectorType>(Cur)) Cur = VT->getElementType();
      }
    }
  });
}

static bool constString(const Value *V, std::string &out) {
  // GEP(@.str, 0, 0) or bitcast thereof
  V = V->stripPointerCasts();
  if (auto *GV = dyn_cast<GlobalVariable>(V)) {
    if (!GV->isConstant() || !GV->hasInitializer()) return false;
    if (auto *CDA = dyn_cast<ConstantDataArray>(GV->getInitializer())) {
      if (CDA->isString()) { out = CDA->getAsString().str();
        while (!out.empty() && out.back() == '\0') out.pop_back();
        return true; }
    }
    if (isa<ConstantAggregateZero>(GV->getInitializer())) { out = ""; return true; }
  }
  return false;
}

static void emitOperand(Ctx &C, json::OStream &J, const Value *V) {
  J.array([&] {
    if (auto *CI = dyn_cast<ConstantInt>(V)) {
      J.value("c");
      if (CI->getBitWidth() <= 64) J.value((int64_t)CI->getSExtValue());
      else J.value(0);
      J.value((int64_t)CI->getBitWidth());
    } else if (auto *CF = dyn_cast<ConstantFP>(V)) {
      J.value("f");
      const APFloat &A = CF->getValueAPF();
      double d;
      if (&A.getSemantics() == &APFloat::IEEEdouble()) d = A.convertToDouble();
      else if (&A.getSemantics() == &APFloat::IEEEsingle()) d = A.convertToFloat();
      else { bool l; APFloat B = A; B.convert(APFloat::IEEEdouble(), APFloat::rmNearestTiesToEven, &l); d = B.convertToDouble(); }
      if (d != d || d > 1e308 || d < -1e308) J.value("nan-or-inf"); else J.value(d);
    } else if (isa<ConstantPointerNull>(V)) {
      J.value("null");
    } else if (isa<UndefValue>(V)) {
      J.value("undef");
    } else if (auto *F = dyn_cast<Function>(V)) {
      J.value("fn"); J.value(F->getName());
    } else if (auto *GV = dyn_cast<GlobalVariable>(V)) {
      std::string s;
      if (constString(GV, s)) { J.value("s"); J.value(s); J.value(GV->getName()); }
      else { J.value("g"); J.value(GV->getName()); }
    } else if (auto *CE = dyn_cast<ConstantExpr>(V)) {
      std::string s;
      if (constString(CE, s)) { J.value("s"); J.value(s); }
      else {
        J.value("ce"); J.value(CE->getOpcodeName());
        J.object([&] {
          if (auto *G = dyn_cast<GEPOperator>(CE)) {
            J.attributeBegin("base"); emitOperand(C, J, G->getPointerOperand()); J.attributeEnd();
            emitGepPath(C, J, G);
          } else {
            J.attributeArray("ops", [&] { for (const Use &U : CE->operands()) emitOperand(C, J, U.get()); });
          }
        });
      }
    } else if (isa<Argument>(V)) {
      J.value("a"); J.value((int64_t)cast<Argument>(V)->getArgNo());
    } else if (isa<Instruction>(V)) {
      J.value("v"); J.value((int64_t)C.vid[V]);
    } else if (isa<BasicBlock>(V)) {
      J.value("b"); J.value((int64_t)C.bid[cast<BasicBlock>(V)]);
    } else if (isa<MetadataAsValue>(V)) {
      J.value("md");
    } else if (isa<InlineAsm>(V)) {
      J.value("asm");
    } else if (isa<ConstantAggregateZero>(V)) {
      J.value("zero");
    } else {
      J.value("other"); J.value(typeStr(V->getType()));
    }
  });
}

static void emitFunction(Ctx &C, json::OStream &J, Function &F) {
  C.vid.clear(); C.bid.clear(); C.dbgName.clear();
  unsigned n = 0, b = 0;
  for (BasicBlock &BB : F) {
    C.bid[&BB] = b++;
    for (Instruction &I : BB) C.vid[&I] = n++;
  }
  // dbg.value / dbg.declare names
  for (Instruction &I : instructions(F)) {
    if (auto *DV = dyn_cast<DbgVariableIntrinsic>(&I)) {
      Value *V = DV->getVariableLocationOp(0);
      if (V && DV->getVariable()) {
        if (!C.dbgName.count(V)) C.dbgName[V] = DV->getVariable()->getName().str();
      }
    }
  }
  J.object([&] {
    J.attribute("name", F.getName());
    J.attribute("internal", F.hasLocalLinkage());
    J.attribute("ret", typeStr(F.getReturnType()));
    J.attribute("vararg", F.isVarArg());
    if (DISubprogram *SP = F.getSubprogram()) {
      J.attribute("file", SP->getFilename());
      J.attribute("line", (int64_t)SP->getLine());
    }
    J.attributeArray("params", [&] {
      for (Argument &A : F.args()) {
        J.object([&] {
          std::string nm = A.getName().str();
          auto it = C.dbgName.find(&A);
          if (nm.empty() && it != C.dbgName.end()) nm = it->second;
          J.attribute("name", nm);
          J.attribute("ty", typeStr(A.getType()));
        });
      }
    });
    J.attributeArray("blocks", [&] {
      for (BasicBlock &BB : F) {
        J.object([&] {
          J.attribute("id", (int64_t)C.bid[&BB]);
          J.attributeArray("succ", [&] {
            for (BasicBlock *S : successors(&BB)) J.value((int64_t)C.bid[S]);
          });
          J.attributeArray("insts", [&] {
            for (Instruction &I : BB) {
              if (isa<DbgInfoIntrinsic>(&I)) continue;
              J.object([&] {
                J.attribute("i", (int64_t)C.vid[&I]);
                J.attribute("op", I.getOpcodeName());
                J.attribute("ty", typeStr(I.getType()));
                if (const DebugLoc &DLc = I.getDebugLoc()) {
                  J.attribute("ln", (int64_t)DLc.getLine());
                  if (auto *Sc = dyn_cast_or_null<DIScope>(DLc.getScope())) {
                    StringRef fn = Sc->getFilename();
                    if (DISubprogram *SP = F.getSubprogram())
                      if (fn != SP->getFilename()) J.attribute("fl", fn);
                  }
                }
                auto dn = C.dbgName.find(&I);
                if (dn != C.dbgName.end()) J.attribute("dn", dn->second);
                if (auto *LI = dyn_cast<LoadInst>(&I)) { if (LI->isVolatile()) J.attribute("vol", true); }
                if (auto *SI = dyn_cast<StoreInst>(&I)) { if (SI->isVolatile()) J.attribute("vol", true); }
                if (auto *CI = dyn_cast<CmpInst>(&I)) J.attribute("pred", CmpInst::getPredicateName(CI->getPredicate()));
                if (auto *AI = dyn_cast<AllocaInst>(&I)) J.attribute("aty", typeStr(AI->getAllocatedType()));
                if (auto *G = dyn_cast<GetElementPtrInst>(&I)) emitGepPath(C, J, cast<GEPOperator>(G));
                if (auto *CB = dyn_cast<CallBase>(&I)) {
                  const Value *Callee = CB->getCalledOperand()->stripPointerCasts();
                  if (auto *CF = dyn_cast<Function>(Callee)) J.attribute("callee", CF->getName());
                  else J.attribute("callee", "");
                  J.attributeArray("ops", [&] { for (const Use &U : CB->args()) emitOperand(C, J, U.get()); });
                  if (!isa<Function>(Callee)) { J.attributeBegin("fp"); emitOperand(C, J, CB->getCalledOperand()); J.attributeEnd(); }
                } else if (auto *PN = dyn_cast<PHINode>(&I)) {
                  J.attributeArray("ops", [&] { for (unsigned k = 0; k < PN->getNumIncomingValues(); ++k) emitOperand(C, J, PN->getIncomingValue(k)); });
                  J.attributeArray("inb", [&] { for (unsigned k = 0; k < PN->getNumIncomingValues(); ++k) J.value((int64_t)C.bid[PN->getIncomingBlock(k)]); });
                } else if (auto *SW = dyn_cast<SwitchInst>(&I)) {
                  J.attributeArray("ops", [&] { emitOperand(C, J, SW->getCondition()); });
                  J.attribute("default", (int64_t)C.bid[SW->getDefaultDest()]);
                  J.attributeArray("cases", [&] {
                    for (auto &Cs : SW->cases()) J.array([&] { J.value((int64_t)Cs.getCaseValue()->getSExtValue()); J.value((int64_t)C.bid[Cs.getCaseSuccessor()]); });
                  });
                } else if (auto *BR = dyn_cast<BranchInst>(&I)) {
                  J.attributeArray("ops", [&] { if (BR->isConditional()) emitOperand(C, J, BR->getCondition()); });
                  J.attributeArray("tgt", [&] { for (unsigned k = 0; k < BR->getNumSuccessors(); ++k) J.value((int64_t)C.bid[BR->getSuccessor(k)]); });
                } else {
                  J.attributeArray("ops", [&] { for (const Use &U : I.operands()) emitOperand(C, J, U.get()); });
                }
              });
            }
          });
        });
      }
    });
  });
}

int main(int argc, char **argv) {
  if (argc < 3) { errs() << "usage: irdump module.bc out.json\n"; return 2; }
  LLVMContext Cx;
  SMDiagnostic Err;
  std::unique_ptr<Module> M = parseIRFile(argv[1], Err, Cx);
  if (!M) { Err.print("irdump", errs()); return 2; }
  Ctx C;
  C.M = M.get();
  C.DL = &M->getDataLayout();
  collectDI(C);
  std::error_code EC;
  raw_fd_ostream OS(argv[2], EC);
  if (EC) { errs() << EC.message() << "\n"; return 2; }
  json::OStream J(OS);
  J.object([&] {
    // enumerators
    J.attributeObject("enums", [&] {
      DebugInfoFinder F;
      F.processModule(*M);
      std::set<std::string> seen;
      for (DIType *T : F.types()) {
        auto *CT = dyn_cast<DICompositeType>(T);
        if (!CT || CT->getTag() != dwarf::DW_TAG_enumeration_type) continue;
        for (DINode *E : CT->getElements())
          if (auto *En = dyn_cast<DIEnumerator>(E)) {
            std::string nm = En->getName().str();
            if (seen.insert(nm).second) J.attribute(nm, (int64_t)En->getValue().getSExtValue());
          }
      }
    });
    J.attributeArray("enumtypes", [&] {
      DebugInfoFinder F;
      F.processModule(*M);
      std::set<std::string> seen;
      for (DIType *T : F.types()) {
        auto *D = dyn_cast<DIDerivedType>(T);
        if (!D || D->getTag() != dwarf::DW_TAG_typedef) continue;
        auto *CT = dyn_cast_or_null<DICompositeType>(stripTypedefs(D));
        if (!CT || CT->getTag() != dwarf::DW_TAG_enumeration_type) continue;
        if (!seen.insert(D->getName().str()).second) continue;
        J.object([&] {
          J.attribute("name", D->getName());
          J.attributeArray("members", [&] {
            for (DINode *E : CT->getElements())
              if (auto *En = dyn_cast<DIEnumerator>(E))
                J.array([&] { J.value(En->getName()); J.value((int64_t)En->getValue().getSExtValue()); });
          });
        });
      }
    });
    J.attributeArray("globals", [&] {
      for (GlobalVariable &G : M->globals()) {
        J.object([&] {
          J.attribute("name", G.getName());
          J.attribute("ty", typeStr(G.getValueType()));
          J.attribute("const", G.isConstant());
          J.attribute("internal", G.hasLocalLinkage());
          J.attribute("decl", G.isDeclaration());
          if (G.hasInitializer()) {
            Constant *I = G.getInitializer();
            J.attribute("zeroinit", I->isZeroValue());
            if (auto *CI = dyn_cast<ConstantInt>(I)) J.attribute("init", (int64_t)CI->getSExtValue());
          }
          SmallVector<DIGlobalVariableExpression *, 1> GVs;
          G.getDebugInfo(GVs);
          for (auto *GVE : GVs) {
            DIGlobalVariable *DG = GVE->getVariable();
            J.attribute("src", DG->getName());
            J.attribute("file", DG->getFilename());
            J.attribute("line", (int64_t)DG->getLine());
            if (auto *SP = dyn_cast_or_null<DISubprogram>(DG->getScope()))
              J.attribute("scope_fn", SP->getName());
            else if (auto *LB = dyn_cast_or_null<DILexicalBlockBase>(DG->getScope()))
              J.attribute("scope_fn", LB->getSubprogram() ? LB->getSubprogram()->getName() : StringRef(""));
            break;
          }
          if (auto *ST = dyn_cast<StructType>(G.getValueType())) {
            const auto &fn = fieldsOf(C, ST);
            J.attributeArray("fields", [&] { for (auto &s : fn) J.value(s); });
          }
        });
      }
    });
    J.attributeArray("decls", [&] {
      for (Function &F : *M) if (F.isDeclaration()) J.value(F.getName());
    });
    J.attributeArray("functions", [&] {
      for (Function &F : *M) {
        if (F.isDeclaration()) continue;
        emitFunction(C, J, F);
      }
    });
    J.attributeObject("structs", [&] {
      for (auto &kv : C.fieldNames) {
        StructType *ST = kv.first;
        if (!ST->hasName()) continue;
        J.attributeArray(ST->getName(), [&] { for (auto &s : kv.second) J.value(s); });
      }
    });
  });
  OS << "\n";
  return 0;
}
