/* positive example for the zero-instance rule MEM-BYTES: one good and one bad memset over an int array */
#include <string.h>
void membytes_good(int *a, int n) { memset(a, 0, n * sizeof(int)); }
void membytes_bad(int *a, int n) { memset(a, 0, n); }
void membytes_good_d(double *a, int n) { memcpy(a, a + n, (n + 1) * sizeof(double)); }
