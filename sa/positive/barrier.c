/* positive example for the zero-instance rule BARRIER-ALL: a worker that can return before arriving at the barrier (bad) and one that cannot (good) */
#include <pthread.h>
static pthread_barrier_t bar;
extern int setup(void *);
void *barrier_bad(void *arg) { if (setup(arg)) return 0; pthread_barrier_wait(&bar); return arg; }
void *barrier_good(void *arg) { int failed = setup(arg); pthread_barrier_wait(&bar); if (failed) return 0; return arg; }
