/* positive example for UNION-ROLE: one function per pattern, one clean function */
struct S { int start; union { int thickness; int parent; } shared1; union { int score; int order; } shared2; };
void bad_p1(struct S *Col, int c, int s) { Col[s].shared1.thickness = 1; Col[c].shared1.parent = s; Col[s].shared1.thickness += Col[c].shared1.thickness; }
void bad_p2(struct S *Col, int c, int n, int score) { if (score == 0) { Col[c].shared2.order = --n; } Col[c].shared2.score = score; }
void good(struct S *Col, int c, int n, int score) { int t = Col[c].shared1.thickness; Col[c].shared1.parent = n; if (score == 0) Col[c].shared2.order = --n; else Col[c].shared2.score = score + t; }
