#!/opt/veriftools/pyvenv/bin/python
import json, jsonschema, glob, sys
jsonschema.validate(json.load(open('/verif/MANIFEST.json')), json.load(open('/root/.vp/MANIFEST.schema.json')))
n=0
for p in glob.glob('/verif/evidence/*.json'):
    jsonschema.validate(json.load(open(p)), json.load(open('/root/.vp/EVIDENCE.schema.json'))); n+=1
print('manifest ok; %d evidence files ok' % n)
