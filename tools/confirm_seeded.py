#!/usr/bin/env python3
"""tools/confirm_seeded.py <ID> <variant> [--src /tmp/mut/<ID>/_out/<variant>]

Confirm one seeded change produced by a sub-agent in a scratch worktree of /repo (current HEAD):
  1. the patch applies, 2. the library builds, 3. the 48 baseline tests pass,
  4. the demonstration FAILS with the change, 5. and PASSES without it.
On success the change is stored as /verif/seeded/<ID>-<variant>/ (patch.diff, demo files, README.md, meta.json).
The worktree and its build output are removed afterwards."""
import json, os, shutil, subprocess, sys, tempfile, time

pid, var = sys.argv[1], sys.argv[2]
src = "/tmp/mut/%s/_out/%s" % (pid, var)
if "--src" in sys.argv:
    src = sys.argv[sys.argv.index("--src") + 1]
name = "%s-%s" % (pid, var)
dest = "/verif/seeded/%s" % name
wt = tempfile.mkdtemp(prefix="slumt-seed-%s-" % name)
os.rmdir(wt)
log = []


def run(cmd, cwd=None, timeout=1800):
    t = time.time()
    try:
        r = subprocess.run(cmd, shell=True, cwd=cwd, capture_output=True, text=True, timeout=timeout)
        rc = r.returncode
        out = r.stdout[-3000:] + r.stderr[-2000:]
    except subprocess.TimeoutExpired:
        rc, out = 124, "TIMEOUT"
    log.append({"cmd": cmd, "rc": rc, "secs": round(time.time() - t, 1), "tail": out[-600:]})
    return rc, out


res = {"id": name, "property": pid}
try:
    rc, _ = run("git -C /repo worktree add -f --detach %s HEAD" % wt)
    if rc:
        raise SystemExit("worktree failed")
    rc, out = run("git apply --check %s/patch.diff" % src, cwd=wt)
    applied_with = "git apply"
    if rc:
        rc, out = run("patch -p1 --dry-run -F3 < %s/patch.diff" % src, cwd=wt)
        applied_with = "patch -p1 -F3"
        if rc:
            res["status"] = "patch does not apply to the current /repo HEAD"
            raise SystemExit(res["status"])
    build = "cmake -G Ninja -S . -B _build -DCMAKE_BUILD_TYPE=RelWithDebInfo -DCMAKE_C_FLAGS=-Wno-error >/dev/null && cmake --build _build 2>&1 | tail -2"
    # pristine build + demo must pass
    rc, out = run(build, cwd=wt)
    if rc:
        raise SystemExit("pristine build failed")
    demo = "bash %s/run_demo.sh %s" % (src, wt)
    if not os.path.exists("%s/run_demo.sh" % src):
        raise SystemExit("no run_demo.sh")
    rc_clean, out = run(demo, cwd=src, timeout=1500)
    res["demo_without_change_rc"] = rc_clean
    # apply
    if applied_with == "git apply":
        run("git apply %s/patch.diff" % src, cwd=wt)
    else:
        run("patch -p1 -F3 < %s/patch.diff" % src, cwd=wt)
    rc, out = run("cmake --build _build 2>&1 | tail -2", cwd=wt)
    res["builds_with_change"] = (rc == 0)
    rc, out = run("ctest --test-dir _build -j8 --timeout 900 2>&1 | grep -E 'tests passed|tests failed'", cwd=wt)
    res["ctest_with_change"] = out.strip().splitlines()[-1] if out.strip() else "?"
    if "100% tests passed" not in out:
        rc, out2 = run("ctest --test-dir _build -j4 --timeout 900 2>&1 | grep -E 'tests passed|tests failed'", cwd=wt)
        res["ctest_with_change_retry"] = out2.strip().splitlines()[-1] if out2.strip() else "?"
        out = out2
    res["tests_pass"] = "100% tests passed" in out
    rc_mut, out = run(demo, cwd=src, timeout=1500)
    res["demo_with_change_rc"] = rc_mut
    ok = res["builds_with_change"] and res["tests_pass"] and rc_clean == 0 and rc_mut != 0
    res["confirmed"] = bool(ok)
    res["status"] = "confirmed" if ok else "NOT confirmed"
    if ok:
        os.makedirs(dest, exist_ok=True)
        for fn in os.listdir(src):
            p = os.path.join(src, fn)
            if os.path.isfile(p) and os.path.getsize(p) < 2_000_000:
                shutil.copy(p, os.path.join(dest, fn))
        run("git diff > %s/patch.diff" % dest, cwd=wt)   # re-based on the current HEAD
        readme = open(os.path.join(src, "README.md")).read() if os.path.exists(os.path.join(src, "README.md")) else ""
        meta = {"id": name, "breaks_property": pid, "needs_to_manifest": "see README.md (sub-agent's description)",
                "what_was_run": [l["cmd"] for l in log], "results": res,
                "base_commit": subprocess.run("git -C /repo rev-parse --short HEAD", shell=True, capture_output=True, text=True).stdout.strip(),
                "files_changed": subprocess.run("git diff --stat | cat", shell=True, cwd=wt, capture_output=True, text=True).stdout.strip().splitlines()}
        json.dump(meta, open(os.path.join(dest, "meta.json"), "w"), indent=1)
finally:
    subprocess.run("git -C /repo worktree remove --force %s" % wt, shell=True, capture_output=True)
    shutil.rmtree(wt, ignore_errors=True)
    os.makedirs("/verif/seeded", exist_ok=True)
    json.dump({"result": res, "log": log}, open("/tmp/mut/confirm-%s.json" % name, "w"), indent=1)
    print(name, res.get("status"), {k: v for k, v in res.items() if k not in ("id", "property", "status")})
