#!/usr/bin/env python3
"""tools/runrule.py <module.rule_fn> [config]  - run one rule on /repo (or SLU_REPO) and print its observations (development aid)."""
import sys, os, importlib
HERE = os.path.dirname(os.path.dirname(os.path.abspath(__file__)))
sys.path.insert(0, HERE)
from slu import build, ir, framework
modn, fn = sys.argv[1].rsplit(".", 1)
cfg = ([a for a in sys.argv[2:] if not a.startswith("-")] or ["pthread"])[0]
path, info = build.build(cfg, use_cache=True)
mod = ir.Module(path)
rep = framework.Report("DEV", "quick", cfg)
getattr(importlib.import_module("slu.rules." + modn), fn)(mod, rep)
nok = 0
for o in rep.obs:
    if o.ok:
        nok += 1
        if "-v" in sys.argv:
            print("ok  ", o.rule, o.key, o.detail)
    else:
        print("FAIL", o.rule, o.key, o.site, o.detail)
for n in rep.notes:
    print("note", n)
for b in rep.broken:
    print("BROKEN", b)
print("ok=%d fail=%d" % (nok, len([o for o in rep.obs if not o.ok])))
