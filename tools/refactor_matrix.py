#!/usr/bin/env python3
"""tools/refactor_matrix.py [ids...]
Behaviour-preserving refactorings (refactor/<id>/patch.diff) vs every implemented check: each check has to stay silent
(exit 0).  Scratch copy of /repo/SRC + patch per refactoring; /repo itself is not touched.  Writes refactor/MATRIX.json/.md."""
import json, os, shutil, subprocess, sys, tempfile
from concurrent.futures import ThreadPoolExecutor

HERE = os.path.dirname(os.path.dirname(os.path.abspath(__file__)))
impl = [l.strip() for l in open(os.path.join(HERE, "tools", "implemented.txt")) if l.strip() and not l.startswith("#")]
ids = [a for a in sys.argv[1:] if not a.startswith("-")]
tier = "thorough" if "--thorough" in sys.argv else "quick"
root = os.path.join(HERE, "refactor")
items = sorted(d for d in os.listdir(root) if os.path.isdir(os.path.join(root, d)))
if ids:
    items = [s for s in items if s in ids or s.split("-")[0] in ids]


def one(item):
    tmp = tempfile.mkdtemp(prefix="slumt-rf-%s-" % item)
    out = {}
    try:
        shutil.copytree("/repo/SRC", os.path.join(tmp, "SRC"))
        r = subprocess.run(["patch", "-p1", "-d", tmp, "-i", os.path.join(root, item, "patch.diff")], capture_output=True, text=True)
        if r.returncode != 0:
            return item, {"_patch": "FAILED: " + r.stdout[-200:]}
        env = dict(os.environ, SLU_REPO=tmp, SLU_OUT=tmp)
        for c in impl:
            r = subprocess.run([os.path.join(HERE, "check"), c, "--tier", tier], capture_output=True, text=True, env=env, cwd=HERE)
            lines = [l.strip() for l in r.stdout.splitlines() if (l.startswith("  ") and "rule " not in l[:8] and not l.strip().startswith("note:")) or l.startswith("ANALYSIS-BROKEN")]
            out[c] = {"exit": r.returncode, "reports": [l[:400] for l in lines[:6]]}
    finally:
        shutil.rmtree(tmp, ignore_errors=True)
    return item, out


with ThreadPoolExecutor(max_workers=6) as ex:
    res = dict(ex.map(one, items))
path = os.path.join(root, "MATRIX.json")
old = json.load(open(path)) if os.path.exists(path) and ids else {}
old.update(res)
json.dump(old, open(path, "w"), indent=1, sort_keys=True)
with open(os.path.join(root, "MATRIX.md"), "w") as f:
    f.write("# Behaviour-preserving refactorings vs checks (every check has to exit 0)\n\n| refactoring | result | alarms |\n|---|---|---|\n")
    for s in sorted(old):
        o = old[s]
        if "_patch" in o:
            f.write("| %s | patch does not apply | %s |\n" % (s, o["_patch"][:80])); continue
        al = ["%s(exit %d): %s" % (c, v["exit"], (v["reports"][0] if v["reports"] else "").replace("|", "/")[:160]) for c, v in sorted(o.items()) if v["exit"] != 0]
        f.write("| %s | %s | %s |\n" % (s, "silent" if not al else "ALARM", "<br>".join(al)))
for s in sorted(res):
    o = res[s]
    al = {c: v for c, v in o.items() if isinstance(v, dict) and v.get("exit") != 0}
    print(s, "silent" if not al and "_patch" not in o else ("PATCH" if "_patch" in o else "ALARM " + " ".join("%s=%d" % (c, v["exit"]) for c, v in sorted(al.items()))))
