#!/usr/bin/env python3
"""tools/refactor_newrules.py [ids...]
Run only the rules added in round 6 against every behaviour-preserving refactoring of refactor/ (scratch copy of /repo/SRC + patch): every rule has to stay
silent (no FAIL, no ANALYSIS-BROKEN).  Much cheaper than the full matrix (one build per patch instead of one per patch and check).
Writes refactor/NEWRULES-r6.json."""
import os, sys, shutil, subprocess, tempfile, json
from concurrent.futures import ThreadPoolExecutor
HERE = os.path.dirname(os.path.dirname(os.path.abspath(__file__)))
root = os.path.join(HERE, "refactor")
ids = [a for a in sys.argv[1:] if not a.startswith("-")]
items = sorted(d for d in os.listdir(root) if os.path.isdir(os.path.join(root, d)))
if ids:
    items = [s for s in items if s in ids or s.split("-")[0] in ids]

WORKER = r'''
import sys, re
sys.path.insert(0, %r)
from slu import build, ir, framework
from slu.rules import more6, driver, more4, more3, more5
path, info = build.build("pthread", use_cache=True)
mod = ir.Module(path)
rep = framework.Report("DEV", "quick", "pthread")
for fn in (more6.rule_alloc_range, more6.rule_precision_family, more6.rule_equed_last, more6.rule_free_mode, more6.rule_stale, more6.rule_pivot_growth_column,
           more6.rule_quick_return, more6.rule_pivot_column, more6.rule_snode_ld, more6.rule_lusup_static, more6.rule_options_init, more6.rule_snode_boundary,
           more6.rule_fb_fresh, more6.rule_arg_ld, more6.rule_etree_scan, more6.rule_order_step, more6.rule_prune_split, more6.rule_dfs_busy, more6.rule_barrier_all,
           driver.rule_expert_illegal, more4.rule_complex_nonzero, more4.rule_workfreeall_order, more3.rule_prune_guard, more5.rule_inverse_fill, driver.rule_expert_order_cond):
    try:
        fn(mod, rep)
    except Exception as e:
        import traceback
        print("EXC", fn.__name__, repr(e), traceback.format_exc()[-300:].replace("\n", " | "))
for o in rep.obs:
    if not o.ok:
        print("FAIL", o.rule, o.key, (o.detail or "")[:200])
for b in rep.broken:
    print("BROKEN", b[:200])
''' % HERE


def one(item):
    tmp = tempfile.mkdtemp(prefix="slumt-rn-%s-" % item)
    try:
        shutil.copytree("/repo/SRC", os.path.join(tmp, "SRC"))
        r = subprocess.run(["patch", "-p1", "-d", tmp, "-i", os.path.join(root, item, "patch.diff")], capture_output=True, text=True)
        if r.returncode != 0:
            return item, ["PATCH FAILED"]
        env = dict(os.environ, SLU_REPO=tmp, SLU_OUT=tmp)
        r = subprocess.run([sys.executable, "-c", WORKER], capture_output=True, text=True, env=env, cwd=HERE)
        lines = [l.replace(tmp, "") for l in r.stdout.splitlines() if l.startswith(("FAIL", "BROKEN", "EXC"))]
        if r.returncode != 0:
            lines.append("WORKER rc=%d %s" % (r.returncode, r.stderr[-300:]))
        return item, lines
    finally:
        shutil.rmtree(tmp, ignore_errors=True)


with ThreadPoolExecutor(max_workers=12) as ex:
    res = dict(ex.map(one, items))
bad = {k: v for k, v in res.items() if v}
for k in sorted(bad):
    for l in bad[k]:
        print(k, l)
print("%d refactorings, %d silent, %d with reports" % (len(res), len(res) - len(bad), len(bad)))
path = os.path.join(root, "NEWRULES-r6.json")
old = json.load(open(path)) if (ids and os.path.exists(path)) else {}
old.update(res)
json.dump(old, open(path, "w"), indent=1, sort_keys=True)
