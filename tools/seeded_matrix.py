#!/usr/bin/env python3
"""tools/seeded_matrix.py [--all] [ids...]
Run the implemented checks against every confirmed seeded change (scratch copy of /repo/SRC + patch;
/repo itself is not touched) and write seeded/MATRIX.json + seeded/MATRIX.md.
Default: each change is checked with the check of the property it breaks plus all other implemented
checks when --all is given."""
import json, os, shutil, subprocess, sys, tempfile, glob
from concurrent.futures import ThreadPoolExecutor

HERE = os.path.dirname(os.path.dirname(os.path.abspath(__file__)))
impl = [l.strip() for l in open(os.path.join(HERE, "tools", "implemented.txt")) if l.strip() and not l.startswith("#")]
extra = [a for a in sys.argv[1:] if a.startswith("+")]
impl += [a[1:] for a in extra]
allc = "--all" in sys.argv
ids = [a for a in sys.argv[1:] if not a.startswith("-") and not a.startswith("+")]
seeds = sorted(d for d in os.listdir(os.path.join(HERE, "seeded")) if os.path.isdir(os.path.join(HERE, "seeded", d)))
if ids:
    seeds = [s for s in seeds if s in ids or s.split("-")[0] in ids]


def one(seed):
    tmp = tempfile.mkdtemp(prefix="slumt-mx-%s-" % seed)
    out = {}
    try:
        shutil.copytree("/repo/SRC", os.path.join(tmp, "SRC"))
        r = subprocess.run(["patch", "-p1", "-d", tmp, "-i", os.path.join(HERE, "seeded", seed, "patch.diff")], capture_output=True, text=True)
        if r.returncode != 0:
            return seed, {"_patch": "FAILED: " + r.stdout[-200:]}
        prop = seed.split("-")[0]
        checks = impl if allc else ([prop] if prop in impl else [])
        env = dict(os.environ, SLU_REPO=tmp, SLU_OUT=tmp)
        for c in checks:
            r = subprocess.run([os.path.join(HERE, "check"), c], capture_output=True, text=True, env=env, cwd=HERE)
            lines = [l.strip() for l in r.stdout.splitlines() if l.startswith("  ") and "rule " not in l[:8] and not l.strip().startswith("note:")]
            brk = [l for l in r.stdout.splitlines() if l.startswith("ANALYSIS-BROKEN")]
            out[c] = {"exit": r.returncode, "first": (lines[0][:300] if lines else (brk[0][:300] if brk else "")), "n": sum(1 for l in r.stdout.splitlines() if l.startswith("VIOLATION"))}
    finally:
        shutil.rmtree(tmp, ignore_errors=True)
    return seed, out


with ThreadPoolExecutor(max_workers=8) as ex:
    res = dict(ex.map(one, seeds))
path = os.path.join(HERE, "seeded", "MATRIX.json")
old = json.load(open(path)) if os.path.exists(path) and ids else {}
old.update(res)
json.dump(old, open(path, "w"), indent=1, sort_keys=True)
with open(os.path.join(HERE, "seeded", "MATRIX.md"), "w") as f:
    f.write("# Seeded changes vs checks (exit 1 = VIOLATION reported, 0 = silent, 2 = analysis broken)\n\n")
    f.write("| change | own check | caught by | first report |\n|---|---|---|---|\n")
    for s in sorted(old):
        o = old[s]
        prop = s.split("-")[0]
        own = o.get(prop, {}).get("exit", "n/a")
        caught = [c for c, v in o.items() if isinstance(v, dict) and v.get("exit") == 1]
        first = ""
        for c in ([prop] + caught):
            if c in o and isinstance(o[c], dict) and o[c].get("exit") in (1, 2) and o[c].get("first"):
                first = o[c]["first"].replace("|", "/")[:220]
                break
        f.write("| %s | %s | %s | %s |\n" % (s, own, ",".join(caught) or "-", first))
for s in sorted(res):
    o = res[s]
    print(s, {c: v.get("exit") if isinstance(v, dict) else v for c, v in o.items()})
