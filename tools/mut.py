#!/usr/bin/env python3
"""tools/mut.py <ID[,ID..]> <file-in-SRC> <old> <new> [--all]   (or: <ID> --patch file.diff)
Scratch-copy mutation test: copy /repo/SRC to a temp dir, apply one textual edit
(or a patch), run ./check there (SLU_REPO), print the verdict lines, remove the copy."""
import sys, os, shutil, subprocess, tempfile
ids = sys.argv[1].split(",")
tmp = tempfile.mkdtemp(prefix="slumt-mut-")
try:
    shutil.copytree("/repo/SRC", os.path.join(tmp, "SRC"))
    if sys.argv[2] == "--patch":
        r = subprocess.run(["patch", "-p1", "-d", tmp, "-i", os.path.abspath(sys.argv[3])], capture_output=True, text=True)
        if r.returncode != 0:
            print("PATCH FAILED", r.stdout, r.stderr); sys.exit(3)
    else:
        fn, old, new = sys.argv[2], sys.argv[3], sys.argv[4]
        files = [fn]
        if "?" in fn:
            files = [fn.replace("?", p) for p in "sdcz"]
        for f in files:
            p = os.path.join(tmp, "SRC", f)
            s = open(p).read()
            o = old; n = new
            if "?" in fn:
                pc = f[fn.index("?")]
                o = old.replace("@", pc); n = new.replace("@", pc)
            if o not in s:
                print("PATTERN NOT FOUND in", f); sys.exit(3)
            s = s.replace(o, n) if "--all" in sys.argv else s.replace(o, n, 1)
            open(p, "w").write(s)
    env = dict(os.environ, SLU_REPO=tmp, SLU_OUT=tmp)
    here = os.path.dirname(os.path.dirname(os.path.abspath(__file__)))
    for i in ids:
        r = subprocess.run([os.path.join(here, "check"), i, "--no-cache"], capture_output=True, text=True, env=env, cwd=here)
        lines = [l for l in r.stdout.splitlines() if l.startswith("VIOLATION") or l.startswith("  ") and "rule " not in l and "note:" not in l or l.startswith("ANALYSIS") or l.startswith("KNOWN")]
        print("== %s exit=%d" % (i, r.returncode))
        for l in lines[:12]:
            print(l[:300])
        if r.returncode not in (0, 1):
            print(r.stdout[-800:], r.stderr[-1500:])
finally:
    shutil.rmtree(tmp, ignore_errors=True)
