#!/usr/bin/env python3
"""Regenerate /verif/MANIFEST.json from the table below (kept in one place so the
claimed clause, the 'not decided' note and the technique stay in sync with DESIGN.md)."""
import json, os, sys

HERE = os.path.dirname(os.path.dirname(os.path.abspath(__file__)))

# id: (claimed clause, not decided / trusted base, technique, design ref)
P = {
 "C01": ("Necessary structural conditions of the simple driver: nothing in p?gssv's call tree stores through A's value/index/pointer arrays or views of them; Stype->transpose dispatch (NC: NOTRANS, NR: TRANS) and fixed options; the solve is reached iff the factor outcome is 0; ?gstrs applies perm_r/L/U/perm_c in the order each transpose branch requires.",
         "NOT decided: the residual bound and anything about the values of X (numerical); schedule independence of values. Trusted: clang-14/LLVM-14, irdump, rule tables, abort idiom.",
         "effect (may-write) summaries over the call graph + partitioned constant propagation of the driver + must-pass-through ordering on the CFG (LLVM IR)", "§4 C01"),
 "C02": ("Pivot policy table of p?gstrf_pivotL decided over all partitions of (usepr, pivmax==0, user-pivot passes, diagonal present, diagonal passes): singular => jcol+1; user pivot only under usepr and |cand|!=0 && >= u*pivmax; else diagonal (looked up through inv_perm_c) under the same two tests; else max; perm_r/inv_perm_r recorded on every non-error path.",
         "NOT decided: the reconstruction bound Pr*A*Pc=LU and that numerical updates are right. Trusted as C01.",
         "guard/dominance analysis of the pivot selection CFG with semantic candidate identification (LLVM IR)", "§4 C02"),
 "C03": ("Pipeline synchronisation shape on every path: release-after-pivot, DONE-after-release, busy-skip guard in the panel DFS, spin check before every read of a busy supernode, volatile spin accesses, pessimistic supernode extension, scheduler lock pairing and the guarded-by table, prune/DFS extent agreement, scheduler decision table, state-enum order.",
         "NOT decided: that the chain waited for equals the chain skipped, exactly-once application of updates, equivalence with sequential elimination, hardware memory ordering. Trusted as C01.",
         "must-pass-through/dominance rules on the instruction-level CFG, must-held lockset dataflow with a guarded-by table, canonical index-expression comparison (LLVM IR)", "§4 C03"),
 "C04": ("Thread create/join pairing with the same trip bound and handle array before finalize and return; tasks_remain written only by init/enqueue/scheduler and decremented exactly on the take path under SCHED_LOCK together with BUSY and the spin flags; no feasible worker exit while owning a panel; task-queue writers enumerated.",
         "NOT decided: deadlock freedom / lost wake-ups, exactly-once execution, queue <= n (need a model of the scheduler over etrees - a different technique family). Trusted as C01.",
         "resource pairing on the CFG, who-may-write call-graph rule, lockset dataflow, feasibility pruning by constant-return summaries (LLVM IR)", "§4 C04"),
 "C05": ("Every bump of nextu/nextl/nextlu is dominated by its overflow test whose failing edge reaches the abort before the store; only the allocators write those counters and limits; the work-array partition carved by SetIWork/SetRWork fits the sizes WorkInit allocates (symbolic polynomial comparison).",
         "NOT decided: that the Householder/QR bound dominates the actual L (a theorem about structures; the LUSUP slot check is #if 0'd), index ranges of numerical kernels. Trusted as C01.",
         "dominance + abort-reachability on the CFG, who-may-write rule, symbolic polynomial layout comparison, polynomial-inclusion bounds check of every locally allocated array incl. callee extent summaries (LLVM IR)", "§4 C05"),
 "C06": ("Zero-pivot path shape: row read guarded by a non-empty candidate list; pivotL returns column+1 exactly in the singular partition; per-thread/-supernode minimum reaches *info; both drivers reach no solve and store nothing into B/X when 0<info<=n.",
         "NOT decided: that the reported position equals the first structural rank deficiency; safety of all later reads of a rank-deficient supernode. Trusted as C01.",
         "guard/dominance analysis + partitioned constant propagation of the drivers (LLVM IR)", "§4 C06"),
 "C07": ("Complete dispatch table of p?gssvx over Stype x trans x fact x equed x outcomes compared with a reference model of the documented contract (transpose handed to solve/refine, which of R/C scales B and X, which phases run); forwarded trans values are accepted by every callee.",
         "NOT decided: accuracy of X; independence from schedule. Trusted as C01 plus the reference model in slu/models.py.",
         "trace-partitioned constant propagation (abstract interpretation over LLVM IR) against a reference model; argument-prologue acceptance sets", "§4 C07"),
 "C08": ("FACTORED path reaches no routine whose write summary touches A, L, U, perm_r, perm_c; refact=YES skips ordering/etree/count writes; the Glu<->L/U field binding used on re-entry is the inverse of the one used on export; usepr fallback rows of the pivot table.",
         "NOT decided: numerical correctness of any call in a history. Trusted as C01.",
         "effect summaries + partitioned constant propagation + field-binding agreement (LLVM IR)", "§4 C08"),
 "C09": ("Supernode number and subscript storage are issued atomically OR the fixupL post-pass has no read-after-write hazard; SCP/NCP extents are read as (beg[j], end[j]) pairs; constructors bind parameters to the matching fields; renumbering origin of L/U subscripts.",
         "NOT decided: bijection, partition, sortedness, duplicate-freeness, nnz equality (facts about values). Trusted as C01.",
         "lock-region analysis, load-after-store hazard analysis, extent-discipline and field-binding rules (LLVM IR)", "§4 C09"),
 "C10": ("Preprocessing shares and never writes A's arrays (AC binds nzval/rowind); perm_c, etree, counts written only when refact==NO; perm_c is only overwritten by post[perm_c[.]]; etree-kind <-> count-kind pairing (symmetric: at_plus_a/sp_symetree/cholnzcnt, else sp_coletree/qrnzcnt).",
         "NOT decided: bijection of any ordering; correctness of etree, postorder, counts. Trusted as C01.",
         "effect summaries, value-origin rule, partitioned constant propagation of sp_colorder (LLVM IR)", "§4 C10"),
 "C11": ("?laqgs: on each threshold outcome the factors multiplied into A are exactly those the stored flag names; ?gsequ positive info codes; driver multiplies B and X by exactly the factor (flag, effective transpose) requires; flag=none => no store to A or B.",
         "NOT decided: values of R, C, rowcnd, colcnd, amax; clipping. Trusted as C01.",
         "partitioned constant propagation with store atoms (roots multiplied in) against a reference model (LLVM IR)", "§4 C11"),
 "C12": ("Norm character is '1' iff the effective system is untransposed, same character to ?langs and ?gscon, AA is normed; ?gscon solve sequence per kase; info=n+1 is set only from rcond<eps, after solve+refine, with no early return.",
         "NOT decided: the two-sided bound on rcond; the value of the growth factor. Trusted as C01.",
         "partitioned constant propagation + ordering/guard rules (LLVM IR)", "§4 C12"),
 "C13": ("Refinement is called on the equilibrated AA, scaled B, with the same transpose as the solve, after the solve and before X is unscaled; inside ?gsrfs residual/solve/estimator transposes and R/C scalings agree with (trans, equed).",
         "NOT decided: that berr is the true backward error and that ferr dominates the error. Trusted as C01.",
         "partitioned constant propagation + ordering rules (LLVM IR)", "§4 C13"),
 "C14": ("lwork=-1 reaches no thread creation and no L/U allocation; every result of a non-aborting allocator is tested before first use; user-stack bumps are guarded by the matching StackFull test; L/U are read only on paths where a factorization produced them.",
         "NOT decided: behaviour for every failing request k beyond these clauses; equality of results between memory modes. Trusted as C01.",
         "check-before-use dataflow on allocator results, dominance of bump guards, partitioned constant propagation with typestate (LLVM IR)", "§4 C14"),
 "C15": ("For all argument-check prologues: no side effect before the checks end; -i is stored under a condition that depends on parameter i; codes ascend; on failure xerbla_ receives i and the routine returns immediately with no allocation in between.",
         "Approached only by sibling deviance: whether every documented precondition is tested. Trusted as C01.",
         "argument-prologue analysis: control dependence + data-dependence closure per error code; partitioned constant propagation over legal and illegal mode values (LLVM IR)", "§4 C15"),
 "C16": ("Diagonal-preference rows of the pivot table at any threshold including 0 (diagonal found through inv_perm_c, taken iff nonzero and >= u*pivmax); symmetric-mode etree/count pairing.",
         "NOT decided: correctness, and fill <= the Cholesky prediction. Trusted as C01.",
         "guard/dominance analysis of pivotL + partitioned constant propagation of sp_colorder (LLVM IR)", "§4 C16"),
 "C17": ("Every allocation made in an API-reachable function is freed, returned, or handed to a documented owner on every feasible path to every return; constructor/finaliser, create/join, fopen/fclose pairs are closed on every path.",
         "Modulo the stated ownership table and may-owned blind spot (conditionally allocated callee results). Trusted as C01.",
         "path-sensitive resource typestate over the CFG with feasibility pruning and ownership-transfer table (LLVM IR)", "§4 C17"),
 "C18": ("Inventory of every static-duration mutable object; each is invocation-local, an argument-independent write-once cache, re-initialised before any read in every first-time factorization, or a documented protocol continuation; anything else is a violation.",
         "Claim covers first-time calls, which is what C18 states; refact=YES carry-over is documented behaviour. Trusted as C01.",
         "static-duration inventory + must-write-before-read classification over the call graph (LLVM IR)", "§4 C18"),
 "C19": ("Only extent discipline of sp_?trsv/sp_?gemv/sp_?gemm operands and supernode-loop direction/coverage in the triangular solves.",
         "NOT decided (the property proper): agreement with dense definitions for all alpha/beta/strides, norms, conversions - numerical. Thin claim. Trusted as C01.",
         "extent-discipline and induction-variable direction rules (LLVM IR)", "§4 C19"),
}

NA = {
 "C20": "Equality between parsed arrays and the numbers printed in a file is a relation between runtime bytes and runtime output; no structural necessary condition that survives refactoring exists (the D->E rewrite and the -1 shift are replaceable idioms), so a static rule would be a false alarm in waiting.",
}

IMPLEMENTED = [l.strip() for l in open(os.path.join(HERE, "tools", "implemented.txt")) if l.strip() and not l.startswith("#")]

checks = []
na = []
for pid in sorted(P):
    if pid not in IMPLEMENTED:
        na.append({"property_id": pid, "reason": "check under construction in this framework (planned clause: %s); not claimed until its checker is committed" % P[pid][0][:160]})
        continue
    clause, note, tech, ref = P[pid]
    checks.append({
        "property_id": pid,
        "quick_cmd": "./check %s --tier quick" % pid,
        "thorough_cmd": "./check %s --tier thorough" % pid,
        "evidence_file": "evidence/%s.json" % pid,
        "replay_cmd_template": "./check %s --replay {path}" % pid,
        "engine": "slumt-sa",
        "level_claimed": {"category": "other", "text": "Static analysis decides, for every path of the current source, this structural clause (a necessary condition of the property, not the behaviour itself): " + clause, "design_ref": ref},
        "level_note": note,
        "technique": "static analysis: " + tech,
    })
for pid, why in sorted(NA.items()):
    na.append({"property_id": pid, "reason": why})

m = {
    "version": 1,
    "setup_cmd": "./setup.sh",
    "hooks": {
        "guard": "SLU_MT_VERIF",
        "enable": "no source hooks are needed by this technique; checks compile /repo/SRC/*.c to LLVM IR with the build's own -D/-I flags",
        "baseline_off_cmd": "ctest --test-dir /repo/_build -j8 --timeout 900",
        "source_commits": [],
        "add_only": True,
    },
    "engines": [
        {"name": "slumt-sa", "path": "sa/irdump.cc + slu/", "serves_properties": sorted(IMPLEMENTED),
         "kind_free_text": "custom static analyser: LLVM-14 IR fact extractor (C++) + Python rule engines (CFG must-pass-through, locksets, effects, typestate, partitioned constant propagation)"},
    ],
    "checks": checks,
    "not_applicable": na,
    "notes": "Static analysis only; see DESIGN.md. Exit 2 = analysis broken (anchor vanished / instance count below floor / build failure). Known findings: known_findings.json.",
}
json.dump(m, open(os.path.join(HERE, "MANIFEST.json"), "w"), indent=1)
print("MANIFEST.json: %d checks, %d not_applicable" % (len(checks), len(na)))
